#!/bin/bash
# Confirms seeded changes in a scratch worktree (never /repo): patch applies, the demonstration fails
# with it and passes without it, and the pinned workspace suite still passes with it.
# usage: [SEED_BASE=<commit>] seedverify.sh [--rerun-only] <seed-id>...   (results: /verif/seeded/<id>/verify.txt)
# SEED_BASE: commit of /repo the seed was written against (default: HEAD)
W=/tmp/seedverify; T=/tmp/seedverify-target
export CARGO_NET_OFFLINE=true CARGO_TARGET_DIR=$T
if [ ! -d $W ]; then git -C /repo worktree add -q --detach $W HEAD || exit 2; fi
cp /repo/Cargo.lock $W/ 2>/dev/null
RERUN_ONLY=0; if [ "$1" = "--rerun-only" ]; then RERUN_ONLY=1; shift; fi
# tests of the pinned suite that fail (other than the one that always fails offline) are load-sensitive
# (performance gates, a racy debugger test): each is re-run alone, up to 3 times, with the change applied
rerun_failed() {
  grep -E "^\s+(FAIL|TIMEOUT)" $OUT | grep -v web_ide_shell_serves_local_hashed_assets | sed -E 's/^\s+(FAIL|TIMEOUT) \[[^]]*\] (\([^)]*\) )?//' | sort -u | while read bin name; do
    [ -z "$name" ] && continue
    ok=0
    for k in 1 2 3; do
      if (cd $W && timeout 900 cargo nextest run --workspace --tool-config-file pb:/w/lib/nextest.toml --profile pb --offline -E "test(=$name)" 2>&1 | grep -q "1 passed"); then ok=$k; break; fi
    done
    if [ $ok -gt 0 ]; then echo "   RERUN ALONE $name: passed (attempt $ok)" >> $OUT; else echo "   RERUN ALONE $name: STILL FAILS" >> $OUT; fi
  done
}
for id in "$@"; do
  D=/verif/seeded/$id; OUT=$D/verify.txt
  if [ $RERUN_ONLY = 1 ]; then
    cd $W && git checkout -q --detach ${SEED_BASE:-$(git -C /repo rev-parse HEAD)} && git checkout -q -- . && git clean -fdq -e Cargo.lock
    (cd $W && git apply $D/patch.diff) || { echo "PATCH DOES NOT APPLY" >> $OUT; continue; }
    sed -i '/RERUN ALONE/d' $OUT
    rerun_failed
    cd $W && git checkout -q -- . && git clean -fdq -e Cargo.lock
    continue
  fi
  : > $OUT
  cd $W && git checkout -q --detach ${SEED_BASE:-$(git -C /repo rev-parse HEAD)} && git checkout -q -- . && git clean -fdq -e Cargo.lock
  demo=$(ls $D/demo.rs 2>/dev/null)
  crate=trust-runtime
  if [ -n "$demo" ]; then
    if grep -q "trust_ide" $demo && ! grep -q "trust_runtime" $demo; then crate=trust-ide; fi
    if grep -q "trust_hir" $demo && ! grep -q "trust_runtime\|trust_ide" $demo; then crate=trust-hir; fi
    if grep -q "trust_syntax" $demo && ! grep -q "trust_runtime\|trust_ide\|trust_hir" $demo; then crate=trust-syntax; fi
    if grep -q "CARGO_BIN_EXE_trust-lsp" $demo; then crate=trust-lsp; fi
  fi
  run_demo() {
    if [ -n "$demo" ]; then
      mkdir -p $W/crates/$crate/tests && cp $demo $W/crates/$crate/tests/zz_seed_demo.rs
      (cd $W && timeout 1500 cargo test -p $crate --test zz_seed_demo --offline 2>&1 | grep -E "^test result|panicked|error(\[|:)" | head -5)
      rm -f $W/crates/$crate/tests/zz_seed_demo.rs
    elif [ -f $D/demo.sh ]; then (cd $W && WORKTREE=$W timeout 1500 bash $D/demo.sh 2>&1 | tail -3)
    elif [ -f $D/demo.diff ]; then
      # a diff that adds a unit-test module to trust-lsp (c15_demo_<k>)
      name=$(grep -o "^+mod [a-z0-9_]*" $D/demo.diff | head -1 | cut -d' ' -f2)
      (cd $W && git apply $D/demo.diff && timeout 1500 cargo test -p trust-lsp --bins --offline $name 2>&1 | grep -E "^test result|panicked|error(\[|:)" | head -5; git apply -R $D/demo.diff)
    elif [ -f $D/demo.py ]; then
      # a python LSP client driving the worktree's trust-lsp binary
      (cd $W && cargo build -p trust-lsp --offline 2>&1 | grep -E "^error" | head -3; cd $D && TRUST_LSP=$T/debug/trust-lsp timeout 600 python3 demo.py > /tmp/seedverify-demo.out 2>&1; echo "demo.py exit=$?"; tail -4 /tmp/seedverify-demo.out)
    else echo "no demo"; fi
  }
  echo "== demo WITHOUT the change ($crate):" >> $OUT; run_demo >> $OUT 2>&1
  if ! (cd $W && git apply $D/patch.diff 2>>$OUT); then echo "PATCH DOES NOT APPLY" >> $OUT; continue; fi
  echo "== demo WITH the change:" >> $OUT; run_demo >> $OUT 2>&1
  echo "== workspace suite WITH the change:" >> $OUT
  (cd $W && timeout 3000 cargo nextest run --workspace --no-fail-fast --tool-config-file pb:/w/lib/nextest.toml --profile pb --test-threads 8 --offline 2>&1 | grep -E "^\s+(FAIL|TIMEOUT|SIGABRT)|Summary|error:" | sort -u | head -12) >> $OUT 2>&1
  rerun_failed
  cd $W && git checkout -q -- . && git clean -fdq -e Cargo.lock
  echo "== done $(date -u +%H:%M)" >> $OUT
done
