#!/usr/bin/env python3
"""Runs my checks against seeded changes (in a mutated copy, never /repo) and records the result.
usage: seedrun.py <seed-id>... ; writes /verif/seeded/<id>/meta.json (merging) and /verif/seeded/INDEX.md"""
import json, os, re, subprocess, sys, glob
BASE_KNOWN = None
def known_sigs():
    kf = json.load(open('/verif/known_findings.json'))
    return {s for f in kf['findings'] if f['status'] == 'known' for s in f['signatures']}
def run(id_, prop, tier):
    p = subprocess.run(['/verif/mutcheck.sh', f'/verif/seeded/{id_}/patch.diff', prop, tier], capture_output=True, text=True, timeout=5400)
    out = p.stdout + p.stderr
    sigs = re.findall(r'signature: (\S+)', out)
    m = re.search(r'exit=(\d+)', out)
    return (int(m.group(1)) if m else -1), sigs, ('BUILD FAILED' in out or 'patch failed' in out)
def main():
    for id_ in sys.argv[1:]:
        d = f'/verif/seeded/{id_}'
        prop = id_.split('-')[0]
        mp = f'{d}/meta.json'
        meta = json.load(open(mp)) if os.path.exists(mp) else {}
        meta.setdefault('property', prop)
        code, sigs, broken = run(id_, prop, 'quick')
        meta['check_quick'] = {'exit': code, 'signatures': sigs[:12], 'build_or_patch_failed': broken}
        if code == 0 and not broken:
            code2, sigs2, broken2 = run(id_, prop, 'thorough')
            meta['check_thorough'] = {'exit': code2, 'signatures': sigs2[:12]}
        meta['ran'] = f'mutcheck.sh seeded/{id_}/patch.diff {prop} quick' + (' ; thorough' if 'check_thorough' in meta and code == 0 else '')
        json.dump(meta, open(mp, 'w'), indent=1)
        print(id_, meta['check_quick']['exit'], meta.get('check_thorough', {}).get('exit'), sigs[:3])
    index()
def index():
    rows = []
    for mp in sorted(glob.glob('/verif/seeded/*/meta.json')):
        id_ = mp.split('/')[-2]
        m = json.load(open(mp))
        v = ''
        vp = f'/verif/seeded/{id_}/verify.txt'
        if os.path.exists(vp):
            t = open(vp).read()
            suite = re.search(r'Summary.*?(\d+) tests run: (\d+) passed(?:, (\d+) failed)?', t)
            v = (f"suite {suite.group(2)}/{suite.group(1)} passed" if suite else 'suite ?')
        q = m.get('check_quick', {}); th = m.get('check_thorough')
        det = 'quick' if q.get('exit') == 1 else ('thorough' if th and th.get('exit') == 1 else ('NOT DETECTED' if q.get('exit') == 0 else 'error'))
        sig = (q.get('signatures') or (th or {}).get('signatures') or [''])[0]
        rows.append(f"| {id_} | {m.get('property')} | {m.get('needs','')} | {v} | {det} | `{sig}` | {m.get('note','')} |")
    open('/verif/seeded/INDEX.md', 'w').write("# Seeded changes (written by fresh sub-agents from the property text only)\n\n| id | property | needs to manifest | confirmation | detected by | first signature | note |\n|---|---|---|---|---|---|---|\n" + "\n".join(rows) + "\n")
if __name__ == '__main__':
    main()
