#!/bin/bash
# runs every registered check of a tier and prints a one-line summary per property
TIER="${1:-quick}"
cd "$(dirname "$0")"
mkdir -p .work
for p in C01 C02 C03 C04 C05 C06 C07 C08 C09 C10 C11 C12 C13 C14 C15 C16 C17 C18 C19 C20; do
  s=$(date +%s)
  ./check $p $TIER > .work/runall_$p.log 2>&1; code=$?
  e=$(( $(date +%s) - s ))
  echo "$p $TIER exit=$code ${e}s known=$(grep -c '^KNOWN-FINDING' .work/runall_$p.log) violations=$(grep -c '^VIOLATION' .work/runall_$p.log) $(grep -h 'signature:' .work/runall_$p.log | head -40 | tr '\n' ' ')"
  grep -hE 'machinery|MACHINERY|error' .work/runall_$p.log | head -5
done
