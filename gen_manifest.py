#!/usr/bin/env python3
"""Generates MANIFEST.json from the table below (keeps the file valid and in one place)."""
import json, subprocess

CHECKS = {
 # id: (category, technique, text, note, design_ref)
 "C12": ("exploration",
         "bounded-exhaustive input enumeration on the real lexer/parser (all token sequences up to length L over a 58-token alphabet; every prefix / single-token deletion, duplication, swap of every corpus file; every token boundary x trivia insertion; nesting sweeps in isolated processes)",
         "Every text of the enumerated families is lexed and parsed by the real code and checked for: no panic/abort, tree text = input, tokens tile the text, error ranges inside the text, determinism, and shape stability under trivia insertion. Small-scope exhaustive: nothing is sampled.",
         "Claims nothing beyond the enumerated families and the stated nesting depths (8 MiB stack).",
         "DESIGN.md §5 C12"),
 "C20": ("model_checking",
         "stateless exploration of thread schedules of the real ResourceRunner threads under a controlled scheduler (own baton scheduler behind the cargo-feature hooks), depth-first with iterated deviation/preemption bound; every schedule runs to completion and is judged against invariants (sum of private cycle counters = shared counter, paired variables equal, no cycle while paused, stop/join terminate, one retain save)",
         "All interleavings, at the granularity of Mutex/Condvar/AtomicBool/spawn/join operations plus explicit loop-head and command-drain points, of 2-3 real resource threads and a controller thread, up to the completed deviation bound reported per scenario; deadlock = no enabled thread; livelock and step horizon reported.",
         "Sequentially consistent interleavings only (the code uses SeqCst atomics and mutexes), no spurious condvar wake-ups, ManualClock per resource, deviation-bounded (preemptions and departures from fair order at yield points each cost one).",
         "DESIGN.md §2.3, §5 C20"),
 "C17": ("model_checking",
         "stateless exploration of thread schedules of the real cycle thread (statement hook of DebugControl) against a controller thread running every command script of a bounded alphabet, under a controlled scheduler with iterated deviation bound; each complete schedule is judged against the undebugged reference run and the stop/resume invariants",
         "For every script (all sequences up to length 2 quick / 3 thorough over 22 debugger commands incl. steps addressed to a task, plus curated stop-wait-step, stop-wait-continue-wait-step and stop-wait-continue-step scripts, on two program variants) all interleavings at Mutex/Condvar granularity up to the deviation bound: final state equals the undebugged run, stop notifications = stops of the cycle thread (each with a location), every resume issued at a stop unblocks the thread, the cycle always terminates once breakpoints are cleared and Continue is issued, step-over/out never stop deeper, step-in stops at a direct successor statement (globally or within its task).",
         "Sequentially consistent interleavings, no spurious wake-ups, one fixed program shape (nested functions, FOR loop, FB, task + background program), two cycles; scripts contain no writes.",
         "DESIGN.md §2.3, §5 C17"),
 "C07": ("exploration",
         "bounded-exhaustive enumeration of binding sets (areas %I/%Q/%M x sizes X/B/W/D/L x byte offsets, all single bindings and all overlapping/adjacent pairs, 17 elementary types, four binding sites, 1-2 drivers, fault/no fault), each executed for 3 cycles on the real runtime with an instrumented IoDriver, against an independent little-endian image model",
         "Every case of the enumerated families: exactly one read_inputs before and one write_outputs after the programs per cycle and driver, all reads of an input-bound variable see the latched value, published bytes encode the final values, bits outside the addressed spans unchanged in all three images, a faulted cycle publishes no program-computed outputs.",
         "Small scope (18-byte images, offsets {0,1,2,3,7}); type tags are C03's business; exchange faults are counted, not judged; arrays/structs at an address are left out.",
         "DESIGN.md §5 C07"),
 "C13": ("model_checking",
         "explicit exploration of all edit/query histories up to a depth on the real trust_hir::Database (state = history, no merging because salsa memo tables are not observable), differential oracle against brand-new databases loaded in ascending and descending FileId order",
         "All histories of the enumerated families (set/remove over 3-4 files x 7 cross-referencing text variants, memoisation patterns none/each single query/all between edits, depth 3 quick / 4 thorough): every answer of diagnostics, analyze, file_symbols, type_of, expr_id_at_offset equals a fresh database's on a canonical rendering without raw ids; repeated queries agree; no panic.",
         "The product of memoisation patterns is restricted to named prefix-closed families (see evidence stages); texts without VAR_GLOBAL/CONFIGURATION; 5 files not covered.",
         "DESIGN.md §5 C13"),
 "C01": ("exploration",
         "bounded-exhaustive enumeration of generated ST programs (families F1-F19 of the ST-core corpus (F11 input traces, F12 expression trees, F13 standard functions and non-core types, F14 programs that cannot terminate under an execution budget, F15 evaluation order, F16 object orientation / aggregates / remaining language forms, F17 chains of named types, F18-F19 scoping and late additions): operator matrices over boundary values of every integer type and reals, conversion matrix, control-flow shapes, calls incl. recursion, FB instances, precedence triples, aggregate indexing, hand-written feature probes), each compiled and run in crash-isolated worker processes; oracle = outcome class of every cycle",
         "Every accepted program of the enumerated families, every cycle: the cycle ends Ok or with a value-dependent fault (never a static-class error), no panic, no process abort, no hang, no call frame left behind.",
         "Small scope: everything in the families, nothing beyond; the list of value-dependent fault classes is taken from the property statement.",
         "DESIGN.md §5 shared corpus, C01"),
 "C02": ("exploration",
         "bounded-exhaustive enumeration of the reference-defined stratum of the ST-core corpus, differential oracle: an independently written reference evaluator over the generated AST (exact integer arithmetic in the promoted type with overflow fault, truncating division, IEC Table 71 precedence, short-circuit AND/OR, FOR test before each iteration, by-value inputs / in-outs / outputs, FB instance state)",
         "For every program of the stratum and every cycle: fault/no-fault and fault class equal the reference's, and every variable the reference defines has the reference's value (compared numerically, type tags are C03's business).",
         "Constructs the documents leave open are excluded (mixed signed/unsigned operands, REAL overflow/division by zero, MOD by zero with an Ok outcome, value of a FOR control variable after the loop, loops leaving the control type's range).",
         "DESIGN.md §2.5, §5 C02"),
 "C03": ("exploration",
         "invariant checked on the storage dump after every cycle of every program of the ST-core corpus: the runtime tag of each scalar location (variables, array elements, struct fields, FB members) equals its declared type and integers are in range",
         "All write paths exercised by the corpus: assignment from variables/literals/expressions of every accepted source type into every declared type, index and field targets, parameters, FOR control variables, FB members.",
         "Declared types come from the generator (not from the runtime). Debugger writes (stcore/dbgwrite.rs) and I/O latching (stcore/iolatch.rs, incl. CHAR/WCHAR and hierarchical addresses) are separate families of this engine; restart paths are exercised by C09, which compares values with their rendered tags.",
         "DESIGN.md §5 C03"),
 "C04": ("model_checking",
         "explicit-state breadth-first search over call histories of TON, TOF, TP, CTU, CTD, CTUD, R_TRIG, F_TRIG, SR, RS at two seams (the pure Rust step structs and ST programs with two instances per kind run through TestHarness); state = all instance variables incl. hidden ones + reference-model state; oracle = the clauses of the IEC timing diagrams as arithmetic on accumulated time",
         "Every history up to depth 6 (quick) / 12 (thorough) over IN x dt in {0,1,2,3,5} ms x PT families (-1, 0, 2, 3, max, changing per call), counters over all input combinations x PV in {-1,0,1,2,max} from initial and near-saturation states; many families reach a fixpoint (closed state space). Instance independence is checked against a second instance on a fixed trace.",
         "Where the statement is silent (ET after reset, negative PT, PT changed mid-run) several readings are kept alive and only an observation no reading explains is reported.",
         "DESIGN.md §5 C04"),
 "C08": ("fault_enumeration",
         "enumeration of every fault point (209: every statement position of a two-task + background program skeleton incl. nested function/FB calls x {division by zero, index out of bounds, null dereference} x cycle 1..3; driver read/write errors; deadline, task-collect, retain-save, watchdog, simulation faults) x fault policy x watchdog action x all 64 safe-state maps x driver sets, each executed on the real runtime with logging drivers",
         "After every fault: the latch is set, every later cycle request is refused with an identical state, restart clears the latch; where the policy demands it every safe-state (address,value) is in the output image and in the last image each driver received, delivered before the fault was reported.",
         "Quick runs the map/observer slices on 11 representative fault points, thorough on all 209; the resource-thread and Modbus families are small samples of the same oracle.",
         "DESIGN.md §5 C08"),
 "C09": ("model_checking",
         "explicit-state breadth-first search (x2::bfs, states merged on a hash of the name-keyed dump + time + fault latch + images + reference-model state) over histories of {cycle, %I writes, restart(Warm), restart(Cold), power cycle through a real FileRetainStore, fault} on generated programs that declare every qualifier x scope x type; oracle = retain model + differential comparison of every cold-restarted state with a freshly built runtime on all 2-cycle continuations + relational binding checks",
         "All histories to depth 4 (quick) / 7 (thorough) on nine program families (149-variable matrix, bindings, config-init, single, memory incl. retained variables located in %M, store-explicit, store-every-cycle, store-reals, store-reals-every-cycle) over {cycle, %I writes, warm, cold, power cycle, explicit save, reboot without save, three cycle-less write paths}.",
         "Ambiguous cases (FB members under RETAIN, PROGRAM RETAIN, VAR_CONFIG init after warm) accept either reading but require the same reading for warm restart and power cycle.",
         "DESIGN.md §5 C09"),
 "C10": ("fault_enumeration",
         "crash-point enumeration: FileRetainStore::store runs in a child process under an LD_PRELOAD shim that kills it before every intercepted system call and inside every write at every byte length; the parent then calls the real load(). Plus exhaustive codec round trips over all 31 value tags x boundary payloads to nesting depth 2, and decoder totality over every single-byte substitution / truncation / 4-byte window of 21 base images and nesting sweeps, each in a crash-isolated worker under RLIMIT_AS",
         "Every crash point of every (old,new) snapshot pair: load() returns the old or the new snapshot in full and a later store works; every enumerated value shape round-trips bit-exactly; every enumerated hostile image yields Ok/Err, never panic, abort, stack overflow or timeout.",
         "Process death only (no page-cache loss); over-allocations that stay below the 1 GiB address-space limit are not observable.",
         "DESIGN.md §2.4, §5 C10"),
 "C11": ("exploration",
         "structure-aware exhaustive mutation of valid STBC containers with recomputed CRC (every byte x 7 values, every u16/u32/i64 field x boundary and length-derived values, every tag x its domain, every truncation with and without table fix-up, section-table permutations, self-referential type indices), each mutant run through decode -> validate -> metadata -> encode -> apply_bytecode_bytes -> restart in a fork-server worker under RLIMIT_AS; plus round trips over 117 compiled programs/projects",
         "Every mutant of every seed (389k quick, 2.5M thorough): every stage returns Ok/Err, a mutant that validates applies without panic; every compiled container validates and decode/encode are mutually inverse byte for byte.",
         "Memory proportional to the input is approximated by a 1 GiB address-space cap.",
         "DESIGN.md §5 C11"),
 "C18": ("exploration",
         "bounded-exhaustive enumeration of request type (all names extracted from the dispatcher and the role table in the current source + garbled variants) x params x credential x endpoint configuration against a real ControlServer on a unix socket with a freshly built ControlState per group, effect probes before/after; explicit-state search of the pairing sub-protocol (start/claim/revoke/clock ticks, depth 4 quick / 6 thorough) against a reference model; every truncation of valid request lines and garbage lines on a live connection",
         "Every enumerated request: performed only with a sufficient role, performed set upward closed, no effect for viewer, mutating types above viewer in the table, no effect and no data without valid credentials when a token is configured, debug-class requests refused while debug is disabled, every line answered with a well-formed reply.",
         "An effect is a difference of the probed state (DebugControl, settings, restart signal, resource commands, pairing store, project files, variables after one more cycle); metrics/uptime and read-side bookkeeping are ignored.",
         "DESIGN.md §5 C18"),
 "C19": ("exploration",
         "part 1: bounded-exhaustive enumeration of path strings (all sequences of <= 3 / 4 components over a 17-entry menu incl. .., ., empty, hidden, symlinked directory, long and non-ASCII names, joined with /, //, backslash, with absolute / drive / URL-encoded / NUL decorations) x every file API operation x session kind x write_enabled on a real WebIdeState whose project is nested in a sentinel tree (snapshot + access-time detectors). part 2: stateless exploration of all thread schedules (controlled scheduler, deviation-bounded) of k editor sessions doing open -> apply(expected version) with retries on one file",
         "No operation changes or reads anything outside the project or any hidden entry, non-editor/unknown/write-disabled callers change nothing; in every explored schedule each successful write was based on the content of the previous successful write and the file equals the last successful write.",
         "Expired sessions are represented by never-issued tokens (the clock seam is not public); reads that leave no trace are seen only through access times; writer schedules at Mutex + hooked file read/write granularity.",
         "DESIGN.md §2.3, §5 C19"),
 "C05": ("exploration",
         "(a) exhaustive exploration of iteration orders: every order-exposing traversal of a hash collection in the bytecode encoder (hooked through verif_map) is a choice point, all alternative orders explored depth-first to a deviation bound, emitted container compared byte for byte; (b) differential sweep: every corpus program compiled and run for 3 cycles in N independent OS processes x 2 threads (own hash seeds, layout, environment size), container bytes / per-cycle state / faults / runtime events compared",
         "Corpus of ~5 750 compiling programs (generated wide programs with k types, interfaces, functions, FBs with methods, programs, tasks; every repository .st file; one case of every ST-core feature): the container never depends on an explored iteration order and all observations are identical across processes and threads.",
         "The hash-seed space and memory layouts cannot be enumerated: (b) is a fixed-size sweep, not an enumeration, and is labelled so in the evidence; (a) is exhaustive only over the hooked encoder collections (currently 0 order-exposing traversals are reached, i.e. the order family holds trivially today).",
         "DESIGN.md §5 C05, §6"),
 "C06": ("model_checking",
         "explicit-state breadth-first search over timelines (state = timeline replayed on the real Runtime built from generated CONFIGURATION text; merged on reference-model state + the runtime's task state), level-synchronous across all configurations; oracle = an independent task model implementing the property statement, with every open point of the statement kept as a set of alternative readings that must collectively explain each cycle",
         "670 (quick) / 4223 (thorough) configurations (1-4 tasks and fixed 6-task sets, INTERVAL absent/0/2/3 ms, PRIORITY 0/1 incl. equal, SINGLE none/g1/g2 incl. shared and mixed periodic+event, un-tasked programs, task-bound FB instance) x all timelines of depth 2-7 over dt in {0,1,2,3,7} ms x SINGLE values: executed task and program sequence and overrun counts of every cycle equal the model's.",
         "Several programs on one task, SINGLE variables written by programs, a clock moving backwards are not covered.",
         "DESIGN.md §5 C06"),
 "C14": ("model_checking",
         "explicit-state breadth-first search over edit histories replayed on the REAL trust-lsp binary over stdio JSON-RPC (state = history + reference editor text; merged when editor text and answers are equal); oracle = a reference editor model with UTF-16 arithmetic per LSP 3.17: the incrementally fed document and a fresh document opened with the model's text must answer formatting, semanticTokens/full, documentSymbol and pull diagnostics identically, and every position the server reports must equal the model's UTF-16 position of the corresponding lexer token",
         "10 initial texts (ASCII, Latin-1, CJK, astral in comment and string, CRLF, mixed, empty, no trailing newline, lone CR) x every range between UTF-16 boundaries in a window (incl. one past-end-of-line column) x 6 replacements, single/two-change/full/mixed notifications; two families (wide: 1 notification, deep: 2 quick / 3 thorough).",
         "Whitespace-only differences inside reformatted lines and line-terminator kind are invisible through the compared answers; undefined positions (inside a surrogate pair, past the last line) are not sent.",
         "DESIGN.md §5 C14"),
 "C16": ("exploration",
         "bounded-exhaustive enumeration of generated projects (every subset of up to 1 / 2 of 19 declaration slots named x, single- and two-file layouts, uniform and mixed-case spelling) x every identifier token as rename position x a menu of new names (fresh, colliding in outer/inner/sibling/same scope, case variants, built-ins, keywords, invalid), each executed on the real trust_ide::rename, re-analysed with the HIR and executed with TestHarness",
         "Every accepted rename: edits in bounds, disjoint, each exactly one identifier token spelt like the old name; diagnostics equal up to the name; the renamed project compiles and its state after each of 3 cycles equals the original's modulo the renaming; every occurrence resolves to the same (edit-adjusted) declaration; renaming back restores the text byte for byte.",
         "One input trace, 3 cycles; goto-definition-only differences not confirmed by diagnostics or execution are counted, not reported; an inheritance skeleton (EXTENDS incl. namespace-qualified bases, OVERRIDE, THIS/SUPER) is generated as its own stratum; enums, properties and actions are not generated.",
         "DESIGN.md §5 C16"),
 "C15": ("exploration",
         "bounded-exhaustive enumeration of texts (every ordered pair of 68 representative tokens in 6 line contexts; every repository .st file and each of its single-line deletions/duplications; all sequences of <= 2 / 3 segments mixing code, comments, pragmas and tricky strings x separators x line endings; crafted programs) x formatter configurations (pairwise covering array of 8 option dimensions quick, full product thorough) x every line interval for rangeFormatting and every line end x trigger character for onTypeFormatting, through the REAL trust-lsp binary over stdio and WebIdeState::format_source; oracle via trust_syntax::lex on both sides",
         "Every (text, configuration): same non-trivia token sequence (keywords case-insensitively, everything else byte for byte), same comments/pragmas/strings in order, format(format(s)) = format(s), applying range / on-type edits preserves tokens and specials.",
         "Inputs with lexer Error tokens only require no crash and preserved token texts; astral characters and lone CR belong to C14; dropping blank lines is not a violation.",
         "DESIGN.md §5 C15"),
}

NOT_APPLICABLE = {
}

PENDING_REASON = "not claimed yet: engine under construction (see DESIGN.md §5); no check is registered until it runs clean on the unchanged tree"

def main():
    props = [json.loads(l)["id"] for l in open("/verif/properties.jsonl")]
    checks = []
    for pid in props:
        if pid not in CHECKS:
            continue
        cat, tech, text, note, ref = CHECKS[pid]
        checks.append({
            "property_id": pid,
            "quick_cmd": f"./check {pid} quick",
            "thorough_cmd": f"./check {pid} thorough",
            "evidence_file": f"/verif/evidence/{pid}.json",
            "replay_cmd_template": f"./check {pid} --replay {{path}}",
            "engine": "tv",
            "level_claimed": {"category": cat, "text": text, "design_ref": ref},
            "level_note": note,
            "technique": tech,
        })
    na = []
    for pid in props:
        if pid in CHECKS:
            continue
        na.append({"property_id": pid, "reason": NOT_APPLICABLE.get(pid, PENDING_REASON)})
    hooks_commits = []
    try:
        out = subprocess.run(["git", "-C", "/repo", "log", "--format=%H %s"], capture_output=True, text=True).stdout
        for line in out.splitlines():
            h, _, s = line.partition(" ")
            if s.startswith("verif-hook:"):
                hooks_commits.append(h)
    except Exception:
        pass
    manifest = {
        "version": 1,
        "setup_cmd": "./check --setup",
        "hooks": {
            "guard": "verif (cargo feature of crates/trust-runtime, off by default)",
            "enable": "tv/Cargo.toml depends on trust-runtime with features=[\"verif\"]; no RUSTFLAGS",
            "baseline_off_cmd": "cd /repo && cargo nextest run --workspace --no-fail-fast --tool-config-file pb:/w/lib/nextest.toml --profile pb --test-threads 8 --offline || cargo test --workspace --no-fail-fast --offline",
            "source_commits": list(reversed(hooks_commits)),
            "add_only": True,
        },
        "engines": [{
            "name": "tv",
            "path": "/verif/tv",
            "serves_properties": sorted(CHECKS.keys()),
            "kind_free_text": "one Rust harness linked against /repo/crates/*: bounded-exhaustive enumeration (X1), explicit-state search by replay (X2), stateless schedule exploration on real threads (X3), crash/fault-point enumeration (X4)",
        }],
        "checks": checks,
        "not_applicable": na,
        "notes": "exit 0 = held on everything explored (KNOWN-FINDING lines possible), 1 = VIOLATION, 2 = machinery error. known_findings.json is never written at run time.",
    }
    json.dump(manifest, open("/verif/MANIFEST.json", "w"), indent=1)
    print("checks:", [c["property_id"] for c in checks])

if __name__ == "__main__":
    main()
