#!/usr/bin/env python3
"""Generates MANIFEST.json from the table below (keeps the file valid and in one place)."""
import json, subprocess

CHECKS = {
 # id: (category, technique, text, note, design_ref)
 "C12": ("exploration",
         "bounded-exhaustive input enumeration on the real lexer/parser (all token sequences up to length L over a 58-token alphabet; every prefix / single-token deletion, duplication, swap of every corpus file; every token boundary x trivia insertion; nesting sweeps in isolated processes)",
         "Every text of the enumerated families is lexed and parsed by the real code and checked for: no panic/abort, tree text = input, tokens tile the text, error ranges inside the text, determinism, and shape stability under trivia insertion. Small-scope exhaustive: nothing is sampled.",
         "Claims nothing beyond the enumerated families and the stated nesting depths (8 MiB stack).",
         "DESIGN.md §5 C12"),
 "C20": ("model_checking",
         "stateless exploration of thread schedules of the real ResourceRunner threads under a controlled scheduler (own baton scheduler behind the cargo-feature hooks), depth-first with iterated deviation/preemption bound; every schedule runs to completion and is judged against invariants (sum of private cycle counters = shared counter, paired variables equal, no cycle while paused, stop/join terminate, one retain save)",
         "All interleavings, at the granularity of Mutex/Condvar/AtomicBool/spawn/join operations plus explicit loop-head and command-drain points, of 2-3 real resource threads and a controller thread, up to the completed deviation bound reported per scenario; deadlock = no enabled thread; livelock and step horizon reported.",
         "Sequentially consistent interleavings only (the code uses SeqCst atomics and mutexes), no spurious condvar wake-ups, ManualClock per resource, deviation-bounded (preemptions and departures from fair order at yield points each cost one).",
         "DESIGN.md §2.3, §5 C20"),
 "C17": ("model_checking",
         "stateless exploration of thread schedules of the real cycle thread (statement hook of DebugControl) against a controller thread running every command script of a bounded alphabet, under a controlled scheduler with iterated deviation bound; each complete schedule is judged against the undebugged reference run and the stop/resume invariants",
         "For every script (all sequences up to length 2 quick / 3 thorough over 14 debugger commands plus curated breakpoint-wait-step scripts) all interleavings at Mutex/Condvar granularity up to the deviation bound: final state equals the undebugged run, stop notifications = stops of the cycle thread (each with a location), every resume issued at a stop unblocks the thread, the cycle always terminates once breakpoints are cleared and Continue is issued, step-over/out never stop deeper, step-in stops at a direct successor statement (globally or within its task).",
         "Sequentially consistent interleavings, no spurious wake-ups, one fixed program shape (nested functions, FOR loop, FB, task + background program), two cycles; scripts contain no writes.",
         "DESIGN.md §2.3, §5 C17"),
 "C07": ("exploration",
         "bounded-exhaustive enumeration of binding sets (areas %I/%Q/%M x sizes X/B/W/D/L x byte offsets, all single bindings and all overlapping/adjacent pairs, 17 elementary types, four binding sites, 1-2 drivers, fault/no fault), each executed for 3 cycles on the real runtime with an instrumented IoDriver, against an independent little-endian image model",
         "Every case of the enumerated families: exactly one read_inputs before and one write_outputs after the programs per cycle and driver, all reads of an input-bound variable see the latched value, published bytes encode the final values, bits outside the addressed spans unchanged in all three images, a faulted cycle publishes no program-computed outputs.",
         "Small scope (18-byte images, offsets {0,1,2,3,7}); type tags are C03's business; exchange faults are counted, not judged; arrays/structs at an address are left out.",
         "DESIGN.md §5 C07"),
 "C13": ("model_checking",
         "explicit exploration of all edit/query histories up to a depth on the real trust_hir::Database (state = history, no merging because salsa memo tables are not observable), differential oracle against brand-new databases loaded in ascending and descending FileId order",
         "All histories of the enumerated families (set/remove over 3-4 files x 7 cross-referencing text variants, memoisation patterns none/each single query/all between edits, depth 3 quick / 4 thorough): every answer of diagnostics, analyze, file_symbols, type_of, expr_id_at_offset equals a fresh database's on a canonical rendering without raw ids; repeated queries agree; no panic.",
         "The product of memoisation patterns is restricted to named prefix-closed families (see evidence stages); texts without VAR_GLOBAL/CONFIGURATION; 5 files not covered.",
         "DESIGN.md §5 C13"),
}

NOT_APPLICABLE = {
}

PENDING_REASON = "not claimed yet: engine under construction (see DESIGN.md §5); no check is registered until it runs clean on the unchanged tree"

def main():
    props = [json.loads(l)["id"] for l in open("/verif/properties.jsonl")]
    checks = []
    for pid in props:
        if pid not in CHECKS:
            continue
        cat, tech, text, note, ref = CHECKS[pid]
        checks.append({
            "property_id": pid,
            "quick_cmd": f"./check {pid} quick",
            "thorough_cmd": f"./check {pid} thorough",
            "evidence_file": f"/verif/evidence/{pid}.json",
            "replay_cmd_template": f"./check {pid} --replay {{path}}",
            "engine": "tv",
            "level_claimed": {"category": cat, "text": text, "design_ref": ref},
            "level_note": note,
            "technique": tech,
        })
    na = []
    for pid in props:
        if pid in CHECKS:
            continue
        na.append({"property_id": pid, "reason": NOT_APPLICABLE.get(pid, PENDING_REASON)})
    hooks_commits = []
    try:
        out = subprocess.run(["git", "-C", "/repo", "log", "--format=%H %s"], capture_output=True, text=True).stdout
        for line in out.splitlines():
            h, _, s = line.partition(" ")
            if s.startswith("verif-hook:"):
                hooks_commits.append(h)
    except Exception:
        pass
    manifest = {
        "version": 1,
        "setup_cmd": "./check --setup",
        "hooks": {
            "guard": "verif (cargo feature of crates/trust-runtime, off by default)",
            "enable": "tv/Cargo.toml depends on trust-runtime with features=[\"verif\"]; no RUSTFLAGS",
            "baseline_off_cmd": "cd /repo && cargo nextest run --workspace --no-fail-fast --tool-config-file pb:/w/lib/nextest.toml --profile pb --test-threads 8 --offline || cargo test --workspace --no-fail-fast --offline",
            "source_commits": list(reversed(hooks_commits)),
            "add_only": True,
        },
        "engines": [{
            "name": "tv",
            "path": "/verif/tv",
            "serves_properties": sorted(CHECKS.keys()),
            "kind_free_text": "one Rust harness linked against /repo/crates/*: bounded-exhaustive enumeration (X1), explicit-state search by replay (X2), stateless schedule exploration on real threads (X3), crash/fault-point enumeration (X4)",
        }],
        "checks": checks,
        "not_applicable": na,
        "notes": "exit 0 = held on everything explored (KNOWN-FINDING lines possible), 1 = VIOLATION, 2 = machinery error. known_findings.json is never written at run time.",
    }
    json.dump(manifest, open("/verif/MANIFEST.json", "w"), indent=1)
    print("checks:", [c["property_id"] for c in checks])

if __name__ == "__main__":
    main()
