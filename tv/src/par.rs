//! Tiny parallel helpers on std threads (no external crates).

use std::sync::atomic::{AtomicBool, AtomicUsize, Ordering};
use std::sync::Mutex;
use std::time::Instant;

/// Applies `f` to every item on `threads` OS threads (each with `stack` bytes of stack), in
/// index order per thread (work stealing by a shared counter). Results are returned in item
/// order; `None` for items skipped because `deadline` passed (items are claimed in ascending
/// order, so the completed set is a prefix plus a few in-flight items).
pub fn par_map<I: Sync, O: Send>(
    items: &[I],
    threads: usize,
    stack: usize,
    deadline: Option<Instant>,
    f: impl Fn(usize, &I) -> O + Sync,
) -> Vec<Option<O>> {
    let next = AtomicUsize::new(0);
    let stop = AtomicBool::new(false);
    let out: Mutex<Vec<Option<O>>> = Mutex::new((0..items.len()).map(|_| None).collect());
    std::thread::scope(|s| {
        for _ in 0..threads.max(1) {
            std::thread::Builder::new()
                .stack_size(stack)
                .spawn_scoped(s, || loop {
                    if stop.load(Ordering::Relaxed) {
                        break;
                    }
                    if let Some(d) = deadline {
                        if Instant::now() >= d {
                            stop.store(true, Ordering::Relaxed);
                            break;
                        }
                    }
                    let i = next.fetch_add(1, Ordering::Relaxed);
                    if i >= items.len() {
                        break;
                    }
                    let r = f(i, &items[i]);
                    out.lock().unwrap()[i] = Some(r);
                })
                .expect("spawn worker thread");
        }
    });
    out.into_inner().unwrap()
}

/// Number of leading `Some` entries (the fully covered prefix).
pub fn completed_prefix<O>(v: &[Option<O>]) -> usize {
    v.iter().take_while(|o| o.is_some()).count()
}
