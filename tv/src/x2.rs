//! X2 — explicit-state breadth-first search where a state is represented by the event history
//! that reaches it; the *real* object is rebuilt by replaying the history (`eval`), which returns
//! a canonical key (implementation state + reference-model state) and the violations observed
//! on the last step. Histories with equal keys are merged.

use crate::fw::Violation;
use crate::par::par_map;
use std::collections::HashSet;
use std::hash::Hash;
use std::time::Instant;

pub struct BfsStats<E> {
    pub states: u64,
    pub transitions: u64,
    /// depth up to which every reachable (canonical) state was expanded
    pub depth_completed: usize,
    pub capped: bool,
    pub violations: Vec<Violation>,
    /// a few histories, for the evidence file
    pub sample_histories: Vec<Vec<E>>,
    pub frontier_sizes: Vec<usize>,
}

pub struct StepResult<K> {
    /// canonical key of the reached state; `None` = do not expand further (e.g. terminal/fault)
    pub key: Option<K>,
    pub violations: Vec<Violation>,
}

#[allow(clippy::too_many_arguments)]
pub fn bfs<E, K>(
    max_depth: usize,
    threads: usize,
    stack: usize,
    deadline: Option<Instant>,
    enabled: &(dyn Fn(&[E]) -> Vec<E> + Sync),
    eval: &(dyn Fn(&[E]) -> StepResult<K> + Sync),
) -> BfsStats<E>
where
    E: Clone + Send + Sync,
    K: Hash + Eq + Send,
{
    let mut seen: HashSet<K> = HashSet::new();
    let mut stats = BfsStats {
        states: 1,
        transitions: 0,
        depth_completed: 0,
        capped: false,
        violations: Vec::new(),
        sample_histories: Vec::new(),
        frontier_sizes: Vec::new(),
    };
    let root = eval(&[]);
    stats.violations.extend(root.violations);
    if let Some(k) = root.key {
        seen.insert(k);
    }
    let mut frontier: Vec<Vec<E>> = vec![Vec::new()];
    for depth in 1..=max_depth {
        // all (history, event) pairs of this level, in deterministic order
        let mut work: Vec<Vec<E>> = Vec::new();
        for h in &frontier {
            for ev in enabled(h) {
                let mut n = h.clone();
                n.push(ev);
                work.push(n);
            }
        }
        if work.is_empty() {
            stats.depth_completed = max_depth;
            break;
        }
        let res = par_map(&work, threads, stack, deadline, |_, h| eval(h));
        let mut next = Vec::new();
        let mut level_complete = true;
        for (h, r) in work.into_iter().zip(res) {
            let Some(r) = r else {
                level_complete = false;
                continue;
            };
            stats.transitions += 1;
            stats.violations.extend(r.violations);
            if let Some(k) = r.key {
                if seen.insert(k) {
                    stats.states += 1;
                    if stats.sample_histories.len() < 4 && depth >= 2 {
                        stats.sample_histories.push(h.clone());
                    }
                    next.push(h);
                }
            }
        }
        stats.frontier_sizes.push(next.len());
        if !level_complete {
            stats.capped = true;
            break;
        }
        stats.depth_completed = depth;
        frontier = next;
        if frontier.is_empty() {
            stats.depth_completed = max_depth;
            break;
        }
    }
    stats
}
