//! Crash-isolated workers: cases are executed in child processes of this same binary
//! (`tv --worker <name>`) under an address-space limit, one case in flight per child, so that an
//! abort / stack overflow / OOM is attributed to exactly one case.

use serde_json::Value;
use std::io::{BufRead, BufReader, Write};
use std::process::{Child, Command, Stdio};
use std::sync::atomic::{AtomicUsize, Ordering};
use std::sync::mpsc;
use std::sync::Mutex;
use std::time::{Duration, Instant};

pub type WorkerFn = fn(&Value) -> Value;

#[derive(Debug, Clone)]
pub enum Outcome {
    /// worker function returned
    Ok(Value),
    /// worker function panicked (caught inside the worker)
    Panic(String),
    /// the child process died while working on the case (signal or exit code, stderr tail)
    Died(String),
    /// the case did not answer within the per-case limit; the child was killed
    Timeout,
}

pub struct PoolCfg {
    pub worker: &'static str,
    pub procs: usize,
    /// RLIMIT_AS in bytes for each child (0 = unlimited)
    pub rlimit_as: u64,
    pub per_case: Duration,
    pub deadline: Option<Instant>,
    /// extra environment for the children
    pub env: Vec<(String, String)>,
    /// stack size of the thread that runs cases inside the worker
    pub stack: usize,
}

struct Proc {
    child: Child,
    rx: mpsc::Receiver<String>,
    stdin: std::process::ChildStdin,
}

fn spawn(cfg: &PoolCfg) -> std::io::Result<Proc> {
    let exe = std::env::current_exe()?;
    let mut cmd = Command::new(exe);
    cmd.env("RUST_BACKTRACE", "0");
    cmd.arg("--worker")
        .arg(cfg.worker)
        .env("TV_RLIMIT_AS", cfg.rlimit_as.to_string())
        .env("TV_WORKER_STACK", cfg.stack.to_string())
        .stdin(Stdio::piped())
        .stdout(Stdio::piped())
        .stderr(Stdio::piped());
    for (k, v) in &cfg.env {
        cmd.env(k, v);
    }
    let mut child = cmd.spawn()?;
    let stdout = child.stdout.take().unwrap();
    let stdin = child.stdin.take().unwrap();
    let (tx, rx) = mpsc::channel();
    std::thread::spawn(move || {
        let r = BufReader::new(stdout);
        for line in r.lines() {
            match line {
                Ok(l) => {
                    if tx.send(l).is_err() {
                        break;
                    }
                }
                Err(_) => break,
            }
        }
    });
    Ok(Proc { child, rx, stdin })
}

fn reap(mut p: Proc) -> String {
    let _ = p.child.kill();
    let status = p.child.wait();
    let mut tail = String::new();
    if let Some(mut e) = p.child.stderr.take() {
        use std::io::Read;
        let mut buf = Vec::new();
        let _ = e.read_to_end(&mut buf);
        let s = String::from_utf8_lossy(&buf);
        let t: Vec<&str> = s.lines().rev().take(3).collect();
        tail = t.into_iter().rev().collect::<Vec<_>>().join(" | ");
    }
    format!("{status:?} {tail}")
}

/// A (re-spawnable) worker child; one case in flight at a time.
pub struct Worker<'c> {
    cfg: &'c PoolCfg,
    proc: Option<Proc>,
}

impl<'c> Worker<'c> {
    pub fn new(cfg: &'c PoolCfg) -> Self {
        Worker { cfg, proc: None }
    }

    /// Executes one case; `Err` = the worker process could not be started (machinery problem).
    pub fn call(&mut self, case: &Value) -> Result<Outcome, String> {
        if self.proc.is_none() {
            self.proc = Some(spawn(self.cfg).map_err(|e| format!("cannot spawn worker: {e}"))?);
        }
        let p = self.proc.as_mut().unwrap();
        let line = serde_json::to_string(case).unwrap();
        let sent = writeln!(p.stdin, "{line}").and_then(|_| p.stdin.flush());
        if sent.is_err() {
            return Ok(Outcome::Died(reap(self.proc.take().unwrap())));
        }
        Ok(match p.rx.recv_timeout(self.cfg.per_case) {
            Ok(l) => match serde_json::from_str::<Value>(&l) {
                Ok(v) => {
                    if v.get("exit").and_then(Value::as_bool) == Some(true) {
                        // the worker announced that it terminates after this reply
                        let _ = reap(self.proc.take().unwrap());
                    }
                    if let Some(m) = v.get("panic").and_then(Value::as_str) {
                        Outcome::Panic(m.to_string())
                    } else {
                        Outcome::Ok(v["ok"].clone())
                    }
                }
                Err(_) => {
                    let _ = reap(self.proc.take().unwrap());
                    Outcome::Died(format!("garbled worker reply: {l}"))
                }
            },
            Err(mpsc::RecvTimeoutError::Timeout) => {
                let _ = reap(self.proc.take().unwrap());
                Outcome::Timeout
            }
            Err(mpsc::RecvTimeoutError::Disconnected) => Outcome::Died(reap(self.proc.take().unwrap())),
        })
    }
}

impl Drop for Worker<'_> {
    fn drop(&mut self) {
        if let Some(p) = self.proc.take() {
            drop(p.stdin);
            let mut c = p.child;
            let _ = c.kill();
            let _ = c.wait();
        }
    }
}

/// Runs all cases; result i corresponds to case i. `None` = not executed (deadline).
pub fn run_pool(cfg: &PoolCfg, cases: &[Value]) -> Result<Vec<Option<Outcome>>, String> {
    let next = AtomicUsize::new(0);
    let out: Mutex<Vec<Option<Outcome>>> = Mutex::new((0..cases.len()).map(|_| None).collect());
    let err: Mutex<Option<String>> = Mutex::new(None);
    std::thread::scope(|s| {
        for _ in 0..cfg.procs.max(1) {
            s.spawn(|| {
                let mut w = Worker::new(cfg);
                loop {
                    if let Some(d) = cfg.deadline {
                        if Instant::now() >= d {
                            break;
                        }
                    }
                    if err.lock().unwrap().is_some() {
                        break;
                    }
                    let i = next.fetch_add(1, Ordering::Relaxed);
                    if i >= cases.len() {
                        break;
                    }
                    match w.call(&cases[i]) {
                        Ok(o) => out.lock().unwrap()[i] = Some(o),
                        Err(e) => {
                            *err.lock().unwrap() = Some(e);
                            break;
                        }
                    }
                }
            });
        }
    });
    if let Some(e) = err.into_inner().unwrap() {
        return Err(e);
    }
    Ok(out.into_inner().unwrap())
}

/// Called inside a worker: send the reply for the current case and terminate the process
/// (used when the process state is no longer usable, e.g. after a detected deadlock).
pub fn reply_and_exit(value: Value) -> ! {
    let reply = serde_json::json!({ "ok": value, "exit": true });
    let stdout = std::io::stdout();
    let mut o = stdout.lock();
    let _ = writeln!(o, "{}", serde_json::to_string(&reply).unwrap());
    let _ = o.flush();
    std::process::exit(0)
}

/// Entry point of a worker child.
pub fn worker_main(f: WorkerFn) -> ! {
    let lim: u64 = std::env::var("TV_RLIMIT_AS")
        .ok()
        .and_then(|s| s.parse().ok())
        .unwrap_or(0);
    if lim > 0 {
        let r = libc::rlimit {
            rlim_cur: lim,
            rlim_max: lim,
        };
        // SAFETY: plain libc call with a valid pointer.
        unsafe {
            libc::setrlimit(libc::RLIMIT_AS, &r);
        }
    }
    // no core dumps
    let r0 = libc::rlimit {
        rlim_cur: 0,
        rlim_max: 0,
    };
    unsafe {
        libc::setrlimit(libc::RLIMIT_CORE, &r0);
    }
    let stack: usize = std::env::var("TV_WORKER_STACK")
        .ok()
        .and_then(|s| s.parse().ok())
        .unwrap_or(8 << 20);
    crate::fw::quiet_panics();
    let stdin = std::io::stdin();
    let stdout = std::io::stdout();
    for line in stdin.lock().lines() {
        let Ok(line) = line else { break };
        if line.trim().is_empty() {
            continue;
        }
        let case: Value = match serde_json::from_str(&line) {
            Ok(v) => v,
            Err(e) => {
                let mut o = stdout.lock();
                let _ = writeln!(o, "{}", serde_json::json!({"panic": format!("bad case json: {e}")}));
                let _ = o.flush();
                continue;
            }
        };
        let res = crate::fw::on_stack(stack, move || f(&case));
        let reply = match res {
            Ok(v) => serde_json::json!({ "ok": v }),
            Err(m) => serde_json::json!({ "panic": m }),
        };
        let mut o = stdout.lock();
        let _ = writeln!(o, "{}", serde_json::to_string(&reply).unwrap());
        let _ = o.flush();
    }
    std::process::exit(0)
}
