//! Developer tool: run an ST source for N cycles and print errors + dump. `strun file.st [cycles]`
use trust_runtime::harness::TestHarness;
fn main() {
    // STRUN_STACK=<bytes>: run on a thread with that stack size (to measure native stack use)
    if let Some(sz) = std::env::var("STRUN_STACK").ok().and_then(|s| s.parse::<usize>().ok()) {
        std::thread::Builder::new().stack_size(sz).spawn(real_main).unwrap().join().unwrap();
    } else {
        real_main();
    }
}
fn real_main() {
    let a: Vec<String> = std::env::args().collect();
    let src = std::fs::read_to_string(&a[1]).unwrap();
    let n: usize = a.get(2).and_then(|s| s.parse().ok()).unwrap_or(1);
    for chunk in src.split("\n----\n") {
        println!("=== {}", chunk.lines().filter(|l| !l.trim().is_empty()).collect::<Vec<_>>().join(" | "));
        let r = tv::fw::catch(|| {
            match TestHarness::from_source(chunk) {
                Err(e) => println!("COMPILE ERROR: {e}"),
                Ok(mut h) => {
                    for c in 0..n {
                        let r = tv::fw::catch(|| h.cycle());
                        match r {
                            Ok(r) => println!("cycle {c}: errors={:?} frames={}", r.errors, h.runtime().storage().frames().len()),
                            Err(m) => { println!("cycle {c}: PANIC {m}"); break; }
                        }
                    }
                    for (k, v) in tv::dump::dump_runtime(h.runtime()) {
                        if !k.starts_with('<') { println!("   {k} = {v}"); }
                    }
                }
            }
        });
        if let Err(m) = r { println!("PANIC {m}"); }
    }
}
