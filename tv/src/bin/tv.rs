use std::path::PathBuf;
use std::time::Instant;
use tv::fw::{finish, Ctx, Tier};

fn usage() -> ! {
    eprintln!("usage: tv <Cxx> quick|thorough | tv <Cxx> --replay <file> | tv --worker <name>");
    std::process::exit(2)
}

fn main() {
    let args: Vec<String> = std::env::args().skip(1).collect();
    if args.len() < 2 {
        usage();
    }
    if args[0] == "--worker" {
        for (name, f) in tv::engines::workers() {
            if name == args[1] {
                tv::iso::worker_main(f);
            }
        }
        eprintln!("unknown worker {}", args[1]);
        std::process::exit(2);
    }
    // safety net: an explorer that outgrows its memory budget ends as a machinery error (exit 2)
    // instead of being picked by the kernel's OOM killer (TV_RSS_CAP_MB, default 12 GiB)
    std::thread::spawn(|| {
        let cap_mb: u64 = std::env::var("TV_RSS_CAP_MB").ok().and_then(|s| s.parse().ok()).unwrap_or(12 * 1024);
        loop {
            std::thread::sleep(std::time::Duration::from_secs(2));
            let rss_pages: u64 = std::fs::read_to_string("/proc/self/statm")
                .ok()
                .and_then(|s| s.split_whitespace().nth(1).and_then(|x| x.parse().ok()))
                .unwrap_or(0);
            let rss_mb = rss_pages * 4096 / (1 << 20);
            if rss_mb > cap_mb {
                eprintln!("MACHINERY-ERROR: the explorer's resident memory ({rss_mb} MiB) exceeded the cap of {cap_mb} MiB; no verdict");
                std::process::exit(2);
            }
        }
    });
    let prop = args[0].clone();
    let Some(engine) = tv::engines::engines().into_iter().find(|e| e.prop == prop) else {
        eprintln!("no engine for {prop}");
        std::process::exit(2);
    };
    let verif_dir = PathBuf::from(std::env::var("TV_VERIF_DIR").unwrap_or_else(|_| "/verif".into()));
    let repo_dir = PathBuf::from(std::env::var("TV_REPO_DIR").unwrap_or_else(|_| "/repo".into()));
    if args[1] == "--replay" {
        let Some(path) = args.get(2) else { usage() };
        let text = std::fs::read_to_string(path).unwrap_or_else(|e| {
            eprintln!("cannot read {path}: {e}");
            std::process::exit(2)
        });
        let v: serde_json::Value = serde_json::from_str(&text).unwrap_or_else(|e| {
            eprintln!("bad replay file: {e}");
            std::process::exit(2)
        });
        tv::fw::quiet_panics();
        let found = (engine.replay)(&v["case"]);
        let found2 = (engine.replay)(&v["case"]);
        let sigs = |f: &Vec<tv::fw::Violation>| f.iter().map(|x| x.signature.clone()).collect::<Vec<_>>();
        if sigs(&found) != sigs(&found2) {
            eprintln!("replay diverged between two runs: {:?} vs {:?}", sigs(&found), sigs(&found2));
            std::process::exit(2);
        }
        if found.is_empty() {
            println!("NOT-REPRODUCED property={prop} replay={path}");
            std::process::exit(0);
        }
        for f in &found {
            eprintln!("  signature: {}\n  what: {}", f.signature, f.what);
        }
        println!("VIOLATION property={prop} replay={path}");
        std::process::exit(1);
    }
    let tier = match std::env::var("VERIF_TIER").ok().as_deref().unwrap_or(args[1].as_str()) {
        "quick" => Tier::Quick,
        "thorough" => Tier::Thorough,
        _ => match args[1].as_str() {
            "quick" => Tier::Quick,
            "thorough" => Tier::Thorough,
            _ => usage(),
        },
    };
    let seed = std::env::var("VERIF_SEED").ok().and_then(|s| s.parse().ok()).unwrap_or(0);
    let threads = std::env::var("TV_THREADS")
        .ok()
        .and_then(|s| s.parse().ok())
        .unwrap_or_else(|| std::thread::available_parallelism().map(|n| n.get()).unwrap_or(8));
    let ctx = Ctx { prop: prop.clone(), tier, seed, verif_dir, repo_dir, start: Instant::now(), threads };
    match (engine.run)(&ctx) {
        Ok(report) => match finish(&ctx, report) {
            Ok(code) => std::process::exit(code),
            Err(e) => {
                eprintln!("MACHINERY-ERROR property={prop}: {e}");
                std::process::exit(2);
            }
        },
        Err(e) => {
            eprintln!("MACHINERY-ERROR property={prop}: {e}");
            std::process::exit(2);
        }
    }
}
