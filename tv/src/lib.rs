//! tv — model-checking harness for trust-platform (see /verif/DESIGN.md).
pub mod corpus;
pub mod dump;
pub mod engines;
pub mod fw;
pub mod iso;
pub mod par;
pub mod sched;
pub mod stcore;
pub mod x3;
pub mod x2;
