//! The repository's own Structured Text files, used as a seed corpus by several engines.

use std::path::{Path, PathBuf};

fn walk(dir: &Path, out: &mut Vec<PathBuf>, ext: &str) {
    let Ok(rd) = std::fs::read_dir(dir) else { return };
    let mut entries: Vec<_> = rd.filter_map(Result::ok).map(|e| e.path()).collect();
    entries.sort();
    for p in entries {
        let name = p.file_name().and_then(|n| n.to_str()).unwrap_or("");
        if name == "target" || name == ".git" || name == "node_modules" {
            continue;
        }
        let Ok(md) = std::fs::symlink_metadata(&p) else { continue };
        if md.file_type().is_symlink() {
            continue;
        }
        if md.is_dir() {
            walk(&p, out, ext);
        } else if p.extension().and_then(|e| e.to_str()) == Some(ext) {
            out.push(p);
        }
    }
}

/// All `*.st` files of the repository (sorted by path, deterministic), as (relative path, text).
/// Files that are not valid UTF-8 are skipped.
pub fn st_files(repo: &Path) -> Vec<(String, String)> {
    let mut paths = Vec::new();
    walk(repo, &mut paths, "st");
    let mut out = Vec::new();
    for p in paths {
        if let Ok(text) = std::fs::read_to_string(&p) {
            let rel = p.strip_prefix(repo).unwrap_or(&p).display().to_string();
            out.push((rel, text));
        }
    }
    out
}
