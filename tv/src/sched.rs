//! X3 — controlled scheduler for real OS threads (implements `trust_runtime::verif_sync::Scheduler`).
//!
//! Baton passing: exactly one controlled thread runs between two scheduler calls; every other
//! controlled thread waits inside this module. At every scheduling point the scheduler takes a
//! decision among the enabled threads: it replays a given choice prefix, then always takes
//! choice 0 (= keep running the current thread if it is enabled and did not yield, else the
//! lowest id; if only yielders are enabled: least recently run first, which is fair).
//! Decisions with more than one candidate are recorded so that the explorer (`x3`) can enumerate
//! alternatives within a preemption bound.

use std::sync::{Arc, Condvar, Mutex};
use trust_runtime::verif_sync::{Res, Scheduler};

#[derive(Clone, Copy, Debug, PartialEq, Eq)]
enum ThSt {
    Run,
    Blocked(Res),
    Done,
}

#[derive(Clone, Debug)]
struct Th {
    st: ThSt,
    yielded: bool,
    last_run: u64,
    /// how many times this thread blocked on a condition variable
    cond_blocks: u64,
    /// scheduling points this thread has passed
    points: u64,
}

/// One recorded decision with more than one candidate.
#[derive(Clone, Copy, Debug, PartialEq, Eq)]
pub struct Choice {
    pub idx: usize,
    pub n: usize,
    /// choosing idx != 0 costs one deviation: the running thread was still enabled and had not
    /// yielded (a preemption), or only polling threads were enabled (departure from fair order)
    pub cur_enabled: bool,
}

#[derive(Clone, Debug, PartialEq, Eq)]
pub enum Abort {
    Deadlock(String),
    Horizon,
    Divergence(String),
}

struct State {
    th: Vec<Th>,
    current: Option<usize>,
    prefix: Vec<(usize, usize)>,
    choices: Vec<Choice>,
    steps: u64,
    horizon: u64,
    clock: u64,
    trace_hash: u64,
    trace: Option<Vec<(usize, &'static str)>>,
    /// threads blocked on a condition, in arrival order (for notify_one)
    abort: Option<Abort>,
    /// consecutive decisions in which only yielders were enabled
    spin_rounds: u64,
    max_spin_rounds: u64,
}

pub type AbortHandler = Box<dyn Fn(&Abort, &RunInfo) + Send + Sync>;

pub struct Sched {
    st: Mutex<State>,
    cv: Condvar,
    on_abort: Mutex<Option<AbortHandler>>,
}

/// What one execution recorded.
#[derive(Clone, Debug)]
pub struct RunInfo {
    pub choices: Vec<Choice>,
    pub steps: u64,
    pub trace_hash: u64,
    pub trace: Option<Vec<(usize, &'static str)>>,
    pub threads: usize,
    pub abort: Option<Abort>,
    /// states of the threads at the end ("run"/"blocked:.."/"done")
    pub thread_states: Vec<String>,
}

impl Sched {
    /// `prefix` = (choice index, number of candidates seen when the prefix was recorded).
    pub fn new(prefix: Vec<(usize, usize)>, horizon: u64, keep_trace: bool) -> Arc<Self> {
        Arc::new(Sched {
            st: Mutex::new(State {
                th: vec![Th {
                    st: ThSt::Run,
                    yielded: false,
                    last_run: 0,
                    cond_blocks: 0,
                    points: 0,
                }],
                current: Some(0),
                prefix,
                choices: Vec::new(),
                steps: 0,
                horizon,
                clock: 0,
                trace_hash: 0xcbf29ce484222325,
                trace: if keep_trace { Some(Vec::new()) } else { None },
                abort: None,
                spin_rounds: 0,
                max_spin_rounds: 2000,
            }),
            cv: Condvar::new(),
            on_abort: Mutex::new(None),
        })
    }

    pub fn set_abort_handler(&self, h: AbortHandler) {
        *self.on_abort.lock().unwrap() = Some(h);
    }

    /// Install as the process-wide scheduler and bind the calling thread as thread 0.
    pub fn install(self: &Arc<Self>) {
        trust_runtime::verif_sync::install(Some(self.clone() as Arc<dyn Scheduler>));
        trust_runtime::verif_sync::bind_current_thread(Some(0));
    }

    /// Called by thread 0 at the end of the scenario.
    pub fn uninstall(self: &Arc<Self>) -> RunInfo {
        trust_runtime::verif_sync::bind_current_thread(None);
        trust_runtime::verif_sync::install(None);
        let st = self.st.lock().unwrap();
        Self::info(&st)
    }

    /// Omniscient observers for scenario oracles (do not count as scheduling points).
    pub fn is_blocked_on_cond(&self, tid: usize) -> bool {
        let st = self.st.lock().unwrap();
        matches!(st.th.get(tid).map(|t| t.st), Some(ThSt::Blocked(Res::Cond(_))))
    }

    pub fn cond_blocks(&self, tid: usize) -> u64 {
        let st = self.st.lock().unwrap();
        st.th.get(tid).map(|t| t.cond_blocks).unwrap_or(0)
    }

    /// Scheduling points the thread has passed so far: unchanged between two observations = the
    /// thread did not execute any synchronisation operation in between.
    pub fn points_of(&self, tid: usize) -> u64 {
        let st = self.st.lock().unwrap();
        st.th.get(tid).map(|t| t.points).unwrap_or(0)
    }

    pub fn is_done(&self, tid: usize) -> bool {
        let st = self.st.lock().unwrap();
        matches!(st.th.get(tid).map(|t| t.st), Some(ThSt::Done))
    }

    fn info(st: &State) -> RunInfo {
        RunInfo {
            choices: st.choices.clone(),
            steps: st.steps,
            trace_hash: st.trace_hash,
            trace: st.trace.clone(),
            threads: st.th.len(),
            abort: st.abort.clone(),
            thread_states: st
                .th
                .iter()
                .map(|t| match t.st {
                    ThSt::Run => "run".to_string(),
                    ThSt::Done => "done".to_string(),
                    ThSt::Blocked(r) => format!("blocked:{}", res_kind(r)),
                })
                .collect(),
        }
    }

    fn abort(&self, mut st: std::sync::MutexGuard<'_, State>, a: Abort) -> ! {
        st.abort = Some(a.clone());
        let info = Self::info(&st);
        drop(st);
        if let Some(h) = self.on_abort.lock().unwrap().as_ref() {
            h(&a, &info);
        }
        // the handler normally exits the process; if it returns, there is nothing sane left to do
        eprintln!("tv sched: abort without handler: {a:?}");
        std::process::exit(3);
    }

    fn wait_turn<'a>(&'a self, me: usize) -> std::sync::MutexGuard<'a, State> {
        let mut st = self.st.lock().unwrap();
        while st.current != Some(me) {
            st = self.cv.wait(st).unwrap();
        }
        st
    }

    fn note(st: &mut State, me: usize, op: &'static str) {
        st.steps += 1;
        if let Some(t) = st.th.get_mut(me) {
            t.points += 1;
        }
        for b in op.bytes().chain([me as u8]) {
            st.trace_hash ^= b as u64;
            st.trace_hash = st.trace_hash.wrapping_mul(0x100000001b3);
        }
        if let Some(t) = st.trace.as_mut() {
            t.push((me, op));
        }
    }

    /// Decide who runs next. `me_running`: the caller could continue (it is not blocked/done).
    /// Returns the chosen thread or None if nobody is enabled.
    fn decide(&self, st: &mut State, me: usize) -> Result<Option<usize>, Abort> {
        let runnable: Vec<usize> = (0..st.th.len()).filter(|&i| st.th[i].st == ThSt::Run).collect();
        if runnable.is_empty() {
            return Ok(None);
        }
        let nonyield: Vec<usize> = runnable.iter().copied().filter(|&i| !st.th[i].yielded).collect();
        // a deviation from the default choice costs one unit of the explorer's bound when it
        // preempts a thread that could continue, or when it departs from the fair order among
        // threads that are all polling
        // or when the running thread is polling (yield points sit in loops, so free choices there
        // would make the number of zero-cost schedules grow with the loop count)
        let me_polling = st.th[me].st == ThSt::Run && st.th[me].yielded;
        let cur_enabled = nonyield.contains(&me) || nonyield.is_empty() || me_polling;
        let cands: Vec<usize> = if !nonyield.is_empty() {
            st.spin_rounds = 0;
            let mut c = Vec::with_capacity(nonyield.len());
            if nonyield.contains(&me) {
                c.push(me);
            }
            c.extend(nonyield.iter().copied().filter(|&i| i != me));
            c
        } else {
            st.spin_rounds += 1;
            if st.spin_rounds > st.max_spin_rounds {
                return Err(Abort::Deadlock(format!(
                    "livelock: only polling threads enabled for {} consecutive decisions",
                    st.spin_rounds
                )));
            }
            let mut c = runnable.clone();
            c.sort_by_key(|&i| (st.th[i].last_run, i));
            c
        };
        let n = cands.len();
        let idx = if n > 1 {
            let k = st.choices.len();
            let idx = if k < st.prefix.len() {
                let (idx, n_rec) = st.prefix[k];
                if n_rec != n || idx >= n {
                    return Err(Abort::Divergence(format!(
                        "replay divergence at decision {k}: recorded {n_rec} candidates / choice {idx}, now {n} candidates"
                    )));
                }
                idx
            } else {
                0
            };
            st.choices.push(Choice { idx, n, cur_enabled });
            idx
        } else {
            0
        };
        let chosen = cands[idx];
        for t in st.th.iter_mut() {
            t.yielded = false;
        }
        st.clock += 1;
        st.th[chosen].last_run = st.clock;
        Ok(Some(chosen))
    }

    fn switch_and_wait<'a>(
        &'a self,
        mut st: std::sync::MutexGuard<'a, State>,
        me: usize,
        chosen: usize,
    ) -> std::sync::MutexGuard<'a, State> {
        if chosen != me {
            st.current = Some(chosen);
            self.cv.notify_all();
            while st.current != Some(me) {
                st = self.cv.wait(st).unwrap();
            }
        }
        st
    }
}

fn res_kind(r: Res) -> &'static str {
    match r {
        Res::Mutex(_) => "mutex",
        Res::Cond(_) => "condvar",
        Res::Thread(_) => "join",
    }
}

impl Scheduler for Sched {
    fn spawned(&self, parent: usize) -> usize {
        let mut st = self.wait_turn(parent);
        st.th.push(Th {
            st: ThSt::Run,
            yielded: false,
            last_run: 0,
            cond_blocks: 0,
            points: 0,
        });
        st.th.len() - 1
    }

    fn thread_end(&self, me: usize) {
        let mut st = self.wait_turn(me);
        Self::note(&mut st, me, "thread.end");
        st.th[me].st = ThSt::Done;
        for t in st.th.iter_mut() {
            if t.st == ThSt::Blocked(Res::Thread(me)) {
                t.st = ThSt::Run;
            }
        }
        match self.decide(&mut st, me) {
            Ok(Some(next)) => {
                st.current = Some(next);
                self.cv.notify_all();
            }
            Ok(None) => {
                if st.th.iter().any(|t| t.st != ThSt::Done) {
                    let desc = describe_blocked(&st);
                    self.abort(st, Abort::Deadlock(desc));
                }
                st.current = None;
            }
            Err(a) => self.abort(st, a),
        }
    }

    fn point(&self, me: usize, op: &'static str, _res: Option<Res>) {
        let mut st = self.wait_turn(me);
        Self::note(&mut st, me, op);
        if st.steps > st.horizon {
            self.abort(st, Abort::Horizon);
        }
        match self.decide(&mut st, me) {
            Ok(Some(next)) => {
                let _st = self.switch_and_wait(st, me, next);
            }
            Ok(None) => unreachable!("caller is runnable"),
            Err(a) => self.abort(st, a),
        }
    }

    fn block(&self, me: usize, res: Res) {
        let mut st = self.wait_turn(me);
        Self::note(&mut st, me, "block");
        st.th[me].st = ThSt::Blocked(res);
        if matches!(res, Res::Cond(_)) {
            st.th[me].cond_blocks += 1;
        }
        match self.decide(&mut st, me) {
            Ok(Some(next)) => {
                let _st = self.switch_and_wait(st, me, next);
            }
            Ok(None) => {
                let desc = describe_blocked(&st);
                self.abort(st, Abort::Deadlock(desc));
            }
            Err(a) => self.abort(st, a),
        }
    }

    fn signal(&self, me: usize, res: Res, all: bool) {
        let mut st = self.wait_turn(me);
        for t in st.th.iter_mut() {
            if t.st == ThSt::Blocked(res) {
                t.st = ThSt::Run;
                if !all {
                    break;
                }
            }
        }
    }

    fn yield_hint(&self, me: usize) {
        let mut st = self.wait_turn(me);
        st.th[me].yielded = true;
    }

    fn finished(&self, tid: usize) -> bool {
        let st = self.st.lock().unwrap();
        st.th.get(tid).map(|t| t.st == ThSt::Done).unwrap_or(true)
    }
}

fn describe_blocked(st: &State) -> String {
    let parts: Vec<String> = st
        .th
        .iter()
        .enumerate()
        .map(|(i, t)| match t.st {
            ThSt::Run => format!("t{i}:run"),
            ThSt::Done => format!("t{i}:done"),
            ThSt::Blocked(r) => format!("t{i}:blocked-on-{}", res_kind(r)),
        })
        .collect();
    parts.join(",")
}
