//! Framework shared by all engines: context, report, violation signatures, known findings,
//! evidence files, exit-code policy.

use serde_json::{json, Map, Value};
use std::collections::BTreeMap;
use std::path::{Path, PathBuf};
use std::time::Instant;

#[derive(Clone, Copy, Debug, PartialEq, Eq)]
pub enum Tier {
    Quick,
    Thorough,
}

impl Tier {
    pub fn as_str(self) -> &'static str {
        match self {
            Tier::Quick => "quick",
            Tier::Thorough => "thorough",
        }
    }
    pub fn pick<T>(self, quick: T, thorough: T) -> T {
        match self {
            Tier::Quick => quick,
            Tier::Thorough => thorough,
        }
    }
}

pub struct Ctx {
    pub prop: String,
    pub tier: Tier,
    pub seed: u64,
    pub verif_dir: PathBuf,
    pub repo_dir: PathBuf,
    pub start: Instant,
    pub threads: usize,
}

impl Ctx {
    pub fn elapsed(&self) -> f64 {
        self.start.elapsed().as_secs_f64()
    }
    /// Scratch directory (created on demand), removed by `finish`.
    pub fn work_dir(&self) -> PathBuf {
        let dir = self
            .verif_dir
            .join(".work")
            .join(format!("{}-{}", self.prop, std::process::id()));
        std::fs::create_dir_all(&dir).expect("create work dir");
        dir
    }
}

#[derive(Clone, Debug)]
pub struct Violation {
    /// canonical cause signature, e.g. `C01/panic/F2:Neg:SINT:min`
    pub signature: String,
    /// human readable description
    pub what: String,
    /// self-contained replayable case
    pub case: Value,
}

pub struct Report {
    pub level: &'static str,
    pub coverage: Map<String, Value>,
    pub assumptions: Vec<String>,
    /// first violation per signature, in discovery order
    pub violations: Vec<Violation>,
    pub violation_counts: BTreeMap<String, u64>,
    pub samples: Vec<Value>,
    pub max_samples: usize,
    pub caps_hit: Vec<String>,
}

impl Report {
    pub fn new(level: &'static str) -> Self {
        Report {
            level,
            coverage: Map::new(),
            assumptions: Vec::new(),
            violations: Vec::new(),
            violation_counts: BTreeMap::new(),
            samples: Vec::new(),
            max_samples: 6,
            caps_hit: Vec::new(),
        }
    }
    pub fn set(&mut self, key: &str, v: impl Into<Value>) {
        self.coverage.insert(key.to_string(), v.into());
    }
    pub fn add(&mut self, key: &str, n: u64) {
        let cur = self.coverage.get(key).and_then(Value::as_u64).unwrap_or(0);
        self.coverage.insert(key.to_string(), json!(cur + n));
    }
    pub fn get(&self, key: &str) -> u64 {
        self.coverage.get(key).and_then(Value::as_u64).unwrap_or(0)
    }
    pub fn sample(&mut self, v: Value) {
        if self.samples.len() < self.max_samples {
            self.samples.push(v);
        }
    }
    pub fn assume(&mut self, s: &str) {
        self.assumptions.push(s.to_string());
    }
    pub fn cap(&mut self, s: impl Into<String>) {
        let s = s.into();
        if !self.caps_hit.contains(&s) {
            self.caps_hit.push(s);
        }
    }
    pub fn violation(&mut self, v: Violation) {
        let c = self.violation_counts.entry(v.signature.clone()).or_insert(0);
        *c += 1;
        if *c == 1 {
            self.violations.push(v);
        }
    }
    pub fn violations_from(&mut self, vs: Vec<Violation>) {
        for v in vs {
            self.violation(v);
        }
    }
}

#[derive(Debug)]
pub struct Machinery(pub String);

impl std::fmt::Display for Machinery {
    fn fmt(&self, f: &mut std::fmt::Formatter<'_>) -> std::fmt::Result {
        write!(f, "{}", self.0)
    }
}

pub type EngineResult = Result<Report, Machinery>;

pub fn machinery<T>(msg: impl Into<String>) -> Result<T, Machinery> {
    Err(Machinery(msg.into()))
}

#[derive(Debug, Clone)]
pub struct KnownFinding {
    pub property: String,
    pub signatures: Vec<String>,
    pub what: String,
}

pub fn load_known_findings(verif_dir: &Path) -> Result<Vec<KnownFinding>, Machinery> {
    let path = verif_dir.join("known_findings.json");
    let text = match std::fs::read_to_string(&path) {
        Ok(t) => t,
        Err(_) => return Ok(Vec::new()),
    };
    let v: Value = serde_json::from_str(&text)
        .map_err(|e| Machinery(format!("known_findings.json unreadable: {e}")))?;
    let mut out = Vec::new();
    for f in v["findings"].as_array().cloned().unwrap_or_default() {
        // entries with status "fixed" suppress nothing
        if f["status"].as_str() != Some("known") {
            continue;
        }
        let sigs = f["signatures"]
            .as_array()
            .map(|a| {
                a.iter()
                    .filter_map(|s| s.as_str().map(str::to_string))
                    .collect::<Vec<_>>()
            })
            .unwrap_or_default();
        out.push(KnownFinding {
            property: f["property"].as_str().unwrap_or("").to_string(),
            signatures: sigs,
            what: f["what"].as_str().unwrap_or("").to_string(),
        });
    }
    Ok(out)
}

fn sanitize(sig: &str) -> String {
    let mut s: String = sig
        .chars()
        .map(|c| {
            if c.is_ascii_alphanumeric() || c == '-' || c == '_' || c == '.' {
                c
            } else {
                '_'
            }
        })
        .collect();
    if s.len() > 120 {
        // keep it unique: prefix + fnv hash of the whole signature
        let mut h: u64 = 0xcbf29ce484222325;
        for b in sig.bytes() {
            h ^= b as u64;
            h = h.wrapping_mul(0x100000001b3);
        }
        s.truncate(100);
        s.push_str(&format!("_{h:016x}"));
    }
    s
}

/// Writes evidence + replay files, prints the KNOWN-FINDING / VIOLATION lines and returns the
/// process exit code (0 or 1).
pub fn finish(ctx: &Ctx, mut report: Report) -> Result<i32, Machinery> {
    let known = load_known_findings(&ctx.verif_dir)?;
    let mut new_violations = Vec::new();
    let mut known_seen: Vec<(String, String)> = Vec::new();
    for v in &report.violations {
        let k = known
            .iter()
            .find(|k| k.property == ctx.prop && k.signatures.iter().any(|s| s == &v.signature));
        match k {
            Some(k) => known_seen.push((v.signature.clone(), k.what.clone())),
            None => new_violations.push(v.clone()),
        }
    }
    for (sig, what) in &known_seen {
        println!("KNOWN-FINDING: property={} {} {}", ctx.prop, sig, what);
    }
    let replay_dir = ctx.verif_dir.join("replays").join(&ctx.prop);
    let mut code = 0;
    for v in &new_violations {
        std::fs::create_dir_all(&replay_dir)
            .map_err(|e| Machinery(format!("cannot create {replay_dir:?}: {e}")))?;
        let path = replay_dir.join(format!("{}.json", sanitize(&v.signature)));
        let body = json!({
            "property": ctx.prop,
            "signature": v.signature,
            "what": v.what,
            "case": v.case,
        });
        std::fs::write(&path, serde_json::to_string_pretty(&body).unwrap())
            .map_err(|e| Machinery(format!("cannot write {path:?}: {e}")))?;
        println!("VIOLATION property={} replay={}", ctx.prop, path.display());
        eprintln!("  signature: {}\n  what: {}", v.signature, v.what);
        code = 1;
    }

    // evidence
    let samples = std::mem::take(&mut report.samples);
    report.coverage.insert("samples".into(), Value::Array(samples));
    if !report.caps_hit.is_empty() {
        report
            .coverage
            .insert("caps_hit".into(), json!(report.caps_hit));
    }
    report.coverage.insert(
        "known_findings_seen".into(),
        json!(known_seen.iter().map(|k| k.0.clone()).collect::<Vec<_>>()),
    );
    report.coverage.insert(
        "violation_signatures".into(),
        json!(new_violations
            .iter()
            .map(|v| v.signature.clone())
            .collect::<Vec<_>>()),
    );
    let ev = json!({
        "property_id": ctx.prop,
        "tier": ctx.tier.as_str(),
        "seed": ctx.seed,
        "level": report.level,
        "coverage": Value::Object(report.coverage),
        "assumptions": report.assumptions,
        "wall_s": ctx.elapsed(),
        "violations": new_violations.len(),
    });
    let ev_dir = ctx.verif_dir.join("evidence");
    std::fs::create_dir_all(&ev_dir).map_err(|e| Machinery(format!("evidence dir: {e}")))?;
    let ev_path = ev_dir.join(format!("{}.json", ctx.prop));
    std::fs::write(&ev_path, serde_json::to_string_pretty(&ev).unwrap())
        .map_err(|e| Machinery(format!("cannot write {ev_path:?}: {e}")))?;
    let _ = std::fs::remove_dir_all(
        ctx.verif_dir
            .join(".work")
            .join(format!("{}-{}", ctx.prop, std::process::id())),
    );
    Ok(code)
}

/// Silence the default panic hook's stderr output while running subjects that may panic.
pub fn quiet_panics() {
    std::panic::set_hook(Box::new(|_| {}));
}

/// Run `f` catching panics; returns Err(message) on panic.
pub fn catch<T>(f: impl FnOnce() -> T) -> Result<T, String> {
    match std::panic::catch_unwind(std::panic::AssertUnwindSafe(f)) {
        Ok(v) => Ok(v),
        Err(e) => {
            let msg = if let Some(s) = e.downcast_ref::<&str>() {
                s.to_string()
            } else if let Some(s) = e.downcast_ref::<String>() {
                s.clone()
            } else {
                "panic".to_string()
            };
            Err(msg)
        }
    }
}

/// Run `f` on a thread with the given stack size, catching panics.
pub fn on_stack<T: Send>(stack: usize, f: impl FnOnce() -> T + Send) -> Result<T, String> {
    std::thread::scope(|s| {
        std::thread::Builder::new()
            .stack_size(stack)
            .spawn_scoped(s, move || catch(f))
            .expect("spawn")
            .join()
            .unwrap_or_else(|_| Err("thread died".into()))
    })
}
