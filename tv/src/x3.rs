//! X3 — stateless exploration of thread schedules of the real code, depth-first over recorded
//! decisions with an iterated preemption bound. Executions run in worker processes (one complete
//! execution per request); the explorer in the parent generates alternative choice prefixes.

use crate::fw::Violation;
use crate::iso::{self, Outcome, PoolCfg, Worker};
use crate::sched::{Abort, Sched};
use serde_json::{json, Value};
use std::collections::{BTreeMap, VecDeque};
use std::sync::{Condvar, Mutex};
use std::time::Instant;

/// Worker side: run `body` under a controlled scheduler replaying `case["prefix"]`.
/// Returns the execution record. On deadlock / horizon / divergence the record is sent by the
/// abort handler and the worker process exits.
pub fn run_controlled(case: &Value, horizon: u64, body: impl FnOnce(&std::sync::Arc<Sched>) -> Value) -> Value {
    let prefix: Vec<(usize, usize)> = case["prefix"]
        .as_array()
        .map(|a| {
            a.iter()
                .map(|p| (p[0].as_u64().unwrap_or(0) as usize, p[1].as_u64().unwrap_or(0) as usize))
                .collect()
        })
        .unwrap_or_default();
    let keep_trace = case["trace"].as_bool().unwrap_or(false);
    let sched = Sched::new(prefix, horizon, keep_trace);
    sched.set_abort_handler(Box::new(|a, info| {
        let (kind, detail) = match a {
            Abort::Deadlock(d) => ("deadlock", d.clone()),
            Abort::Horizon => ("horizon", String::new()),
            Abort::Divergence(d) => ("divergence", d.clone()),
        };
        let rec = json!({
            "choices": info.choices.iter().map(|c| json!([c.idx, c.n, c.cur_enabled])).collect::<Vec<_>>(),
            "steps": info.steps,
            "trace_hash": info.trace_hash,
            "threads": info.threads,
            "thread_states": info.thread_states,
            "abort": {"kind": kind, "detail": detail},
            "obs": Value::Null,
            "trace": info.trace.as_ref().map(|t| t.iter().map(|(i, op)| format!("t{i}:{op}")).collect::<Vec<_>>()),
        });
        iso::reply_and_exit(rec);
    }));
    sched.install();
    let obs = body(&sched);
    let info = sched.uninstall();
    json!({
        "choices": info.choices.iter().map(|c| json!([c.idx, c.n, c.cur_enabled])).collect::<Vec<_>>(),
        "steps": info.steps,
        "trace_hash": info.trace_hash,
        "threads": info.threads,
        "thread_states": info.thread_states,
        "abort": Value::Null,
        "obs": obs,
        "trace": info.trace.as_ref().map(|t| t.iter().map(|(i, op)| format!("t{i}:{op}")).collect::<Vec<_>>()),
    })
}

#[derive(Default, Debug)]
pub struct Stats {
    pub schedules: u64,
    pub per_bound: Vec<u64>,
    /// highest preemption bound whose schedules were all executed
    pub completed_bound: Option<usize>,
    pub capped: bool,
    pub max_decisions: usize,
    pub max_steps: u64,
    pub total_steps: u64,
    pub horizon_hits: u64,
    pub deadlocks: u64,
    /// executions that hit the per-execution wall timeout once and completed when run again
    pub retried_timeouts: u64,
    pub outcomes: BTreeMap<String, u64>,
    pub violations: Vec<Violation>,
    pub samples: Vec<Value>,
}

struct Item {
    prefix: Vec<(usize, usize)>,
}

struct Shared {
    /// queues per preemption cost
    queues: Vec<VecDeque<Item>>,
    level: usize,
    in_flight: usize,
    done: bool,
    stats: Stats,
    error: Option<String>,
}

/// Explore all schedules of `scenario` (a JSON object passed to the worker, which adds the
/// `prefix`) with at most `max_bound` preemptions. `judge(record)` returns the violations of one
/// complete execution (record["abort"] is null there); `outcome_key(record)` classifies final
/// outcomes for the vacuity statistics. Deadlocks are reported through `on_deadlock`.
#[allow(clippy::too_many_arguments)]
pub fn explore(
    cfg: &PoolCfg,
    scenario: &Value,
    max_bound: usize,
    deadline: Option<Instant>,
    judge: &(dyn Fn(&Value) -> Vec<Violation> + Sync),
    outcome_key: &(dyn Fn(&Value) -> String + Sync),
    on_abort: &(dyn Fn(&Value, &Value) -> Vec<Violation> + Sync),
) -> Result<Stats, String> {
    let shared = Mutex::new(Shared {
        queues: (0..=max_bound).map(|_| VecDeque::new()).collect(),
        level: 0,
        in_flight: 0,
        done: false,
        stats: Stats {
            per_bound: vec![0; max_bound + 1],
            ..Default::default()
        },
        error: None,
    });
    shared.lock().unwrap().queues[0].push_back(Item { prefix: Vec::new() });
    let cv = Condvar::new();

    std::thread::scope(|s| {
        for _ in 0..cfg.procs.max(1) {
            s.spawn(|| {
                let mut w = Worker::new(cfg);
                loop {
                    // claim an item of the current level
                    let item = {
                        let mut sh = shared.lock().unwrap();
                        loop {
                            if sh.done {
                                return;
                            }
                            if let Some(d) = deadline {
                                if Instant::now() >= d {
                                    sh.stats.capped = true;
                                    sh.done = true;
                                    cv.notify_all();
                                    return;
                                }
                            }
                            let lvl = sh.level;
                            if let Some(it) = sh.queues[lvl].pop_front() {
                                sh.in_flight += 1;
                                break it;
                            }
                            if sh.in_flight == 0 {
                                // level complete
                                sh.stats.completed_bound = Some(lvl);
                                if lvl == max_bound {
                                    sh.done = true;
                                    cv.notify_all();
                                    return;
                                }
                                sh.level += 1;
                                cv.notify_all();
                                continue;
                            }
                            sh = cv
                                .wait_timeout(sh, std::time::Duration::from_millis(200))
                                .unwrap()
                                .0;
                        }
                    };
                    let mut case = scenario.clone();
                    case["prefix"] = json!(item.prefix.iter().map(|(i, n)| json!([i, n])).collect::<Vec<_>>());
                    let mut out = w.call(&case);
                    // a wall-clock timeout of one execution can be the machine and not the subject
                    // (seen once with four heavy jobs on the same host; the prefix then replayed in
                    // under a second): an execution is determined by its prefix, so it is run once
                    // more on a fresh worker before the timeout counts as a machinery error
                    let mut retried = false;
                    if matches!(out, Ok(Outcome::Timeout)) {
                        retried = true;
                        eprintln!("[x3] execution timed out, running it once more (prefix {:?})", item.prefix);
                        out = w.call(&case);
                    }
                    let mut sh = shared.lock().unwrap();
                    sh.in_flight -= 1;
                    if retried {
                        sh.stats.retried_timeouts += 1;
                    }
                    match out {
                        Err(e) => {
                            sh.error = Some(e);
                            sh.done = true;
                        }
                        Ok(Outcome::Ok(rec)) => {
                            let lvl = sh.level;
                            sh.stats.schedules += 1;
                            sh.stats.per_bound[lvl] += 1;
                            let choices: Vec<(usize, usize, bool)> = rec["choices"]
                                .as_array()
                                .map(|a| {
                                    a.iter()
                                        .map(|c| {
                                            (
                                                c[0].as_u64().unwrap_or(0) as usize,
                                                c[1].as_u64().unwrap_or(0) as usize,
                                                c[2].as_bool().unwrap_or(false),
                                            )
                                        })
                                        .collect()
                                })
                                .unwrap_or_default();
                            let steps = rec["steps"].as_u64().unwrap_or(0);
                            sh.stats.max_decisions = sh.stats.max_decisions.max(choices.len());
                            sh.stats.max_steps = sh.stats.max_steps.max(steps);
                            sh.stats.total_steps += steps;
                            let mut replay_case = case.clone();
                            replay_case["prefix"] = json!(choices.iter().map(|c| json!([c.0, c.1])).collect::<Vec<_>>());
                            if rec["abort"].is_null() {
                                let key = outcome_key(&rec);
                                *sh.stats.outcomes.entry(key).or_insert(0) += 1;
                                let vs = judge(&rec);
                                for mut v in vs {
                                    v.case = json!({"scenario": replay_case, "expect": v.case});
                                    sh.stats.violations.push(v);
                                }
                                if sh.stats.samples.len() < 3 {
                                    sh.stats.samples.push(json!({"schedule": replay_case["prefix"], "obs": rec["obs"], "steps": steps}));
                                }
                            } else {
                                let kind = rec["abort"]["kind"].as_str().unwrap_or("");
                                match kind {
                                    "horizon" => sh.stats.horizon_hits += 1,
                                    "deadlock" => sh.stats.deadlocks += 1,
                                    _ => {
                                        sh.error = Some(format!(
                                            "replay divergence: {} (prefix {:?})",
                                            rec["abort"]["detail"], item.prefix
                                        ));
                                        sh.done = true;
                                    }
                                }
                                *sh.stats.outcomes.entry(format!("abort:{kind}")).or_insert(0) += 1;
                                for mut v in on_abort(&rec, &replay_case) {
                                    v.case = json!({"scenario": replay_case, "expect": v.case});
                                    sh.stats.violations.push(v);
                                }
                            }
                            // children: alternatives at every decision after the prefix
                            let mut pre = 0usize; // preemptions before decision i
                            for (i, &(idx, n, cur)) in choices.iter().enumerate() {
                                if i >= item.prefix.len() {
                                    let cost = pre + usize::from(cur);
                                    if cost <= max_bound {
                                        for alt in 1..n {
                                            let mut p: Vec<(usize, usize)> =
                                                choices[..i].iter().map(|c| (c.0, c.1)).collect();
                                            p.push((alt, n));
                                            sh.queues[cost].push_back(Item { prefix: p });
                                        }
                                    }
                                }
                                if idx != 0 && cur {
                                    pre += 1;
                                }
                            }
                        }
                        Ok(Outcome::Panic(m)) => {
                            sh.error = Some(format!("harness panicked outside the subject: {m}"));
                            sh.done = true;
                        }
                        Ok(Outcome::Died(m)) => {
                            sh.error = Some(format!("worker died: {m} (prefix {:?})", item.prefix));
                            sh.done = true;
                        }
                        Ok(Outcome::Timeout) => {
                            sh.error = Some(format!("execution timed out (prefix {:?})", item.prefix));
                            sh.done = true;
                        }
                    }
                    cv.notify_all();
                }
            });
        }
    });
    let sh = shared.into_inner().unwrap();
    if let Some(e) = sh.error {
        return Err(e);
    }
    let mut stats = sh.stats;
    if stats.capped {
        // the level in progress was not completed
        if let Some(b) = stats.completed_bound {
            if b == sh.level && sh.level > 0 {
                stats.completed_bound = Some(sh.level - 1);
            }
        }
    }
    Ok(stats)
}

/// Re-execute one recorded schedule (used for replay and for confirming violations).
pub fn exec_once(cfg: &PoolCfg, scenario_with_prefix: &Value) -> Result<Value, String> {
    let mut w = Worker::new(cfg);
    match w.call(scenario_with_prefix)? {
        Outcome::Ok(v) => Ok(v),
        Outcome::Panic(m) => Err(format!("harness panic: {m}")),
        Outcome::Died(m) => Err(format!("worker died: {m}")),
        Outcome::Timeout => Err("timeout".into()),
    }
}
