//! C19 — web IDE file API stays inside the project and never loses a concurrent edit.
//! Part 1 (confinement, X1) lives in `c19_confine.rs`; this file adds part 2 (concurrent
//! writers, X3): every interleaving of k editor sessions doing open → apply(expected version)
//! (with one retry after a conflict) on the same file of a real `WebIdeState`.

use super::c19_confine;
use super::c19_hist;
use crate::fw::*;
use crate::iso::{self, PoolCfg, WorkerFn};
use crate::x3;
use serde_json::{json, Value};
use std::sync::atomic::{AtomicU64, Ordering};
use std::time::{Duration, Instant};
use trust_runtime::verif_sync;
use trust_runtime::web::ide::{IdeRole, WebIdeState};

const HORIZON: u64 = 4000;
static COUNTER: AtomicU64 = AtomicU64::new(0);

pub fn worker_exec(case: &Value) -> Value {
    let writers = case["writers"].as_u64().unwrap_or(2) as usize;
    let retries = case["retries"].as_u64().unwrap_or(1) as usize;
    let work = case["work"].as_str().unwrap_or("/verif/.work").to_string();
    x3::run_controlled(case, HORIZON, move |_sched| scenario(&work, writers, retries))
}

fn scenario(work: &str, writers: usize, retries: usize) -> Value {
    let dir = std::path::PathBuf::from(work).join(format!(
        "w{}-{}",
        std::process::id(),
        COUNTER.fetch_add(1, Ordering::Relaxed)
    ));
    let _ = std::fs::remove_dir_all(&dir);
    std::fs::create_dir_all(&dir).expect("create scratch project");
    let file = dir.join("main.st");
    std::fs::write(&file, "v0").expect("write initial file");
    let ide = std::sync::Arc::new(WebIdeState::new(Some(dir.clone())));
    let tokens: Vec<String> = (0..writers)
        .map(|_| ide.create_session(IdeRole::Editor).expect("editor session").token)
        .collect();
    let mut handles = Vec::new();
    for (i, token) in tokens.into_iter().enumerate() {
        let ide = ide.clone();
        handles.push(verif_sync::thread::spawn(move || {
            // each attempt: open (see content + version), then write content derived from it
            let mut log = Vec::new();
            for attempt in 0..=retries {
                let snap = match ide.open_source(&token, "main.st") {
                    Ok(s) => s,
                    Err(e) => {
                        log.push(json!({"open_error": e.to_string()}));
                        break;
                    }
                };
                let new_content = format!("{}+w{}a{}", snap.content, i, attempt);
                match ide.apply_source(&token, "main.st", snap.version, new_content.clone(), true) {
                    Ok(r) => {
                        log.push(json!({"based_on": snap.content, "seen_version": snap.version, "wrote": new_content, "ok_version": r.version}));
                        break;
                    }
                    Err(e) => {
                        log.push(json!({"based_on": snap.content, "seen_version": snap.version, "wrote": new_content,
                                        "conflict": e.current_version(), "error": e.to_string()}));
                    }
                }
            }
            log
        }));
    }
    let logs: Vec<Value> = handles
        .into_iter()
        .map(|h| json!(h.join().expect("writer thread panicked")))
        .collect();
    let disk = std::fs::read_to_string(&file).unwrap_or_else(|e| format!("<unreadable: {e}>"));
    let _ = std::fs::remove_dir_all(&dir);
    json!({"logs": logs, "disk": disk})
}

fn judge(rec: &Value) -> Vec<Violation> {
    let obs = &rec["obs"];
    let mut out = Vec::new();
    let mut v = |clause: &str, what: String| {
        out.push(Violation {
            signature: format!("C19/{clause}/apply_source:concurrent-writers"),
            what,
            case: json!({"clause": clause}),
        });
    };
    // collect successful writes ordered by the version they produced (= lock order)
    let mut succ: Vec<(u64, String, String)> = Vec::new();
    let mut errors = Vec::new();
    for log in obs["logs"].as_array().cloned().unwrap_or_default() {
        for e in log.as_array().cloned().unwrap_or_default() {
            if let Some(ver) = e["ok_version"].as_u64() {
                succ.push((ver, e["based_on"].as_str().unwrap_or("").to_string(), e["wrote"].as_str().unwrap_or("").to_string()));
            } else if e.get("open_error").is_some() || (e.get("error").is_some() && e["conflict"].is_null()) {
                errors.push(e.clone());
            }
        }
    }
    if !errors.is_empty() {
        v("writer-error", format!("a writer failed with a non-conflict error: {}", errors[0]));
    }
    succ.sort();
    let mut prev = "v0".to_string();
    let mut last_version = 0u64;
    for (ver, based_on, wrote) in &succ {
        if *ver == last_version {
            v("version-chain", format!("two successful writes produced the same version {ver}"));
        }
        last_version = *ver;
        if *based_on != prev {
            v(
                "lost-update",
                format!("write producing version {ver} succeeded although it was based on {based_on:?} while the latest content was {prev:?} (silently overwrites a successful write)"),
            );
        }
        prev = wrote.clone();
    }
    let disk = obs["disk"].as_str().unwrap_or("");
    if disk != prev {
        v("disk-content", format!("file content {disk:?} differs from the content of the last successful write {prev:?}"));
    }
    out
}

fn pool(threads: usize, deadline: Option<Instant>) -> PoolCfg {
    PoolCfg {
        worker: "c19_exec",
        procs: threads,
        rlimit_as: 0,
        per_case: Duration::from_secs(60),
        deadline,
        env: vec![],
        stack: 8 << 20,
    }
}

pub fn run(ctx: &Ctx) -> EngineResult {
    quiet_panics();
    let mut rep = Report::new("exploration");
    // part 1: confinement
    c19_confine::run_part(ctx, &mut rep)?;
    // part 2: writers
    let work = ctx.work_dir();
    let scns: Vec<(usize, usize, usize)> = ctx.tier.pick(
        vec![(2, 1, 3), (3, 1, 2)],
        vec![(2, 1, 6), (3, 1, 3), (2, 2, 4), (3, 2, 2)],
    );
    let budget = ctx.tier.pick(18.0, 400.0) / scns.len() as f64;
    let mut schedules = 0u64;
    let mut outcomes = 0u64;
    let mut conflicts_seen = false;
    let mut writer_reports = Vec::new();
    for (writers, retries, bound) in scns {
        let deadline = Instant::now() + Duration::from_secs_f64(budget);
        let cfg = pool(ctx.threads, Some(deadline));
        let scenario = json!({"part": "writers", "writers": writers, "retries": retries, "work": work.display().to_string()});
        let stats = x3::explore(
            &cfg,
            &scenario,
            bound,
            Some(deadline),
            &judge,
            &|rec| {
                let o = &rec["obs"];
                let n_conf: usize = o["logs"]
                    .as_array()
                    .map(|a| a.iter().map(|l| l.as_array().map(|e| e.iter().filter(|x| x.get("error").is_some()).count()).unwrap_or(0)).sum())
                    .unwrap_or(0);
                format!("disk={} conflicts={}", o["disk"], n_conf)
            },
            &|rec, _| {
                if rec["abort"]["kind"] == "deadlock" {
                    vec![Violation {
                        signature: "C19/deadlock/apply_source:concurrent-writers".into(),
                        what: format!("writers dead-locked: {}", rec["abort"]["detail"]),
                        case: json!({"clause": "deadlock"}),
                    }]
                } else {
                    Vec::new()
                }
            },
        )
        .map_err(Machinery)?;
        let cfg1 = pool(1, None);
        for v in &stats.violations {
            let sc = &v.case["scenario"];
            let r1 = x3::exec_once(&cfg1, sc).map_err(Machinery)?;
            let r2 = x3::exec_once(&cfg1, sc).map_err(Machinery)?;
            if r1["trace_hash"] != r2["trace_hash"] || r1["obs"] != r2["obs"] {
                return machinery(format!("schedule replay is not deterministic for {}", v.signature));
            }
            rep.violation(v.clone());
        }
        if stats.outcomes.keys().any(|k| !k.ends_with("conflicts=0")) {
            conflicts_seen = true;
        }
        schedules += stats.schedules;
        outcomes += stats.outcomes.len() as u64;
        if stats.capped {
            rep.cap(format!("writers {writers}x(1+{retries}): wall cap; deviation bound completed {:?} of {bound}", stats.completed_bound));
            rep.set("exhaustive", false);
        }
        if let Some(s) = stats.samples.first() {
            rep.sample(json!({"part": "writers", "writers": writers, "execution": s}));
        }
        writer_reports.push(json!({
            "writers": writers, "retries": retries, "deviation_bound": bound, "completed_bound": stats.completed_bound,
            "schedules": stats.schedules, "schedules_per_bound": stats.per_bound, "distinct_outcomes": stats.outcomes.len(),
            "max_decisions_per_execution": stats.max_decisions, "deadlocks": stats.deadlocks, "horizon_hits": stats.horizon_hits, "executions_retried_after_wall_timeout": stats.retried_timeouts,
        }));
        eprintln!("[C19] writers {writers}: {} schedules {:?}, {} outcomes, {:.1}s", stats.schedules, stats.per_bound, stats.outcomes.len(), ctx.elapsed());
    }
    if schedules < 10 || outcomes < 2 || !conflicts_seen {
        return machinery(format!("vacuous writer exploration: {schedules} schedules, {outcomes} outcomes, conflicts seen: {conflicts_seen}"));
    }
    rep.set("writer_schedules", schedules);
    rep.set("writer_scenarios", writer_reports);
    // combined exploration-style counters
    let ev = rep.get("confine_evaluations") + schedules;
    let dn = rep.get("confine_distinct_nontrivial") + outcomes;
    rep.set("evaluations", ev);
    rep.set("distinct_nontrivial", dn);
    let confine_rule = rep.coverage.get("confine_rule").and_then(Value::as_str).unwrap_or("").to_string();
    rep.set(
        "rule",
        format!(
            "part 1 (confinement): {confine_rule} | part 2 (writers): every schedule (Mutex operations of the IDE state lock + the un-locked disk read and the locked disk write as scheduling points, deviation-bounded) of k editor sessions each doing open -> apply(expected = seen version) with retries on the same file; non-trivial = distinct (final file content, number of conflicts) outcomes"
        ),
    );
    // part 3: sequential multi-step histories (create/rename/move/delete between open and save)
    c19_hist::run_part(ctx, &mut rep)?;
    if !rep.coverage.contains_key("exhaustive") {
        rep.set("exhaustive", true);
    }
    rep.assume("writers: sequentially consistent interleavings at the hooked points; deviation-bounded; sessions created before the race");
    Ok(rep)
}

pub fn check_case(case: &Value) -> Vec<Violation> {
    if case["part"] == "confine" {
        return c19_confine::check_case(case);
    }
    if case["part"] == "hist" {
        return c19_hist::check_case(case);
    }
    let sc = &case["scenario"];
    let cfg = pool(1, None);
    let Ok(rec) = x3::exec_once(&cfg, sc) else { return Vec::new() };
    if rec["abort"].is_null() {
        judge(&rec)
    } else {
        Vec::new()
    }
}

pub fn workers() -> Vec<(&'static str, WorkerFn)> {
    let mut v = vec![("c19_exec", worker_exec as iso::WorkerFn)];
    v.extend(c19_confine::workers());
    v.extend(c19_hist::workers());
    v
}
