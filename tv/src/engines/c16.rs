//! C16 — rename preserves program meaning and is reversible (core X1: bounded-exhaustive
//! enumeration of generated projects x rename positions x new names, every case executed on the
//! real `trust_ide::rename::rename`, re-analysed with `trust_hir::Database` and executed with
//! `TestHarness::from_sources`).
//!
//! Oracle (per accepted rename; a refusal is always allowed):
//! * edits: known file, in bounds, pairwise disjoint, each exactly one identifier token of the real
//!   lexer whose text equals the name under the cursor (ASCII case-insensitively);
//! * diagnostics of the edited project = diagnostics of the original, positions mapped through the
//!   edits, messages compared with the old and the new name replaced by a placeholder;
//! * the edited project compiles, and the canonical dump after each of 3 cycles (one input trace)
//!   equals the original one modulo the two names (only if the original cycles do not fault);
//! * every occurrence spelt like the old or the new name that goto-definition resolved before
//!   resolves to the same (edit-adjusted) declaration afterwards. A goto-definition difference
//!   that neither the diagnostics nor the execution confirm is counted, not reported (it is the
//!   IDE's view only);
//! * renaming the same occurrence back to the old name restores every file byte for byte
//!   (case-insensitively if the renamed occurrences were spelt in different cases, which no rename
//!   can restore). Checked only if everything before held, so one defect is reported once.
//!
//! The renamed project is compiled and executed in a crash-isolated child (`iso`, worker
//! `c16_run`): a rename can make a method call itself, and the runtime's unbounded recursion then
//! overflows the stack.
//!
//! Strata: the slot skeleton (1-file, 2-file, twin-file layouts) and the inheritance skeleton
//! (`generate_inherit`); findings of the latter that do not depend on the new name and are not
//! already known from the slot skeleton carry the stratum in their signature
//! (`C16/inherit:<unqualified-base|qualified-base|using-base>/<clause>/..`).
//!
//! Left out of the alphabet on purpose:
//! * an inherited VAR_INPUT as named argument of a call of the derived instance (`d(inp1 := 1)`):
//!   rejected by the real type checker; `USING Lib;` + `EXTENDS Base` is generated but rejected by
//!   the real analyser (counted in `projects_rejected_by_compiler`);
//! * new names containing `.` — `rename` treats them as a *namespace move*, a different refactoring
//!   with a documented partial effect, not as "a valid new name" of the statement;
//! * functions declared inside a NAMESPACE — the runtime stores their result in a global named
//!   like the function (measured), so the original program is not a usable reference;
//! * enum types / typed-literal prefixes, properties, actions: not generated.
//! Keywords and invalid identifiers are in the alphabet with the same oracle: `rename` refuses, or
//! whatever it accepts must satisfy every clause ("valid new name" = a name the gate lets pass).

use crate::fw::*;
use crate::iso::{self, WorkerFn};
use crate::par::par_map;
use serde_json::{json, Value};
use std::collections::BTreeMap;
use std::time::{Duration, Instant};
use text_size::TextSize;
use trust_hir::db::{FileId, SemanticDatabase, SourceDatabase};
use trust_hir::symbols::{SymbolKind, VarQualifier};
use trust_hir::Database;
use trust_ide::goto_definition;
use trust_ide::rename::rename;
use trust_runtime::harness::TestHarness;
use trust_syntax::{lex, TokenKind};

// ------------------------------------------------------------------------------------------
// small helpers
// ------------------------------------------------------------------------------------------

fn clip(s: &str, n: usize) -> String {
    let mut out: String = s.chars().take(n).collect();
    if s.chars().count() > n {
        out.push('…');
    }
    out
}

fn norm_msg(m: &str) -> String {
    let s: String = m
        .chars()
        .map(|c| if c.is_ascii_digit() { '#' } else { c })
        .collect();
    clip(&s, 60)
}

fn is_word(b: u8) -> bool {
    b.is_ascii_alphanumeric() || b == b'_'
}

/// Replaces every maximal identifier-like word that equals `old` or `new` (ASCII
/// case-insensitively) by `§`: comparison "modulo the renaming" / "up to the name".
fn canon(s: &str, old: &str, new: &str) -> String {
    let b = s.as_bytes();
    let mut out = String::with_capacity(s.len());
    let mut i = 0;
    while i < b.len() {
        if is_word(b[i]) {
            let st = i;
            while i < b.len() && is_word(b[i]) {
                i += 1;
            }
            let w = &s[st..i];
            if w.eq_ignore_ascii_case(old) || (!new.is_empty() && w.eq_ignore_ascii_case(new)) {
                out.push('§');
            } else {
                out.push_str(w);
            }
        } else {
            // copy one (possibly multi-byte) character
            let ch = s[i..].chars().next().unwrap();
            out.push(ch);
            i += ch.len_utf8();
        }
    }
    out
}

/// Identifier tokens (start, end) of a text, as the real lexer sees them. The name part of a
/// typed-literal prefix (`E_State#`) is not generated by this engine and is ignored.
fn ident_tokens(text: &str) -> Vec<(u32, u32)> {
    lex(text)
        .into_iter()
        .filter(|t| t.kind == TokenKind::Ident)
        .map(|t| (u32::from(t.range.start()), u32::from(t.range.end())))
        .collect()
}

fn make_db(files: &[String]) -> Database {
    let mut db = Database::new();
    for (i, f) in files.iter().enumerate() {
        db.set_source_text(FileId(i as u32), f.clone());
    }
    db
}

// ------------------------------------------------------------------------------------------
// observations on one project
// ------------------------------------------------------------------------------------------

#[derive(Clone, Debug, PartialEq, Eq, PartialOrd, Ord)]
struct DiagRec {
    file: u32,
    code: String,
    severity: String,
    start: u32,
    end: u32,
    message: String,
    error: bool,
}

fn diagnostics_of(db: &Database, nfiles: usize) -> Result<Vec<DiagRec>, String> {
    catch(|| {
        let mut out = Vec::new();
        for f in 0..nfiles {
            for d in db.diagnostics(FileId(f as u32)).iter() {
                out.push(DiagRec {
                    file: f as u32,
                    code: format!("{:?}", d.code),
                    severity: format!("{:?}", d.severity),
                    start: u32::from(d.range.start()),
                    end: u32::from(d.range.end()),
                    message: d.message.clone(),
                    error: d.is_error(),
                });
            }
        }
        out
    })
}

/// The input trace driven into the (optional) input variable, one value before each cycle.
const INPUT_TRACE: [i16; 3] = [0, 7, -3];

/// Result of compiling and executing a project for 3 cycles: per cycle the canonical dump and the
/// cycle errors; `Err` = does not compile (or the runtime panicked).
type RunObs = Result<Vec<(BTreeMap<String, String>, Vec<String>)>, String>;

fn run_project(files: &[String], input_name: Option<&str>) -> RunObs {
    let r = catch(|| {
        let srcs: Vec<&str> = files.iter().map(String::as_str).collect();
        let mut h = match TestHarness::from_sources(&srcs) {
            Ok(h) => h,
            Err(e) => return Err(format!("compile: {e}")),
        };
        let mut out = Vec::new();
        for v in INPUT_TRACE {
            if let Some(n) = input_name {
                h.set_input(n, trust_runtime::value::Value::Int(v));
            }
            let c = h.cycle();
            let errs: Vec<String> = c.errors.iter().map(|e| format!("{e:?}")).collect();
            out.push((crate::dump::dump_runtime(h.runtime()), errs));
        }
        Ok(out)
    });
    match r {
        Ok(x) => x,
        Err(m) => Err(format!("panic: {m}")),
    }
}

/// Worker (child process): compiles and executes one project. A renamed project can recurse
/// without bound (a method renamed to the name of a method it calls) and overflow the stack, which
/// aborts the process, so renamed projects are never executed in the explorer process.
pub fn worker_run(case: &Value) -> Value {
    let files = case_files(case);
    match run_project(&files, case["input"].as_str()) {
        Ok(cycles) => json!({"ok": cycles.iter().map(|(d, e)| json!([d, e])).collect::<Vec<_>>()}),
        Err(m) => json!({"err": m}),
    }
}

fn runner_cfg() -> &'static iso::PoolCfg {
    static CFG: std::sync::OnceLock<iso::PoolCfg> = std::sync::OnceLock::new();
    CFG.get_or_init(|| iso::PoolCfg {
        worker: "c16_run",
        procs: 1,
        rlimit_as: 4 << 30,
        per_case: Duration::from_secs(30),
        deadline: None,
        env: vec![],
        stack: 8 << 20,
    })
}

thread_local! {
    static RUNNER: std::cell::RefCell<Option<iso::Worker<'static>>> = const { std::cell::RefCell::new(None) };
}

/// `run_project` in a crash-isolated child (one child per explorer thread).
fn run_project_isolated(files: &[String], input_name: Option<&str>) -> RunObs {
    let case = json!({"files": files, "input": input_name});
    let outcome = RUNNER.with(|r| {
        let mut r = r.borrow_mut();
        r.get_or_insert_with(|| iso::Worker::new(runner_cfg())).call(&case)
    });
    match outcome {
        Err(e) => Err(format!("machinery: {e}")),
        Ok(iso::Outcome::Ok(v)) => {
            if let Some(m) = v["err"].as_str() {
                return Err(m.to_string());
            }
            let mut out = Vec::new();
            for c in v["ok"].as_array().cloned().unwrap_or_default() {
                let d: BTreeMap<String, String> = c[0].as_object().map(|o| o.iter().map(|(k, v)| (k.clone(), v.as_str().unwrap_or("").to_string())).collect()).unwrap_or_default();
                let e: Vec<String> = c[1].as_array().map(|a| a.iter().map(|x| x.as_str().unwrap_or("").to_string()).collect()).unwrap_or_default();
                out.push((d, e));
            }
            Ok(out)
        }
        Ok(iso::Outcome::Panic(m)) => Err(format!("panic: {m}")),
        Ok(iso::Outcome::Died(m)) => Err(format!("abort: {}", m.lines().last().unwrap_or(""))),
        Ok(iso::Outcome::Timeout) => Err("hang: no answer within 30 s".to_string()),
    }
}

type Def = Option<(u32, u32, u32)>; // (file, start, end) of the definition

fn def_at(db: &Database, file: u32, off: u32) -> Result<Def, String> {
    catch(|| {
        goto_definition(db, FileId(file), TextSize::from(off))
            .map(|d| (d.file_id.0, u32::from(d.range.start()), u32::from(d.range.end())))
    })
}

/// goto-definition of every identifier token of every file.
fn binding_table(db: &Database, toks: &[Vec<(u32, u32)>]) -> Result<Vec<Vec<Def>>, String> {
    let mut out = Vec::new();
    for (f, ts) in toks.iter().enumerate() {
        let mut v = Vec::with_capacity(ts.len());
        for &(s, _) in ts {
            v.push(def_at(db, f as u32, s)?);
        }
        out.push(v);
    }
    Ok(out)
}

/// Coarse kind of the declaration at `def` (from the real symbol table), for signatures.
fn kind_group(db: &Database, def: Def) -> String {
    let Some((file, start, end)) = def else {
        return "unresolved".into();
    };
    let r = catch(|| {
        let symbols = db.file_symbols(FileId(file));
        let sym = symbols
            .iter()
            .find(|s| u32::from(s.range.start()) == start && u32::from(s.range.end()) == end)?;
        let parent_is_type = sym
            .parent
            .and_then(|p| symbols.get(p))
            .is_some_and(|p| matches!(p.kind, SymbolKind::Type));
        Some(
            match &sym.kind {
                SymbolKind::Program => "program",
                SymbolKind::Function { .. } => "function",
                SymbolKind::FunctionBlock | SymbolKind::Class | SymbolKind::Interface => "fb",
                SymbolKind::Method { .. } | SymbolKind::Property { .. } => "method",
                SymbolKind::Namespace => "namespace",
                SymbolKind::Type => "type",
                SymbolKind::EnumValue { .. } => "enumvalue",
                SymbolKind::Parameter { .. } => "param",
                SymbolKind::Constant => "var",
                SymbolKind::Variable { qualifier } => {
                    if parent_is_type {
                        "field"
                    } else {
                        match qualifier {
                            VarQualifier::Global => "global",
                            VarQualifier::External => "external",
                            VarQualifier::Input | VarQualifier::Output | VarQualifier::InOut => "param",
                            _ => "var",
                        }
                    }
                }
                _ => "other",
            }
            .to_string(),
        )
    });
    match r {
        Ok(Some(k)) => k,
        _ => "field-or-unknown".into(),
    }
}

/// Everything observed on the original project (computed once per project).
pub struct Base {
    files: Vec<String>,
    toks: Vec<Vec<(u32, u32)>>,
    diags: Vec<DiagRec>,
    run: RunObs,
    defs: Vec<Vec<Def>>,
    input: Option<(u32, u32)>,
}

fn token_text(files: &[String], file: u32, tok: (u32, u32)) -> &str {
    &files[file as usize][tok.0 as usize..tok.1 as usize]
}

impl Base {
    pub fn new(files: Vec<String>, input: Option<(u32, u32)>) -> Result<Base, String> {
        let db = make_db(&files);
        let toks: Vec<Vec<(u32, u32)>> = files.iter().map(|f| ident_tokens(f)).collect();
        let diags = diagnostics_of(&db, files.len())?;
        let input_name = input.and_then(|(f, o)| {
            toks[f as usize]
                .iter()
                .find(|t| t.0 == o)
                .map(|t| token_text(&files, f, *t).to_string())
        });
        // an input position that is no identifier token = the project has no input variable
        let input = input.filter(|_| input_name.is_some());
        let run = run_project(&files, input_name.as_deref());
        let defs = binding_table(&db, &toks)?;
        Ok(Base { files, toks, diags, run, defs, input })
    }
    /// Names that are declared more than once in the project (case-insensitively), as the coarse
    /// kinds of their declarations, e.g. `pou+pou` or `global+var`; "" if every name is unique.
    /// A declaration token is one whose goto-definition is itself.
    pub fn homonyms(&self) -> String {
        let db = make_db(&self.files);
        let mut groups: BTreeMap<String, Vec<String>> = BTreeMap::new();
        for (f, ts) in self.toks.iter().enumerate() {
            for (i, t) in ts.iter().enumerate() {
                if self.defs[f][i] == Some((f as u32, t.0, t.1)) {
                    let k = match kind_group(&db, self.defs[f][i]).as_str() {
                        "function" | "fb" | "method" | "program" => "pou".to_string(),
                        "field-or-unknown" => "field".to_string(),
                        k => k.to_string(),
                    };
                    groups.entry(token_text(&self.files, f as u32, *t).to_ascii_lowercase()).or_default().push(k);
                }
            }
        }
        let mut out: Vec<String> = groups
            .into_values()
            .filter(|v| v.len() > 1)
            .map(|mut v| {
                v.sort();
                v.join("+")
            })
            .collect();
        out.sort();
        out.join(";")
    }
    /// error-free = no error diagnostic and compiles
    pub fn error_free(&self) -> bool {
        self.run.is_ok() && !self.diags.iter().any(|d| d.error)
    }
}

// ------------------------------------------------------------------------------------------
// the oracle for one case
// ------------------------------------------------------------------------------------------

/// Position mapping through a set of non-overlapping edits of one file.
struct PosMap {
    /// (start, end, new_len) sorted by start
    edits: Vec<(u32, u32, u32)>,
}

impl PosMap {
    fn map(&self, p: u32) -> u32 {
        let mut delta: i64 = 0;
        for &(s, e, n) in &self.edits {
            if e <= p && !(s == e && s == p) {
                delta += n as i64 - (e - s) as i64;
            } else if s < p && p < e {
                return (s as i64 + delta) as u32;
            }
        }
        (p as i64 + delta) as u32
    }
    /// image of a token / range
    fn map_range(&self, s: u32, e: u32) -> (u32, u32) {
        if let Some(&(_, _, n)) = self.edits.iter().find(|x| x.0 == s && x.1 == e) {
            let ns = self.map(s);
            return (ns, ns + n);
        }
        (self.map(s), self.map(e))
    }
}

/// One oracle failure. `key` is the cause without the new-name class; the signature is
/// `C16/<key>` if the same key also fails with a fresh new name at the same occurrence (the cause
/// does not depend on what the new name collides with), else `C16/<key>/<class>`.
pub struct Finding {
    pub key: String,
    pub what: String,
}

pub struct CaseOut {
    pub findings: Vec<Finding>,
    pub accepted: bool,
    pub edits: usize,
    pub kind: String,
    pub files_touched: usize,
    /// goto-definition changed for some occurrence although diagnostics and behaviour are equal
    pub binding_only: Option<String>,
    /// the edit set contains the same byte range in two different files
    pub same_range_in_two_files: bool,
}

fn first_diff_dump(a: &[(String, String)], b: &[(String, String)]) -> String {
    for x in a {
        if !b.contains(x) {
            let other = b.iter().find(|y| y.0 == x.0);
            return format!("{} = {} before, {} after", x.0, x.1, other.map(|o| o.1.as_str()).unwrap_or("<absent>"));
        }
    }
    for y in b {
        if !a.contains(y) {
            return format!("{} = <absent> before, {} after", y.0, y.1);
        }
    }
    "multiset difference".into()
}

/// Syntactic context of the identifier token at `off` in the real parse tree: kinds of its two
/// nearest ancestor nodes (used to tell *which kind of occurrence* a rename missed).
fn syntactic_context(text: &str, off: u32) -> String {
    catch(|| {
        let parsed = trust_syntax::parser::parse(text);
        let root = parsed.syntax();
        let tok = root.token_at_offset(TextSize::from(off)).right_biased()?;
        let p = tok.parent()?;
        // skip the Name/NameRef wrapper
        let mut kinds = Vec::new();
        for n in p.ancestors() {
            let k = format!("{:?}", n.kind());
            if k == "Name" || k == "NameRef" {
                continue;
            }
            kinds.push(k);
            if kinds.len() == 2 {
                break;
            }
        }
        Some(kinds.join("<"))
    })
    .ok()
    .flatten()
    .unwrap_or_else(|| "?".into())
}

/// Checks one (project, position, new name) against every clause of the statement.
pub fn check_rename(base: &Base, db: &Database, file: u32, off: u32, new_name: &str) -> CaseOut {
    let mut out = CaseOut { findings: Vec::new(), accepted: false, edits: 0, kind: String::new(), files_touched: 0, binding_only: None, same_range_in_two_files: false };
    let files = &base.files;
    let nfiles = files.len();
    let Some(tix) = base.toks[file as usize].iter().position(|t| t.0 <= off && off < t.1) else {
        return out;
    };
    let tok = base.toks[file as usize][tix];
    let old_name = token_text(files, file, tok).to_string();
    let target_def = base.defs[file as usize][tix];
    let kind = kind_group(db, target_def);
    out.kind = kind.clone();
    let cn = |m: &str| norm_msg(&canon(m, &old_name, new_name));

    let res = match catch(|| rename(db, FileId(file), TextSize::from(off), new_name)) {
        Ok(r) => r,
        Err(m) => {
            out.findings.push(Finding { key: format!("panic/rename/{}", cn(&m)), what: format!("rename({old_name:?} -> {new_name:?}) panicked: {m}") });
            return out;
        }
    };
    let Some(res) = res else {
        return out; // refusal is always allowed
    };
    out.accepted = true;

    // ---- clause "edits": in-bounds, non-overlapping, each exactly one identifier token == old name
    let mut per_file: Vec<Vec<(u32, u32, String)>> = vec![Vec::new(); nfiles];
    let mut malformed: Option<(String, String)> = None;
    let mut fids: Vec<&FileId> = res.edits.keys().collect();
    fids.sort_by_key(|f| f.0);
    for fid in fids {
        let edits = &res.edits[fid];
        if fid.0 as usize >= nfiles {
            malformed.get_or_insert(("unknown-file".into(), format!("edit for unknown file id {}", fid.0)));
            continue;
        }
        let text = &files[fid.0 as usize];
        for e in edits {
            let (s, en) = (u32::from(e.range.start()), u32::from(e.range.end()));
            out.edits += 1;
            if s > en || en as usize > text.len() {
                malformed.get_or_insert(("out-of-bounds".into(), format!("edit {s}..{en} outside file {} of length {}", fid.0, text.len())));
                continue;
            }
            if !base.toks[fid.0 as usize].contains(&(s, en)) {
                let ctx = if text.is_char_boundary(s as usize) && text.is_char_boundary(en as usize) { clip(&text[s as usize..en as usize], 30) } else { "<splits a character>".into() };
                malformed.get_or_insert(("not-one-identifier".into(), format!("edit {s}..{en} in file {} covers {ctx:?}, which is not exactly one identifier token", fid.0)));
                continue;
            }
            let t = &text[s as usize..en as usize];
            if !t.eq_ignore_ascii_case(&old_name) {
                malformed.get_or_insert(("other-name".into(), format!("edit {s}..{en} in file {} replaces {t:?}, which is not an occurrence of the name {old_name:?} under the cursor", fid.0)));
            }
            per_file[fid.0 as usize].push((s, en, e.new_text.clone()));
        }
    }
    let mut dup = false;
    let mut overlap = false;
    for v in per_file.iter_mut() {
        v.sort();
        let before = v.len();
        v.dedup();
        if v.len() != before {
            dup = true;
        }
        for w in v.windows(2) {
            if w[1].0 < w[0].1 || w[1].0 == w[0].0 {
                overlap = true;
            }
        }
    }
    if overlap {
        malformed.get_or_insert(("overlap".into(), "two edits overlap".into()));
    } else if dup {
        malformed.get_or_insert(("duplicate".into(), "the same range is edited twice (overlapping edits)".into()));
    }
    if let Some((sub, detail)) = &malformed {
        out.findings.push(Finding { key: format!("edits/{sub}"), what: format!("rename of {kind} {old_name:?} -> {new_name:?}: {detail}") });
        if sub != "duplicate" {
            // cannot be applied meaningfully / "modulo the renaming" is undefined when another
            // name than the one under the cursor was replaced
            return out;
        }
    }
    if out.edits == 0 {
        // accepted with no edit at all: nothing changes; allowed (trivially preserves everything)
        return out;
    }
    out.files_touched = per_file.iter().filter(|v| !v.is_empty()).count();
    out.same_range_in_two_files = (0..nfiles).any(|f| per_file[f].iter().any(|e| (f + 1..nfiles).any(|g| per_file[g].iter().any(|x| x.0 == e.0 && x.1 == e.1))));

    // ---- apply
    let maps: Vec<PosMap> = per_file
        .iter()
        .map(|v| PosMap { edits: v.iter().map(|e| (e.0, e.1, e.2.len() as u32)).collect() })
        .collect();
    let mut new_files = Vec::with_capacity(nfiles);
    for (f, text) in files.iter().enumerate() {
        let mut t = String::with_capacity(text.len() + 16);
        let mut pos = 0usize;
        for (s, e, n) in &per_file[f] {
            t.push_str(&text[pos..*s as usize]);
            t.push_str(n);
            pos = *e as usize;
        }
        t.push_str(&text[pos..]);
        new_files.push(t);
    }
    let db2 = make_db(&new_files);
    let edited = |f: u32, t: (u32, u32)| per_file[f as usize].iter().any(|e| e.0 == t.0 && e.1 == t.1);
    let mut semantic: Option<Finding> = None;

    // ---- clause "binding": every identifier occurrence resolves to the declaration at the same
    // (edit-adjusted) position as before. Only occurrences spelt like the old or the new name can
    // change their own resolution; occurrences the IDE could not resolve before are not observable.
    let toks2: Vec<Vec<(u32, u32)>> = new_files.iter().map(|f| ident_tokens(f)).collect();
    let same_shape = (0..nfiles).all(|f| {
        toks2[f].len() == base.toks[f].len()
            && base.toks[f].iter().zip(&toks2[f]).all(|(a, b)| maps[f].map_range(a.0, a.1) == *b)
    });
    // (priority, mechanism, signature detail, text)
    let mut binding: Option<(u8, &'static str, String, String)> = None;
    if same_shape {
        'outer: for f in 0..nfiles {
            for (i, t) in base.toks[f].iter().enumerate() {
                let txt = token_text(files, f as u32, *t);
                if !(txt.eq_ignore_ascii_case(&old_name) || txt.eq_ignore_ascii_case(new_name)) {
                    continue;
                }
                let Some(before) = base.defs[f][i] else { continue };
                let expect = {
                    let (ns, ne) = maps[before.0 as usize].map_range(before.1, before.2);
                    Some((before.0, ns, ne))
                };
                let after = match def_at(&db2, f as u32, toks2[f][i].0) {
                    Ok(a) => a,
                    Err(m) => {
                        semantic = Some(Finding { key: format!("panic/goto-definition/{}", cn(&m)), what: format!("goto_definition panicked after rename: {m}") });
                        break 'outer;
                    }
                };
                if expect == after {
                    continue;
                }
                let in_r = Some(before) == target_def;
                let ed = edited(f as u32, *t);
                let spelt_old = txt.eq_ignore_ascii_case(&old_name);
                let (prio, mech) = match (ed, in_r, spelt_old) {
                    // an occurrence of the old name that stays behind and loses its declaration
                    (false, _, true) => (0, "missed-occurrence"),
                    (true, false, _) => (1, "foreign-occurrence-edited"),
                    (true, true, _) => (2, "renamed-occurrence-rebinds"),
                    (false, _, false) => (3, "other-occurrence-rebinds"),
                };
                if binding.as_ref().is_none_or(|b| prio < b.0) {
                    let show = |d: Def, fs: &[String]| match d {
                        Some((df, s, e)) => format!("{:?} at file {df} byte {s}", fs[df as usize].get(s as usize..e as usize).unwrap_or("?")),
                        None => "nothing".into(),
                    };
                    let detail = if prio <= 1 { syntactic_context(&files[f], t.0) } else { String::new() };
                    binding = Some((prio, mech, detail, format!("occurrence {txt:?} at file {f} byte {} resolved to {} before and to {} after", t.0, show(Some(before), files), show(after, &new_files))));
                }
            }
        }
    }

    // ---- clause "diagnostics": same diagnostics up to the name
    let mut diag_note: Option<(String, String)> = None;
    match diagnostics_of(&db2, nfiles) {
        Err(m) => {
            semantic.get_or_insert(Finding { key: format!("panic/diagnostics/{}", cn(&m)), what: format!("diagnostics panicked after rename: {m}") });
        }
        Ok(d2) => {
            let mut a: Vec<DiagRec> = base
                .diags
                .iter()
                .map(|d| {
                    let (s, e) = maps[d.file as usize].map_range(d.start, d.end);
                    DiagRec { start: s, end: e, message: canon(&d.message, &old_name, new_name), ..d.clone() }
                })
                .collect();
            let mut b: Vec<DiagRec> = d2.iter().map(|d| DiagRec { message: canon(&d.message, &old_name, new_name), ..d.clone() }).collect();
            a.sort();
            b.sort();
            if a != b {
                let added = b.iter().find(|x| !a.contains(x));
                let removed = a.iter().find(|x| !b.contains(x));
                let pick = added.or(removed).unwrap();
                let orig = d2.iter().find(|x| x.file == pick.file && x.start == pick.start && x.code == pick.code);
                diag_note = Some((
                    format!("{}{}", if added.is_some() { "+" } else { "-" }, pick.code),
                    format!(
                        "{} diagnostic {} {:?} at file {} byte {}",
                        if added.is_some() { "new" } else { "lost" },
                        pick.code,
                        orig.map(|o| o.message.as_str()).unwrap_or(pick.message.as_str()),
                        pick.file,
                        pick.start
                    ),
                ));
            }
        }
    }

    // ---- clause "behaviour": same dumps after each of 3 cycles modulo the renaming
    let mut beh_note: Option<(String, String)> = None;
    // (a project whose own cycles fault — the runtime resolves mixed-case spellings case-sensitively —
    // has no observable behaviour to preserve; it must still compile after the rename)
    if let Ok(run1) = &base.run {
        let observable = run1.iter().all(|c| c.1.is_empty());
        let input_name2 = base.input.map(|(f, o)| {
            let t = base.toks[f as usize].iter().find(|t| t.0 == o).copied().unwrap_or((o, o));
            let (s, e) = maps[f as usize].map_range(t.0, t.1);
            new_files[f as usize].get(s as usize..e as usize).unwrap_or("").to_string()
        });
        match run_project_isolated(&new_files, input_name2.as_deref()) {
            Err(m) if m.starts_with("machinery:") => {
                out.findings.push(Finding { key: "machinery/worker".into(), what: m });
                return out;
            }
            Err(m) if m.starts_with("abort:") || m.starts_with("hang:") => {
                let k = if m.starts_with("abort:") { "abort" } else { "hang" };
                beh_note = Some((k.into(), format!("executing the renamed project kills the process / does not return ({})", clip(&m, 160))));
            }
            Err(m) => {
                let first = m.lines().next().unwrap_or("");
                beh_note = Some(("compile".into(), format!("the renamed project no longer compiles: {first}")));
            }
            Ok(_) if !observable => {}
            Ok(run2) => {
                for (c, (r1, r2)) in run1.iter().zip(run2.iter()).enumerate() {
                    let cz = |d: &BTreeMap<String, String>| {
                        let mut v: Vec<(String, String)> = d.iter().map(|(k, v)| (canon(k, &old_name, new_name), canon(v, &old_name, new_name))).collect();
                        v.sort();
                        v
                    };
                    let (d1, d2) = (cz(&r1.0), cz(&r2.0));
                    let e1: Vec<String> = r1.1.iter().map(|e| canon(e, &old_name, new_name)).collect();
                    let e2: Vec<String> = r2.1.iter().map(|e| canon(e, &old_name, new_name)).collect();
                    if e1 != e2 {
                        beh_note = Some(("cycle-error".into(), format!("cycle {} errors differ: {:?} before, {:?} after", c + 1, r1.1, r2.1)));
                        break;
                    }
                    if d1 != d2 {
                        beh_note = Some(("state".into(), format!("state after cycle {} differs: {}", c + 1, first_diff_dump(&d1, &d2))));
                        break;
                    }
                }
            }
        }
    }

    // ---- one primary semantic finding per case (root cause first)
    if semantic.is_none() {
        let confirm = match (&diag_note, &beh_note) {
            (_, Some((k, d))) => Some(format!("{k}: {d}")),
            (Some((k, d)), None) => Some(format!("{k}: {d}")),
            _ => None,
        };
        match (&binding, confirm) {
            (Some((_, mech, detail, text)), Some(c)) => {
                let key = if detail.is_empty() {
                    format!("capture/{mech}{}", if kind == "field" { "/field" } else { "" })
                } else {
                    format!("capture/{mech}/{detail}")
                };
                semantic = Some(Finding {
                    key,
                    what: format!("rename of {kind} {old_name:?} -> {new_name:?} was accepted but changes the binding structure: {text}; consequence: {c}"),
                });
            }
            (Some((_, mech, _, text)), None) => {
                out.binding_only = Some(format!("{mech}: rename of {kind} {old_name:?} -> {new_name:?}: {text}"));
            }
            (None, Some(_)) => {
                if let Some((k, d)) = &beh_note {
                    let code = diag_note.as_ref().map(|x| format!(":{}", x.0)).unwrap_or_default();
                    semantic = Some(Finding {
                        key: format!("behaviour/{k}{code}/{kind}"),
                        what: format!("rename of {kind} {old_name:?} -> {new_name:?} was accepted; {d}{}", diag_note.as_ref().map(|x| format!("; {}", x.1)).unwrap_or_default()),
                    });
                } else if let Some((k, d)) = &diag_note {
                    semantic = Some(Finding { key: format!("diagnostics/{k}/{kind}"), what: format!("rename of {kind} {old_name:?} -> {new_name:?} was accepted; {d}") });
                }
            }
            (None, None) => {}
        }
    }
    let clean = semantic.is_none() && malformed.is_none();
    if let Some(s) = semantic {
        out.findings.push(s);
    }

    // ---- clause "reversible": renaming back at the adjusted position restores the text
    if clean {
        let (ns, _) = maps[file as usize].map_range(tok.0, tok.1);
        let noff = ns + (off - tok.0).min(new_name.len().saturating_sub(1) as u32);
        match catch(|| rename(&db2, FileId(file), TextSize::from(noff), &old_name)) {
            Err(m) => out.findings.push(Finding { key: format!("panic/rename-back/{}", cn(&m)), what: format!("renaming {new_name:?} back to {old_name:?} panicked: {m}") }),
            Ok(None) => out.findings.push(Finding {
                key: format!("back/refused/{kind}"),
                what: format!("after renaming {kind} {old_name:?} -> {new_name:?}, renaming back to {old_name:?} at the same occurrence is refused"),
            }),
            Ok(Some(back)) => {
                let mut restored = Vec::new();
                let mut bad = false;
                for (f, text) in new_files.iter().enumerate() {
                    let mut es: Vec<(u32, u32, String)> = back
                        .edits
                        .get(&FileId(f as u32))
                        .map(|v| v.iter().map(|e| (u32::from(e.range.start()), u32::from(e.range.end()), e.new_text.clone())).collect())
                        .unwrap_or_default();
                    es.sort();
                    es.dedup();
                    let mut t = String::new();
                    let mut pos = 0usize;
                    for (s, e, n) in &es {
                        let (s, e) = (*s as usize, *e as usize);
                        if s < pos || e < s || e > text.len() || !text.is_char_boundary(s) || !text.is_char_boundary(e) {
                            bad = true;
                            break;
                        }
                        t.push_str(&text[pos..s]);
                        t.push_str(n);
                        pos = e;
                    }
                    if bad {
                        break;
                    }
                    t.push_str(&text[pos..]);
                    restored.push(t);
                }
                // occurrences spelt in different cases cannot be restored byte for byte by any
                // rename; then the comparison is ASCII case-insensitive
                let spellings: std::collections::BTreeSet<&str> = (0..nfiles)
                    .flat_map(|f| per_file[f].iter().map(move |e| &files[f][e.0 as usize..e.1 as usize]))
                    .collect();
                let exact = spellings.len() <= 1;
                let same = !bad
                    && restored.len() == nfiles
                    && restored.iter().zip(files.iter()).all(|(a, b)| if exact { a == b } else { a.eq_ignore_ascii_case(b) });
                if !same {
                    let detail = if bad {
                        "the edits of the reverse rename are malformed".to_string()
                    } else {
                        let f = (0..nfiles).find(|&f| restored[f] != files[f]).unwrap_or(0);
                        let p = restored[f].bytes().zip(files[f].bytes()).position(|(a, b)| a != b).unwrap_or(0);
                        format!("file {f} differs from byte {p}: {:?} instead of {:?}", clip(restored[f].get(p..).unwrap_or(""), 24), clip(files[f].get(p..).unwrap_or(""), 24))
                    };
                    out.findings.push(Finding {
                        key: format!("back/differs/{kind}"),
                        what: format!("after renaming {kind} {old_name:?} -> {new_name:?}, renaming back to {old_name:?} does not restore the original text: {detail}"),
                    });
                }
            }
        }
    }
    out
}

const FRESH: &str = "q9";

/// Signature of one finding.
///
/// * structural findings (panic, malformed edits): `C16/<key>`;
/// * the failure does not depend on the new name (it also occurs with a fresh name at the same
///   occurrence): if the project declares every name once, or the same failure is already known
///   from such projects (`baseline_keys`): `C16/<key>` (clause, detail, kind of the renamed symbol
///   or syntactic context of the missed occurrence); otherwise the cause is a pair of declarations
///   sharing a name in the original project: `C16/homonym/<kinds of the homonymous declarations>`;
///   in the inheritance skeleton instead `C16/inherit:<stratum>/<key>` (stratum = how the base
///   is named: unqualified-base, qualified-base, nested-qualified-base, using-base);
/// * otherwise the cause is the collision of the new name with an existing one, and the
///   discriminating features are the relation of the colliding declaration to the scope of the
///   renamed one and whether the project has one or several files:
///   `C16/collision/<same|outer|inner|sibling|builtin>/<1file|xfile>[/field]`
///   (`C16/gate/<keyword|invalid>/..` for names that should not have passed the validity gate,
///   `C16/case-of-old/<key>` for a pure case change of the old name).
#[allow(clippy::too_many_arguments)]
fn signature_of(key: &str, kind: &str, class: &str, fresh_keys: &[String], nfiles: usize, homonyms: &str, baseline_keys: &[String], stratum: Option<(&str, &[(String, String)])>) -> String {
    let is_structural = |k: &str| k.starts_with("panic/") || k.starts_with("edits/");
    if is_structural(key) {
        return format!("C16/{key}");
    }
    let name_independent: Option<&str> = if class == "fresh" || fresh_keys.iter().any(|k| k == key) {
        Some(key)
    } else {
        fresh_keys.iter().map(String::as_str).find(|k| !is_structural(k))
    };
    if let Some(k) = name_independent {
        if baseline_keys.iter().any(|b| b == k) {
            return format!("C16/{k}");
        }
        // inheritance skeleton: the stratum (how the base is named; nested namespaces count as
        // qualified) is part of the signature, so that it depends on the case alone
        if let Some((own, _known)) = stratum {
            return format!("C16/inherit:{}/{k}", own.strip_prefix("nested-").unwrap_or(own));
        }
        return if homonyms.is_empty() { format!("C16/{k}") } else { format!("C16/homonym/{homonyms}") };
    }
    if class == "case-of-old" {
        return format!("C16/case-of-old/{key}");
    }
    let c = class.strip_prefix("case-").unwrap_or(class);
    let group = if c == "keyword" || c == "invalid" { "gate" } else { "collision" };
    let files = if nfiles > 1 { "xfile" } else { "1file" };
    let field = if kind == "field" || kind == "field-or-unknown" { "/field" } else { "" };
    format!("C16/{group}/{c}/{files}{field}")
}

// ------------------------------------------------------------------------------------------
// replay
// ------------------------------------------------------------------------------------------

fn case_files(case: &Value) -> Vec<String> {
    case["files"]
        .as_array()
        .map(|a| a.iter().map(|s| s.as_str().unwrap_or("").to_string()).collect())
        .unwrap_or_default()
}

fn case_input(case: &Value) -> Option<(u32, u32)> {
    let a = case["input"].as_array()?;
    Some((a.first()?.as_u64()? as u32, a.get(1)?.as_u64()? as u32))
}

pub fn check_case(case: &Value) -> Vec<Violation> {
    let files = case_files(case);
    if files.is_empty() {
        return Vec::new();
    }
    let base = match Base::new(files, case_input(case)) {
        Ok(b) => b,
        Err(m) => {
            return vec![Violation { signature: format!("C16/panic/analysis/{}", norm_msg(&m)), what: format!("analysis of the original project panicked: {m}"), case: case.clone() }];
        }
    };
    if case["kind"].as_str() == Some("probe") {
        probe(&base);
        return Vec::new();
    }
    if !base.error_free() {
        return Vec::new();
    }
    let db = make_db(&base.files);
    let file = case["file"].as_u64().unwrap_or(0) as u32;
    let off = case["offset"].as_u64().unwrap_or(0) as u32;
    let new_name = case["new_name"].as_str().unwrap_or("");
    let class = case["class"].as_str().unwrap_or("?");
    let out = check_rename(&base, &db, file, off, new_name);
    if std::env::var("TV_C16_VERBOSE").is_ok() {
        // development aid: show the edited project
        if let Ok(Some(r)) = catch(|| rename(&db, FileId(file), TextSize::from(off), new_name)) {
            for (fid, es) in &r.edits {
                let mut es: Vec<_> = es.iter().map(|e| (u32::from(e.range.start()), u32::from(e.range.end()), e.new_text.clone())).collect();
                es.sort();
                es.dedup();
                let mut t = base.files[fid.0 as usize].clone();
                for (s, e, n) in es.iter().rev() {
                    t.replace_range(*s as usize..*e as usize, &format!("«{n}»"));
                }
                eprintln!("--- file {} after rename ({} edits) ---\n{t}", fid.0, es.len());
            }
        } else {
            eprintln!("rename refused or panicked");
        }
        eprintln!("accepted={} edits={} kind={} binding_only={:?}", out.accepted, out.edits, out.kind, out.binding_only);
        for f in &out.findings {
            eprintln!("finding {}: {}", f.key, f.what);
        }
    }
    let fresh_keys: Vec<String> = if out.findings.is_empty() || new_name == FRESH {
        Vec::new()
    } else {
        check_rename(&base, &db, file, off, FRESH).findings.into_iter().map(|f| f.key).collect()
    };
    let homonyms = if case["project"]["layout"].as_u64().unwrap_or(0) >= 4 || case["project"]["inherit"].is_object() { String::new() } else { base.homonyms() };
    let stratum: Option<(String, Vec<(String, String)>)> = case["project"]["inherit"]["form"].as_str().map(|f| {
        let known = case["inherit_known"]
            .as_array()
            .map(|a| a.iter().filter_map(|e| Some((e[0].as_str()?.to_string(), e[1].as_str()?.to_string()))).collect())
            .unwrap_or_default();
        (f.to_string(), known)
    });
    let baseline: Vec<String> = case["baseline_keys"].as_array().map(|a| a.iter().filter_map(|k| k.as_str().map(str::to_string)).collect()).unwrap_or_default();
    out.findings
        .iter()
        .map(|f| Violation {
            signature: signature_of(&f.key, &out.kind, class, &fresh_keys, base.files.len(), &homonyms, &baseline, stratum.as_ref().map(|(s, k)| (s.as_str(), k.as_slice()))),
            what: format!("{} [clause {}; new-name class: {class}]", f.what, f.key),
            case: case.clone(),
        })
        .collect()
}

/// Development aid: prints what the real analysis says about a project (`kind: "probe"`).
fn probe(base: &Base) {
    for (i, f) in base.files.iter().enumerate() {
        eprintln!("--- file {i} ---\n{f}");
    }
    for d in &base.diags {
        eprintln!("diag: {d:?}");
    }
    match &base.run {
        Ok(r) => {
            for (i, (d, e)) in r.iter().enumerate() {
                eprintln!("cycle {}: errors {:?}", i + 1, e);
                for (k, v) in d {
                    eprintln!("   {k} = {v}");
                }
            }
        }
        Err(m) => eprintln!("run: {m}"),
    }
    let db = make_db(&base.files);
    for (f, ts) in base.toks.iter().enumerate() {
        for (i, t) in ts.iter().enumerate() {
            let d = base.defs[f][i];
            eprintln!(
                "tok f{f}@{} {:?} -> {:?} [{}]",
                t.0,
                token_text(&base.files, f as u32, *t),
                d.map(|(df, s, e)| format!("f{df}@{s} {}", &base.files[df as usize][s as usize..e as usize])),
                kind_group(&db, d)
            );
        }
    }
}

// ------------------------------------------------------------------------------------------
// project generator
// ------------------------------------------------------------------------------------------

/// Declaration slots of the skeleton: (slot, unique name, scope). In a generated project every
/// slot is named either by its unique name or `x` (for the slots in the chosen subset D).
/// Scopes: 0 global, 1 struct T1, 2 function, 3 namespace, 4 namespace FB, 5 FB,
/// 6 method (inside 5), 7 program, 8 configuration.
const SLOTS: &[(&str, &str, u8)] = &[
    ("G1", "y", 0),   // VAR_GLOBAL, accessed directly where the real analyser allows it
    ("PV", "z", 7),   // PROGRAM VAR
    ("BV", "v", 5),   // FUNCTION_BLOCK VAR
    ("FL", "l1", 2),  // FUNCTION local
    ("ML", "ml", 6),  // METHOD local
    ("FA", "a1", 2),  // FUNCTION VAR_INPUT
    ("TF", "f1", 1),  // STRUCT field
    ("TY", "T1", 0),  // type name
    ("FN", "Fn1", 0), // function name
    ("FB", "Fb1", 0), // function block name
    ("MN", "M1", 5),  // method name
    ("NS", "Ns1", 0), // namespace name
    ("G2", "g2", 0),  // VAR_GLOBAL accessed through VAR_EXTERNAL
    ("MA", "ma", 6),  // METHOD VAR_INPUT
    ("BI", "bi", 5),  // FB VAR_INPUT
    ("BO", "bo", 5),  // FB VAR_OUTPUT
    ("NF", "NFb", 3), // function block inside the namespace (functions inside a namespace are
    // left out: the runtime stores their result in a global named like the function, measured)
    ("PN", "Main", 0), // program name
    ("FI", "fb", 7),   // FB instance variable of the program
];

/// names of the skeleton that are not slots: (name, scope)
const FIXED: &[(&str, u8)] = &[
    ("f2", 1), ("Cfg", 0), ("inp", 0), ("Inst", 8), ("nv", 4), ("nb", 7), ("s", 7),
    ("r1", 7), ("r2", 7), ("r3", 7), ("r4", 7), ("r5", 7),
    // twin layouts: same-length program and instance names
    ("PumpA", 0), ("PumpB", 0), ("PumpC", 0), ("InsA", 8), ("InsB", 8), ("InsC", 8),
];

fn scope_parent(s: u8) -> Option<u8> {
    match s {
        0 => None,
        4 => Some(3),
        6 => Some(5),
        // inheritance skeleton: 10 base, 11 mid (EXTENDS base), 12 derived (EXTENDS mid/base),
        // 13..15 methods of base, 16 method of mid, 17..18 methods of derived, 19 interface
        11 => Some(10),
        12 => Some(11),
        13..=15 => Some(10),
        16 => Some(11),
        17 | 18 => Some(12),
        _ => Some(0),
    }
}

fn is_ancestor(a: u8, of: u8) -> bool {
    let mut c = scope_parent(of);
    while let Some(p) = c {
        if p == a {
            return true;
        }
        c = scope_parent(p);
    }
    false
}

fn swap_case(s: &str) -> String {
    s.chars()
        .map(|c| if c.is_ascii_lowercase() { c.to_ascii_uppercase() } else { c.to_ascii_lowercase() })
        .collect()
}

#[derive(Clone, Debug)]
pub struct ProjSpec {
    /// indices into SLOTS that are named `x`
    pub d: Vec<usize>,
    /// 1 = one file; 2 = [types, configuration, function, namespace | FB, program];
    /// 3 = the same two files in the opposite order;
    /// 4 / 5 = "twin files": every shared declaration (types, configuration, function, namespace,
    /// FB) in file 0 and two / three consumer files that are byte-identical except for same-length
    /// names (PROGRAM PumpA / PumpB / PumpC, instances InsA / InsB / InsC), so that every use of
    /// a shared symbol sits at the same byte range in each consumer
    pub layout: u8,
    /// use sites in the program body are spelt in swapped case
    pub mixed: bool,
    /// twin layouts only: index into ALIGN — pad the files so that the *declaration* of that
    /// symbol in file 0 sits at the same byte range as its last use in the consumer files
    pub align: Option<usize>,
    /// the inheritance skeleton instead of the slot skeleton (then d is empty, layout 1 or 2)
    pub inherit: Option<Inh>,
}

/// One project of the inheritance stratum.
#[derive(Clone, Copy, Debug)]
pub struct Inh {
    /// false: FUNCTION_BLOCKs, true: CLASSes
    pub class: bool,
    /// index into INH_FORMS: how the derived type names its base
    pub form: usize,
    /// 1: Derived EXTENDS Base; 2: Mid EXTENDS Base, Derived EXTENDS Mid
    pub levels: u8,
    /// Base IMPLEMENTS an interface and the program calls through an interface-typed variable
    pub iface: bool,
}

/// Strata of the inheritance skeleton, simplest first: base at top level (`EXTENDS Base`), base
/// in a namespace (`EXTENDS Lib.Base`), base in a nested namespace (`EXTENDS A.B.Base`), base in
/// a namespace named through `USING Lib;` + `EXTENDS Base` (not accepted by the real analyser at
/// the time of writing: such projects are generated and counted as rejected).
const INH_FORMS: &[&str] = &["unqualified-base", "qualified-base", "nested-qualified-base", "using-base"];

/// symbols (slots) whose declaration can be aligned with a use in the twin layouts
const ALIGN: &[&str] = &["FN", "TY", "FB", "TF", "NF", "MN", "BO", "NS"];

pub struct Proj {
    pub spec: ProjSpec,
    pub files: Vec<String>,
    pub input: (u32, u32),
    /// (file, start) -> scope of the slot/fixed name written there
    pub tok_scope: BTreeMap<(u32, u32), u8>,
    /// lower-cased declared name -> (exact spellings, scopes)
    pub declared: BTreeMap<String, (Vec<String>, Vec<u8>)>,
}

#[derive(Clone)]
struct Emit {
    text: String,
    marks: Vec<(u32, u8)>,
    /// (declared spelling, scope) of every name written
    names: Vec<(String, u8)>,
}

impl Emit {
    /// the same text behind `n` bytes of blank padding
    fn padded(&self, n: u32) -> Emit {
        if n == 0 {
            return self.clone();
        }
        let mut text = " ".repeat(n as usize - 1);
        text.push('\n');
        text.push_str(&self.text);
        Emit { text, marks: self.marks.iter().map(|(p, s)| (p + n, *s)).collect(), names: self.names.clone() }
    }
    /// byte offset of the first / last written occurrence of `name`
    fn occurrence(&self, name: &str, last: bool) -> Option<u32> {
        let hits = self.marks.iter().zip(&self.names).filter(|(_, n)| n.0 == name).map(|(m, _)| m.0);
        if last { hits.last() } else { hits.clone().next() }
    }
}

/// The inheritance skeleton. Template tokens `<name@scope>` are identifier occurrences tagged
/// with the scope that declares the name (see `scope_parent`).
///
/// Members declared in the base: input `inp1`, output `outp` (FB only), variable `level`, methods
/// `Bump`, `Calc` (overridden in the derived type), `Peek`. They are used (a) inside the derived
/// type unqualified (`level`, `Bump()`), through `THIS.` and `SUPER.`, (b) through an instance of
/// the derived type in a program (`d.level`, `d.Bump()`, `d.Calc(ca := 2)`, `d.outp`, `d.Peek()`;
/// `outp` and `Peek` *only* that way), (c) optionally through an interface-typed variable.
/// An inherited VAR_INPUT as named argument of the derived instance (`d(inp1 := 1)`) is rejected
/// by the real type checker ("expected 0 arguments"), so the call passes the derived type's own
/// input `din`.
fn generate_inherit(spec: &ProjSpec, inh: Inh) -> Proj {
    let fb = !inh.class;
    let (kw, end) = if fb { ("FUNCTION_BLOCK", "END_FUNCTION_BLOCK") } else { ("CLASS", "END_CLASS") };
    let (ns_open, ns_close, base_ref, using) = match inh.form {
        0 => ("", "", "<Base@0>", ""),
        1 => ("NAMESPACE <Lib@0>\n", "END_NAMESPACE\n", "<Lib@0>.<Base@0>", ""),
        2 => ("NAMESPACE <A@0>\nNAMESPACE <B@0>\n", "END_NAMESPACE\nEND_NAMESPACE\n", "<A@0>.<B@0>.<Base@0>", ""),
        _ => ("NAMESPACE <Lib@0>\n", "END_NAMESPACE\n", "<Base@0>", "USING <Lib@0>;\n"),
    };
    let mut a = String::new();
    if inh.iface {
        a += "INTERFACE <IBump@0>\nMETHOD <Bump@19> : INT\nEND_METHOD\nEND_INTERFACE\n";
    }
    a += ns_open;
    a += &format!("{kw} <Base@0>{}\n", if inh.iface { " IMPLEMENTS <IBump@0>" } else { "" });
    if fb {
        a += "VAR_INPUT <inp1@10> : INT; END_VAR\nVAR_OUTPUT <outp@10> : INT; END_VAR\n";
    }
    a += "VAR PUBLIC <level@10> : INT := 5; END_VAR\n";
    a += "METHOD PUBLIC <Bump@10> : INT\n  <level@10> := <level@10> + 1;\n  <Bump@10> := <level@10>;\nEND_METHOD\n";
    a += "METHOD PUBLIC <Calc@10> : INT\nVAR_INPUT <ca@14> : INT; END_VAR\n  <Calc@10> := <ca@14> + <level@10>;\nEND_METHOD\n";
    a += "METHOD PUBLIC <Peek@10> : INT\n  <Peek@10> := <level@10> + THIS.<level@10>;\nEND_METHOD\n";
    if fb {
        a += "  <outp@10> := <inp1@10> + <level@10>;\n";
    }
    a += &format!("{end}\n{ns_close}");
    let mut b = String::from(using);
    let mut parent = base_ref.to_string();
    if inh.levels == 2 {
        b += &format!("{kw} <Mid@0> EXTENDS {base_ref}\nVAR PUBLIC <midv@11> : INT := 3; END_VAR\nMETHOD PUBLIC <MidM@11> : INT\n  <MidM@11> := <midv@11> + <level@10>;\nEND_METHOD\n{end}\n");
        parent = "<Mid@0>".to_string();
    }
    b += &format!("{kw} <Derived@0> EXTENDS {parent}\n");
    if fb {
        b += "VAR_INPUT <din@12> : INT; END_VAR\n";
    }
    b += "VAR PUBLIC <own@12> : INT := 7; END_VAR\n";
    b += "METHOD PUBLIC OVERRIDE <Calc@12> : INT\nVAR_INPUT <ca@17> : INT; END_VAR\n  <Calc@12> := SUPER.<Calc@10>(<ca@14> := <ca@17>) + <own@12> + THIS.<level@10> + <level@10>;\nEND_METHOD\n";
    b += "METHOD PUBLIC <Twice@12> : INT\n  <Twice@12> := <Bump@10>() + THIS.<Bump@10>();\nEND_METHOD\n";
    if fb {
        b += "  <own@12> := <own@12> + <level@10> + <din@12>;\n";
    }
    b += &format!("{end}\n");
    b += "PROGRAM <Main@0>\nVAR\n  <d@7> : <Derived@0>;\n  <r1@7> : INT; <r2@7> : INT; <r3@7> : INT; <r4@7> : INT; <r5@7> : INT; <r6@7> : INT;\n";
    if inh.iface {
        b += "  <ib@7> : <IBump@0>;\n";
    }
    b += "END_VAR\n";
    if fb {
        b += "  <d@7>(<din@12> := 1);\n";
    }
    b += "  <r1@7> := <d@7>.<level@10>;\n  <r2@7> := <d@7>.<Bump@10>();\n  <r3@7> := <d@7>.<Calc@12>(<ca@17> := 2);\n";
    b += if fb { "  <r4@7> := <d@7>.<outp@10> + <d@7>.<Peek@10>();\n" } else { "  <r4@7> := <d@7>.<Peek@10>();\n" };
    b += "  <r5@7> := <d@7>.<own@12> + <d@7>.<Twice@12>();\n";
    if inh.levels == 2 {
        b += "  <r6@7> := <d@7>.<midv@11> + <d@7>.<MidM@11>();\n";
    }
    if inh.iface {
        b += "  <ib@7> := <d@7>;\n  <r6@7> := <r6@7> + <ib@7>.<Bump@19>();\n";
    }
    b += "END_PROGRAM\n";
    let emit = |tpl: &str| -> Emit {
        let mut e = Emit { text: String::new(), marks: Vec::new(), names: Vec::new() };
        let mut rest = tpl;
        while let Some(i) = rest.find('<') {
            e.text.push_str(&rest[..i]);
            let j = rest[i..].find('>').expect("template") + i;
            let (n, sc) = rest[i + 1..j].split_once('@').expect("template tag");
            let sc: u8 = sc.parse().expect("scope");
            e.marks.push((e.text.len() as u32, sc));
            e.names.push((n.to_string(), sc));
            e.text.push_str(n);
            rest = &rest[j + 1..];
        }
        e.text.push_str(rest);
        e
    };
    let parts: Vec<Emit> = if spec.layout == 1 { vec![emit(&format!("{a}{b}"))] } else { vec![emit(&a), emit(&b)] };
    let mut tok_scope = BTreeMap::new();
    let mut declared: BTreeMap<String, (Vec<String>, Vec<u8>)> = BTreeMap::new();
    for (f, e) in parts.iter().enumerate() {
        for (p, sc) in &e.marks {
            tok_scope.insert((f as u32, *p), *sc);
        }
        for (n, sc) in &e.names {
            let d = declared.entry(n.to_ascii_lowercase()).or_default();
            if !d.0.iter().any(|x| x == n) {
                d.0.push(n.clone());
            }
            if !d.1.contains(sc) {
                d.1.push(*sc);
            }
        }
    }
    // no input variable: the offset points at no token
    Proj { spec: spec.clone(), files: parts.into_iter().map(|e| e.text).collect(), input: (0, u32::MAX), tok_scope, declared }
}

pub fn generate(spec: &ProjSpec) -> Proj {
    if let Some(inh) = spec.inherit {
        return generate_inherit(spec, inh);
    }
    let name_of = |slot: &str| -> (String, u8) {
        let i = SLOTS.iter().position(|s| s.0 == slot).expect("slot");
        if spec.d.contains(&i) {
            ("x".to_string(), SLOTS[i].2)
        } else {
            (SLOTS[i].1.to_string(), SLOTS[i].2)
        }
    };
    // tiny template language: {SLOT} declaration-cased occurrence, {SLOT^} occurrence that is
    // case-swapped in "mixed" projects, <name> fixed name (tagged with its scope)
    let emit = |tpl: &str| -> Emit {
        let mut e = Emit { text: String::new(), marks: Vec::new(), names: Vec::new() };
        let b = tpl.as_bytes();
        let mut i = 0;
        while i < b.len() {
            match b[i] {
                b'{' => {
                    let j = tpl[i..].find('}').unwrap() + i;
                    let mut slot = &tpl[i + 1..j];
                    let swap = slot.ends_with('^');
                    if swap {
                        slot = &slot[..slot.len() - 1];
                    }
                    let (n, sc) = name_of(slot);
                    e.marks.push((e.text.len() as u32, sc));
                    e.names.push((n.clone(), sc));
                    if swap && spec.mixed {
                        e.text.push_str(&swap_case(&n));
                    } else {
                        e.text.push_str(&n);
                    }
                    i = j + 1;
                }
                b'<' => {
                    let j = tpl[i..].find('>').unwrap() + i;
                    let n = &tpl[i + 1..j];
                    let sc = FIXED.iter().find(|f| f.0 == n).expect("fixed name").1;
                    e.marks.push((e.text.len() as u32, sc));
                    e.names.push((n.to_string(), sc));
                    e.text.push_str(n);
                    i = j + 1;
                }
                c => {
                    e.text.push(c as char);
                    i += 1;
                }
            }
        }
        e
    };
    let two = spec.layout != 1;
    let twin = spec.layout >= 4;
    let consumers: &[(&str, &str)] = match spec.layout {
        4 => &[("PumpA", "InsA"), ("PumpB", "InsB")],
        5 => &[("PumpA", "InsA"), ("PumpB", "InsB"), ("PumpC", "InsC")],
        _ => &[],
    };
    let cfg_progs: String = if twin {
        consumers.iter().map(|(p, i)| format!("PROGRAM <{i}> : <{p}>;\n")).collect()
    } else {
        "PROGRAM <Inst> : {PN};\n".to_string()
    };
    // part A: types, configuration (globals), function, namespace
    let part_a = "TYPE\n  {TY} : STRUCT\n    {TF} : INT;\n    <f2> : INT;\n  END_STRUCT;\nEND_TYPE\n\
CONFIGURATION <Cfg>\nVAR_GLOBAL\n  {G1} : INT := 21;\n  {G2} : INT := 22;\n  <inp> : INT;\nEND_VAR\n@CFG@END_CONFIGURATION\n\
FUNCTION {FN} : INT\nVAR_INPUT {FA} : INT; END_VAR\nVAR {FL} : INT := 31; END_VAR\n  {FN} := {FA} + {FL} + {G1};\nEND_FUNCTION\n\
NAMESPACE {NS}\nFUNCTION_BLOCK {NF}\nVAR <nv> : INT := 71; END_VAR\n  <nv> := <nv> + {G1};\nEND_FUNCTION_BLOCK\nEND_NAMESPACE\n"
        .replace("@CFG@", &cfg_progs);
    // part B: FB with method, program. Globals of another file are only visible through
    // VAR_EXTERNAL (measured on the real analyser), so the two-file layouts declare them.
    let fb_ext = if two { "VAR_EXTERNAL {G1} : INT; {G2} : INT; END_VAR\n" } else { "VAR_EXTERNAL {G2} : INT; END_VAR\n" };
    let pg_ext = if two { "VAR_EXTERNAL {G1} : INT; {G2} : INT; <inp> : INT; END_VAR\n" } else { "" };
    let fb_part = format!(
        "FUNCTION_BLOCK {{FB}}\nVAR_INPUT {{BI}} : INT; END_VAR\nVAR_OUTPUT {{BO}} : INT; END_VAR\nVAR {{BV}} : INT := 41; END_VAR\n{fb_ext}\
METHOD PUBLIC {{MN}} : INT\nVAR_INPUT {{MA}} : INT; END_VAR\nVAR {{ML}} : INT := 51; END_VAR\n  {{MN}} := {{MA}} + {{ML}} + {{BV}} + {{G1}} + {{G2}};\nEND_METHOD\n\
  {{BV}} := {{BV}} + 1;\n  {{BO}} := {{BI}} + {{BV}} + {{G1}} + {{G2}};\nEND_FUNCTION_BLOCK\n"
    );
    // Consumers of the twin layouts: the real analyser loses a type of file 0 when several sibling
    // files use it (measured: with two consumers a call of the namespaced FB instance is "not
    // callable", with three also `s.f1` "requires struct"), so those uses are left out there; the
    // declarations `s : T1` and `nb : Ns1.NFb` (type and namespace member uses) stay.
    let ns_call = if twin { "" } else { "  <nb>();\n" };
    let struct_use = if spec.layout == 5 {
        "  <r4> := {FI^}.{BO^};\n".to_string()
    } else {
        "  <s>.{TF^} := 11; <s>.<f2> := 12;\n  <r4> := <s>.{TF^} + {FI^}.{BO^};\n".to_string()
    };
    let prog_part = |name_tpl: &str| format!(
        "PROGRAM {name_tpl}\nVAR\n  {{PV}} : INT := 61;\n  <s> : {{TY}};\n  {{FI}} : {{FB}};\n  <r1> : INT; <r2> : INT; <r3> : INT; <r4> : INT; <r5> : INT;\n  <nb> : {{NS^}}.{{NF^}};\nEND_VAR\n{pg_ext}\
  <r1> := {{FN^}}({{FA^}} := {{PV^}});\n  {{FI^}}({{BI^}} := 2, {{BO^}} => <r2>);\n  <r3> := {{FI^}}.{{MN^}}({{MA^}} := 3);\n{struct_use}\
  <r5> := {{G1^}} + {{G2^}} + <inp> + {{PV^}};\n{ns_call}  {{PV^}} := {{PV^}} + <r5>;\nEND_PROGRAM\n"
    );
    let part_b = format!("{fb_part}{}", prog_part("{PN}"));
    let a = emit(&part_a);
    let b = emit(&part_b);
    let mut all_names: Vec<(String, u8)> = Vec::new();
    let (files, marks): (Vec<String>, Vec<Vec<(u32, u8)>>) = match spec.layout {
        4 | 5 => {
            // file 0: every shared declaration; files 1..: the consumers
            let mut shared = emit(&format!("{part_a}{fb_part}"));
            let mut cons: Vec<Emit> = consumers.iter().map(|(p, _)| emit(&prog_part(&format!("<{p}>")))).collect();
            if let Some(ai) = spec.align {
                let (name, _) = name_of(ALIGN[ai]);
                let decl = shared.occurrence(&name, false).expect("aligned declaration");
                let used = cons[0].occurrence(&name, true).expect("aligned use");
                if decl > used {
                    cons = cons.iter().map(|c| c.padded(decl - used)).collect();
                } else {
                    shared = shared.padded(used - decl);
                }
            }
            all_names.extend(shared.names.iter().cloned());
            let mut files = vec![shared.text.clone()];
            let mut marks = vec![shared.marks.clone()];
            for c in &cons {
                all_names.extend(c.names.iter().cloned());
                files.push(c.text.clone());
                marks.push(c.marks.clone());
            }
            (files, marks)
        }
        1 => {
            let off = a.text.len() as u32;
            let mut m = a.marks.clone();
            m.extend(b.marks.iter().map(|(p, s)| (p + off, *s)));
            (vec![format!("{}{}", a.text, b.text)], vec![m])
        }
        2 => (vec![a.text.clone(), b.text.clone()], vec![a.marks.clone(), b.marks.clone()]),
        _ => (vec![b.text.clone(), a.text.clone()], vec![b.marks.clone(), a.marks.clone()]),
    };
    let mut tok_scope = BTreeMap::new();
    for (f, ms) in marks.iter().enumerate() {
        for (p, s) in ms {
            tok_scope.insert((f as u32, *p), *s);
        }
    }
    let a_file = if spec.layout == 3 { 1 } else { 0 };
    let inp_off = files[a_file].find("inp : INT;\nEND_VAR").expect("input declaration") as u32;
    let mut declared: BTreeMap<String, (Vec<String>, Vec<u8>)> = BTreeMap::new();
    let mut add = |n: &str, sc: u8| {
        let e = declared.entry(n.to_ascii_lowercase()).or_default();
        if !e.0.iter().any(|x| x == n) {
            e.0.push(n.to_string());
        }
        if !e.1.contains(&sc) {
            e.1.push(sc);
        }
    };
    if !twin {
        all_names.extend(a.names.iter().cloned());
        all_names.extend(b.names.iter().cloned());
    }
    for (n, sc) in &all_names {
        add(n, *sc);
    }
    Proj { spec: spec.clone(), files, input: (a_file as u32, inp_off), tok_scope, declared }
}

const KEYWORDS: &[&str] = &["IF", "INT", "end_var", "TRUE"];
const INVALID: &[&str] = &["", "1a", "a-b", "a__b", "a_", "a b", "\u{e9}", "a.", "a;b"];
/// names known to the real symbol table without being declared in the project
const BUILTINS: &[&str] = &["TON", "ABS"];

/// The new-name alphabet for a token spelt `old` that the generator wrote for scope `scope`:
/// (new name, class).
pub fn new_names(p: &Proj, old: &str, scope: u8, quick: bool) -> Vec<(String, String)> {
    let mut out: Vec<(String, String)> = Vec::new();
    let mut cands: Vec<String> = vec![FRESH.into(), "x".into(), swap_case(old), "y".into(), "z".into()];
    if p.spec.inherit.is_some() {
        // collision targets of the inheritance skeleton: a base member, a derived member, a program local
        cands = vec![FRESH.into(), swap_case(old), "level".into(), "own".into()];
        if !quick {
            cands.extend(["r1".to_string(), "LEVEL".to_string(), "Bump".to_string(), BUILTINS[0].to_string()]);
        }
    } else if !quick {
        cands.extend(["X".to_string(), "v".to_string(), "Y".to_string()]);
        cands.extend(BUILTINS.iter().map(|s| s.to_string()));
    }
    for n in cands {
        if n == old || out.iter().any(|o| o.0 == n) {
            continue;
        }
        let class = if n.eq_ignore_ascii_case(old) {
            "case-of-old".to_string()
        } else if let Some((spell, scopes)) = p.declared.get(&n.to_ascii_lowercase()) {
            let rel = if scopes.contains(&scope) {
                "same"
            } else if scopes.iter().any(|s| is_ancestor(*s, scope)) {
                "outer"
            } else if scopes.iter().any(|s| is_ancestor(scope, *s)) {
                "inner"
            } else {
                "sibling"
            };
            if spell.iter().any(|s| *s == n) { rel.to_string() } else { format!("case-{rel}") }
        } else if BUILTINS.contains(&n.as_str()) {
            "builtin".to_string()
        } else {
            "fresh".to_string()
        };
        out.push((n, class));
    }
    for k in KEYWORDS.iter().take(if quick { 1 } else { KEYWORDS.len() }) {
        out.push((k.to_string(), "keyword".into()));
    }
    for k in INVALID.iter().take(if quick { 2 } else { INVALID.len() }) {
        out.push((k.to_string(), "invalid".into()));
    }
    out
}

/// All subsets of SLOTS[..n] of size <= k, simplest first (by size, then lexicographically).
fn subsets(n: usize, k: usize) -> Vec<Vec<usize>> {
    let mut out = vec![Vec::new()];
    let mut layer: Vec<Vec<usize>> = vec![Vec::new()];
    for _ in 0..k {
        let mut next = Vec::new();
        for s in &layer {
            let from = s.last().map(|l| l + 1).unwrap_or(0);
            for i in from..n {
                let mut t = s.clone();
                t.push(i);
                next.push(t);
            }
        }
        out.extend(next.iter().cloned());
        layer = next;
    }
    out
}

fn case_json(p: &Proj, file: u32, off: u32, new_name: &str, class: &str) -> Value {
    json!({
        "files": p.files,
        "input": [p.input.0, p.input.1],
        "file": file,
        "offset": off,
        "new_name": new_name,
        "class": class,
        "project": {"x_slots": p.spec.d.iter().map(|i| SLOTS[*i].0).collect::<Vec<_>>(), "layout": p.spec.layout, "mixed_case": p.spec.mixed, "aligned": p.spec.align.map(|a| ALIGN[a]),
            "inherit": p.spec.inherit.map(|i| json!({"kind": if i.class { "class" } else { "fb" }, "form": INH_FORMS[i.form], "levels": i.levels, "interface": i.iface}))},
    })
}

/// A finding as returned by a worker; its signature is assigned in enumeration order (it needs
/// the failures already known from the projects without homonyms).
struct Raw {
    key: String,
    what: String,
    kind: String,
    class: String,
    fresh_keys: Vec<String>,
    usable: usize,
    file: u32,
    off: u32,
    new_name: String,
}

#[derive(Default)]
struct Stats {
    cases: u64,
    accepted: u64,
    accepted_with_edits: u64,
    refused: u64,
    edits: u64,
    multi_file: u64,
    by_class: BTreeMap<String, (u64, u64)>, // class -> (cases, accepted)
    by_kind: BTreeMap<String, (u64, u64)>,  // kind of the target -> (cases, accepted)
    by_stratum: BTreeMap<String, (u64, u64)>, // inheritance stratum -> (cases, accepted)
    binding_only: u64,
    same_range: u64,
    binding_only_sample: Option<String>,
    violating_cases: u64,
}

pub fn run(ctx: &Ctx) -> EngineResult {
    quiet_panics();
    let mut rep = Report::new("exploration");
    let deadline = Instant::now() + Duration::from_secs(ctx.tier.pick(30, 780));
    let stack = 16 << 20;

    // ---- the bounded space of projects, simplest first
    let mut specs: Vec<ProjSpec> = Vec::new();
    let n = SLOTS.len();
    match ctx.tier {
        Tier::Quick => {
            for d in subsets(n, 1) {
                specs.push(ProjSpec { d, layout: 1, mixed: false, align: None, inherit: None });
            }
            specs.push(ProjSpec { d: Vec::new(), layout: 2, mixed: false, align: None, inherit: None });
            specs.push(ProjSpec { d: Vec::new(), layout: 2, mixed: true, align: None, inherit: None });
            // twin files: plain, and with the declaration of the function aligned with its uses
            specs.push(ProjSpec { d: Vec::new(), layout: 4, mixed: false, align: None, inherit: None });
            specs.push(ProjSpec { d: Vec::new(), layout: 4, mixed: false, align: Some(0), inherit: None });
            // inheritance skeleton, stratum-major (simplest first)
            let inh = |class, form, levels, layout| ProjSpec { d: Vec::new(), layout, mixed: false, align: None, inherit: Some(Inh { class, form, levels, iface: false }) };
            for form in 0..INH_FORMS.len() {
                specs.push(inh(false, form, 1, 1));
                if form < 3 {
                    specs.push(inh(false, form, 1, 2));
                }
                if form == 1 {
                    specs.push(inh(false, form, 2, 1));
                    specs.push(inh(true, form, 1, 1));
                }
            }
        }
        Tier::Thorough => {
            for d in subsets(n, 1) {
                for (layout, mixed) in [(1, false), (2, false), (2, true), (3, false)] {
                    specs.push(ProjSpec { d: d.clone(), layout, mixed, align: None, inherit: None });
                }
            }
            // twin files (2 and 3 consumers), plain and with each alignable declaration aligned
            for layout in [4, 5] {
                specs.push(ProjSpec { d: Vec::new(), layout, mixed: false, align: None, inherit: None });
            }
            for a in 0..ALIGN.len() {
                specs.push(ProjSpec { d: Vec::new(), layout: 4, mixed: false, align: Some(a), inherit: None });
            }
            specs.push(ProjSpec { d: Vec::new(), layout: 5, mixed: false, align: Some(0), inherit: None });
            // inheritance skeleton: full product, stratum-major (simplest first)
            for form in 0..INH_FORMS.len() {
                for class in [false, true] {
                    for levels in [1, 2] {
                        for layout in [1, 2] {
                            for iface in [false, true] {
                                specs.push(ProjSpec { d: Vec::new(), layout, mixed: false, align: None, inherit: Some(Inh { class, form, levels, iface }) });
                            }
                        }
                    }
                }
            }
            for d in subsets(n, 2).into_iter().filter(|d| d.len() == 2) {
                specs.push(ProjSpec { d, layout: 1, mixed: false, align: None, inherit: None });
            }
            for d in subsets(n, 2).into_iter().filter(|d| d.len() == 2) {
                specs.push(ProjSpec { d, layout: 2, mixed: false, align: None, inherit: None });
            }
        }
    }
    let projs: Vec<Proj> = specs.iter().map(generate).collect();
    let bases = par_map(&projs, ctx.threads, stack, None, |_, p| Base::new(p.files.clone(), Some(p.input)));
    let mut usable: Vec<(usize, Base)> = Vec::new();
    let mut rejected = 0u64;
    let mut rejected_sample: Option<Value> = None;
    for (i, b) in bases.into_iter().enumerate() {
        match b {
            Some(Ok(b)) => {
                if b.error_free() {
                    usable.push((i, b));
                } else {
                    rejected += 1;
                    if rejected_sample.is_none() {
                        let why = b.diags.iter().find(|d| d.error).map(|d| d.message.clone()).or_else(|| b.run.as_ref().err().cloned()).unwrap_or_default();
                        rejected_sample = Some(json!({"x_slots": projs[i].spec.d.iter().map(|i| SLOTS[*i].0).collect::<Vec<_>>(), "why": clip(&why, 120)}));
                    }
                }
            }
            Some(Err(m)) => {
                rep.violation(Violation {
                    signature: format!("C16/panic/analysis/{}", norm_msg(&m)),
                    what: format!("analysis of a generated project panicked: {m}"),
                    case: json!({"files": projs[i].files}),
                });
            }
            None => return machinery("project analysis not executed"),
        }
    }
    eprintln!("[C16] {} projects generated, {} error-free, at {:.1}s", projs.len(), usable.len(), ctx.elapsed());
    if usable.is_empty() {
        return machinery(format!("no generated project is error-free (sample: {rejected_sample:?})"));
    }
    if !usable.iter().any(|(i, _)| projs[*i].spec.layout >= 4 && projs[*i].spec.align.is_some())
        || !usable.iter().any(|(i, _)| projs[*i].spec.layout >= 4 && projs[*i].spec.align.is_none())
    {
        return machinery("no twin-file project is error-free: the twin layouts are vacuous");
    }
    for form in 0..3 {
        if !usable.iter().any(|(i, _)| projs[*i].spec.inherit.is_some_and(|h| h.form == form)) {
            return machinery(format!("no error-free project in the inheritance stratum {}", INH_FORMS[form]));
        }
    }
    if !usable.iter().any(|(i, _)| projs[*i].spec.d.is_empty() && projs[*i].spec.inherit.is_none() && projs[*i].spec.layout == 1) {
        return machinery("the skeleton without any x is not error-free: the generator is broken");
    }

    // ---- work items: (usable project, file, token)
    let mut items: Vec<(usize, u32, usize)> = Vec::new();
    for (u, (_, b)) in usable.iter().enumerate() {
        for (f, ts) in b.toks.iter().enumerate() {
            for t in 0..ts.len() {
                items.push((u, f as u32, t));
            }
        }
    }
    let quick = ctx.tier == Tier::Quick;
    let res = par_map(&items, ctx.threads, stack, Some(deadline), |_, &(u, f, t)| {
        let (pi, base) = &usable[u];
        let p = &projs[*pi];
        let db = make_db(&base.files);
        let tok = base.toks[f as usize][t];
        let old = token_text(&base.files, f, tok).to_string();
        // scope of the declaration the occurrence resolves to (the generator's tag of that
        // declaration token); the tag of the occurrence itself if the IDE cannot resolve it
        let scope = base.defs[f as usize][t]
            .and_then(|d| p.tok_scope.get(&(d.0, d.1)).copied())
            .or_else(|| p.tok_scope.get(&(f, tok.0)).copied())
            .unwrap_or(0);
        let mut st = Stats::default();
        let mut viols = Vec::new();
        let mut sample = None;
        let mut fresh_keys: Vec<String> = Vec::new();
        // rename position: the first byte of the token (every byte of a token is the same
        // occurrence); the last byte for every 7th token to cover in-token offsets
        let off = if t % 7 == 3 { tok.1 - 1 } else { tok.0 };
        for (n, class) in new_names(p, &old, scope, quick) {
            let o = check_rename(base, &db, f, off, &n);
            if n == FRESH {
                fresh_keys = o.findings.iter().map(|f| f.key.clone()).collect();
            }
            st.cases += 1;
            let e = st.by_class.entry(class.clone()).or_default();
            e.0 += 1;
            let k = st.by_kind.entry(o.kind.clone()).or_default();
            k.0 += 1;
            if let Some(h) = p.spec.inherit {
                let e = st.by_stratum.entry(INH_FORMS[h.form].to_string()).or_default();
                e.0 += 1;
                if o.accepted && o.edits > 0 {
                    e.1 += 1;
                }
            }
            if o.accepted {
                st.accepted += 1;
                e.1 += 1;
                k.1 += 1;
                st.edits += o.edits as u64;
                if o.edits > 0 {
                    st.accepted_with_edits += 1;
                }
                if o.same_range_in_two_files {
                    st.same_range += 1;
                }
                if o.files_touched > 1 {
                    st.multi_file += 1;
                    if sample.is_none() {
                        sample = Some(json!({"x_slots": p.spec.d.iter().map(|i| SLOTS[*i].0).collect::<Vec<_>>(), "layout": p.spec.layout, "old": old, "new": n, "class": class, "kind": o.kind, "edits": o.edits, "files_touched": o.files_touched, "findings": o.findings.len()}));
                    }
                }
            } else {
                st.refused += 1;
            }
            if let Some(b) = &o.binding_only {
                st.binding_only += 1;
                if st.binding_only_sample.is_none() {
                    st.binding_only_sample = Some(format!("{b} [class {class}]"));
                }
            }
            if !o.findings.is_empty() {
                st.violating_cases += 1;
                for fd in &o.findings {
                    viols.push(Raw { key: fd.key.clone(), what: fd.what.clone(), kind: o.kind.clone(), class: class.clone(), fresh_keys: fresh_keys.clone(), usable: u, file: f, off, new_name: n.clone() });
                }
            }
        }
        (st, viols, sample)
    });
    // (the consumers of the twin layouts declare the same local names by construction; that is
    // not a homonym pair in the sense of the |D| = 2 projects)
    let homonyms: Vec<String> = usable.iter().map(|(pi, b)| if projs[*pi].spec.layout >= 4 || projs[*pi].spec.inherit.is_some() { String::new() } else { b.homonyms() }).collect();
    let mut baseline: Vec<String> = Vec::new();
    let mut inherit_known: Vec<(String, String)> = Vec::new();
    let mut tot = Stats::default();
    let mut exhaustive = true;
    let done = crate::par::completed_prefix(&res);
    for r in res {
        match r {
            Some((st, v, sample)) => {
                tot.cases += st.cases;
                tot.accepted += st.accepted;
                tot.accepted_with_edits += st.accepted_with_edits;
                tot.refused += st.refused;
                tot.edits += st.edits;
                tot.multi_file += st.multi_file;
                tot.binding_only += st.binding_only;
                tot.same_range += st.same_range;
                tot.violating_cases += st.violating_cases;
                if tot.binding_only_sample.is_none() {
                    tot.binding_only_sample = st.binding_only_sample;
                }
                for (k, (a, b)) in st.by_class {
                    let e = tot.by_class.entry(k).or_default();
                    e.0 += a;
                    e.1 += b;
                }
                for (k, (a, b)) in st.by_kind {
                    let e = tot.by_kind.entry(k).or_default();
                    e.0 += a;
                    e.1 += b;
                }
                for (k, (a, b)) in st.by_stratum {
                    let e = tot.by_stratum.entry(k).or_default();
                    e.0 += a;
                    e.1 += b;
                }
                for r in v {
                    if r.key.starts_with("machinery/") {
                        return machinery(format!("isolated execution failed: {}", r.what));
                    }
                    let (pi, base) = &usable[r.usable];
                    let hom = &homonyms[r.usable];
                    if hom.is_empty() && projs[*pi].spec.layout < 4 && projs[*pi].spec.inherit.is_none() && (r.class == "fresh") && !baseline.contains(&r.key) {
                        baseline.push(r.key.clone());
                    }
                    let stratum = projs[*pi].spec.inherit.map(|i| INH_FORMS[i.form]);
                    if let Some(st) = stratum {
                        let fresh_failure = r.class == "fresh" && !(r.key.starts_with("panic/") || r.key.starts_with("edits/"));
                        if fresh_failure && !baseline.contains(&r.key) && !inherit_known.iter().any(|(k, _)| *k == r.key) {
                            inherit_known.push((r.key.clone(), st.to_string()));
                        }
                    }
                    let signature = signature_of(&r.key, &r.kind, &r.class, &r.fresh_keys, base.files.len(), hom, &baseline, stratum.map(|s| (s, inherit_known.as_slice())));
                    if !rep.violation_counts.contains_key(&signature) {
                        let mut case = case_json(&projs[*pi], r.file, r.off, &r.new_name, &r.class);
                        case["baseline_keys"] = json!(baseline);
                        if stratum.is_some() {
                            case["inherit_known"] = json!(inherit_known.iter().map(|(k, s)| json!([k, s])).collect::<Vec<_>>());
                        }
                        case["homonyms"] = json!(hom);
                        rep.violation(Violation { signature, what: format!("{} [clause {}; new-name class: {}]", r.what, r.key, r.class), case });
                    } else {
                        *rep.violation_counts.get_mut(&signature).unwrap() += 1;
                    }
                }
                if let Some(s) = sample {
                    if rep.samples.len() < 4 {
                        rep.sample(s);
                    }
                }
            }
            None => exhaustive = false,
        }
    }
    if !exhaustive {
        let (u, _, _) = items[done.min(items.len() - 1)];
        rep.cap(format!("wall cap: {done} of {} (project, token) items completed; all projects before #{u} of {} are fully covered", items.len(), usable.len()));
        rep.set("completed_projects", u as u64);
    }
    eprintln!("[C16] {} cases at {:.1}s", tot.cases, ctx.elapsed());
    if tot.accepted_with_edits == 0 {
        return machinery("no rename was accepted: exploration vacuous");
    }
    if tot.refused == 0 {
        return machinery("no rename was refused: the refusal branch was never reached");
    }
    if projs.iter().any(|p| p.spec.layout != 1) && tot.multi_file == 0 && exhaustive {
        return machinery("no rename touched two files although two-file projects were generated");
    }
    if exhaustive && tot.same_range == 0 {
        return machinery("no rename produced the same byte range in two files: the twin-file layouts did not collide");
    }
    rep.set("evaluations", tot.cases);
    rep.set("distinct_nontrivial", tot.accepted_with_edits);
    rep.set("rule", format!("cases = (generated project, identifier token, new name): projects = one skeleton (struct type, configuration with globals and a program instance, function, namespace with an FB, FB with method, program) in which every subset D (|D| <= {}) of {} declaration slots is named `x` (all other slots have unique names), in 1-file/2-file layouts and uniform/mixed-case spelling, plus (D empty) the twin-file layouts: all shared declarations in file 0 and 2 or 3 consumer programs in files that are byte-identical except for same-length names, plain and padded so that a declaration in file 0 has the same byte range as its uses in the consumers; plus the inheritance skeleton (base FB/CLASS at top level, in a namespace, in a nested namespace, or named through USING; derived type one or two levels below; members of the base used unqualified, through THIS/SUPER, through an instance of the derived type, optionally through an interface variable; 1 and 2 files; own new-name menu: fresh, case-swapped, level, own, in thorough also r1, LEVEL, Bump, TON); kept only if the real compiler accepts them; every identifier token of every file is a rename position; new names = {}. distinct_nontrivial = cases in which rename returned at least one edit, so that the edited project was re-analysed, compiled, executed for 3 cycles and compared (all cases are distinct by construction).", ctx.tier.pick(1, 2), SLOTS.len(), ctx.tier.pick("{fresh q9, x, case-swapped old name, y, z, 1 keyword, 2 invalid}", "{fresh q9, x, X, case-swapped old name, y, z, v, Y, TON, ABS, 4 keywords, 9 invalid}")));
    rep.set("projects_generated", projs.len() as u64);
    rep.set("projects_error_free", usable.len() as u64);
    rep.set("projects_rejected_by_compiler", rejected);
    if let Some(s) = rejected_sample {
        rep.set("rejected_project_sample", s);
    }
    rep.set("rename_positions", items.len() as u64);
    rep.set("accepted", tot.accepted);
    rep.set("refused", tot.refused);
    rep.set("edits_checked", tot.edits);
    rep.set("renames_touching_two_files", tot.multi_file);
    rep.set("renames_with_the_same_byte_range_in_two_files", tot.same_range);
    rep.set("violating_cases", tot.violating_cases);
    rep.set("goto_definition_only_differences_not_reported", tot.binding_only);
    if let Some(b) = tot.binding_only_sample {
        rep.set("goto_definition_only_difference_sample", b);
    }
    rep.set("by_new_name_class_cases_accepted", json!(tot.by_class.iter().map(|(k, v)| (k.clone(), json!([v.0, v.1]))).collect::<serde_json::Map<_, _>>()));
    rep.set("by_inheritance_stratum_cases_executed", json!(tot.by_stratum.iter().map(|(k, v)| (k.clone(), json!([v.0, v.1]))).collect::<serde_json::Map<_, _>>()));
    if exhaustive && tot.by_stratum.get(INH_FORMS[1]).is_none_or(|v| v.1 == 0) {
        return machinery("no rename was executed in the inheritance stratum qualified-base");
    }
    rep.set("by_target_kind_cases_accepted", json!(tot.by_kind.iter().map(|(k, v)| (k.clone(), json!([v.0, v.1]))).collect::<serde_json::Map<_, _>>()));
    rep.set("violation_counts", json!(rep.violation_counts.iter().map(|(k, v)| (k.clone(), json!(v))).collect::<serde_json::Map<_, _>>()));
    rep.set("max_x_slots", ctx.tier.pick(1u64, 2u64));
    rep.set("exhaustive", exhaustive);
    rep.sample(json!({"project_without_x": projs[0].files}));
    if let Some(p) = projs.iter().find(|p| p.spec.layout >= 4 && p.spec.align.is_some()) {
        rep.sample(json!({"twin_project_aligned": ALIGN[p.spec.align.unwrap()], "files": p.files}));
    }
    rep.assume("behaviour is compared on 3 cycles with one input trace (0, 7, -3) driven into the global `inp`; the statement's 'every input trace' is bounded to that");
    rep.assume("binding structure is observed through trust_ide::goto_definition before/after (the IDE's resolution), and through execution (the runtime's resolution)");
    Ok(rep)
}

pub fn workers() -> Vec<(&'static str, WorkerFn)> {
    vec![("c16_run", worker_run as WorkerFn)]
}
