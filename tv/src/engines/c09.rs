//! C09 — restart semantics: warm keeps exactly RETAIN data, cold equals a fresh start, a power
//! cycle through a retain store preserves the same set as a warm restart, and every binding
//! (direct address, access path, task) stays connected across any restart.
//!
//! Core X2: breadth-first search over event histories
//!   {cycle, write %I vector 0/1, restart(Warm), restart(Cold), power-cycle, latch a fault}
//! replayed on the REAL runtime (`TestHarness`), one state = history + reference-model state.
//!
//! The reference model is deliberately small. It knows (a) the declared initial value, the
//! qualifier and the scope of every variable of the generated programs, (b) the one-line update
//! each program applies to each variable per execution, (c) the retain rules of the statement.
//! Everything the statement does not talk about is *adopted* from the implementation instead of
//! predicted: whether a cycle executed (fault latch), whether a task-associated program ran in a
//! cycle (read from that program's own execution counter), the %I/%M image before a cycle.
//! Time, fault latch and task state are only checked *differentially* (cold restart vs. a freshly
//! built runtime on the same continuation), exactly as the statement words it; the cycle counter
//! is not compared at all (the statement does not list it).
//!
//! Bounds: history depth 4 (quick) / 7 (thorough; the design asked for 6; 8 completes in ~2 min on
//! 16 idle cores but comes close to the wall cap on a loaded machine), plus a
//! look-ahead of every continuation "write inputs, cycle, [write through access paths], write
//! inputs, cycle" over 2 input vectors after every history that ends in a restart. Declared
//! initial values are spaced so that they stay pairwise distinct for 10 cycles.
//!
//! Oracle clauses (signature prefix):
//!  * `warm/…`, `cold/…`, `power-cycle/…`   retain model on the variables right after the event
//!  * `power-cycle/set-differs-from-warm/…`  where the statement leaves the reading open, the same
//!    reading must explain the warm restart and the power cycle of one history
//!  * `binding/…`           relational checks on the real state after every executed cycle that
//!    follows a restart: %I image -> bound variable, bound variable -> %Q/%M image, access path
//!    read == variable (and write reaches it), FB instance WITH task runs whenever the program
//!    WITH the same task runs, a program without task runs in every executed cycle
//!  * `cold-vs-fresh/<family>/{vars,outputs,access}` and `cold-vs-fresh/{time,fault-latch,
//!    task-overrun}`    differential clause; variable/output/access differences are not reported
//!    again when the same evaluation already reports a disconnected binding (or a differing
//!    clock / fault latch) that explains them
//!  * `divergence-after-<event>/…`  a variable leaves the model later than right after the restart
//! Anything that disagrees with the model on a runtime that was never restarted is a *machinery*
//! error (the model or the harness is wrong), never a verdict.
//!
//! Readings accepted (never demand more than the statement):
//!  * FB-instance members whose instance or own declaration is RETAIN/PERSISTENT, and unqualified
//!    variables of a `PROGRAM RETAIN` instance: after warm restart / power cycle either the
//!    pre-restart or the initial value is accepted (the statement restricts "RETAIN variable" to
//!    global or program-level; IEC retains whole instances) — but nothing else.
//!  * A VAR_CONFIG instance-specific initial value: after a warm restart either it or the POU's
//!    own initial value is accepted; the cold-vs-fresh differential is strict.
//!  * Value type tags are ignored everywhere (C03's business): integers compare by value.
//!  * The %Q image is compared with a fresh runtime only after the first continuation cycle; the
//!    %I image is environment and never compared.
//! Retain store: a FileRetainStore is configured ONCE when a runtime is created (same path for the
//! whole history, as the launcher does); `power` = save_retain_store() exactly as the resource
//! loop does at stop (no mark_retain_dirty, no re-configuration) -> brand-new runtime from the same
//! sources, store on the SAME path -> load_retain_store(). `operator-write` changes a RETAIN global
//! (through its VAR_ACCESS path) and a program-level RETAIN variable (storage API) without a scan
//! cycle, so that [cycle,power,cold,power] and [cycle,power,operator-write,power] (retained data
//! changed since the last save without any cycle) are inside the quick bound.
//! Families store-explicit / store-every-cycle put every public way of SAVING right after every
//! public way of CHANGING retained data without a scan cycle: `save` (explicit save_retain_store(),
//! = what the resource loop calls at stop), the save half of `power`, the periodic save inside
//! execute_cycle (store interval 0 = every executed cycle), `reboot` (power loss: new process +
//! load without any save) x {cycle, warm, cold, access-path-write, storage-write, mesh-write}. The
//! model keeps the list of moments at which a save must have reached the file; after `power` a
//! retained variable must hold its pre-power value, after `reboot` the last flushed value (or,
//! leniently, the current one). The engine never calls mark_retain_dirty() itself.
//! Families store-reals / store-reals-every-cycle hold retained REAL / LREAL values that change only
//! in the sign of zero (or are NaN) between two saves, by cycle-less writes of {+0.0, -0.0, NaN, 2.5}
//! and by `x := -x;` in a cycle. Reals are compared by BITS everywhere (a retained -0.0 must come
//! back as -0.0); which NaN arithmetic on a NaN yields is adopted. A stale load that differs from
//! the expected value only in the sign of zero gets the feature `real:sign-of-zero`.
//! Family memory also holds RETAIN / PERSISTENT variables located AT %M (global, program-level, bound
//! through VAR_CONFIG): for them the %M image is NOT adopted — the retain model stays in force
//! across the cycle that follows a restart / power cycle (the latch at cycle start must not destroy
//! what was preserved). The finding names the event that left image and variable inconsistent
//! (`<warm|cold|power-cycle>/retained-located-var-lost-at-next-cycle/<kind>`).
//! Left out of the alphabet: `restart_with_retain(Cold)` / the resource loop's
//! "restart then load_retain_store" (whether a cold start with a retain file present must ignore
//! the file is not derivable from the statement); array/struct initialisers (not supported by
//! the compiler); TON/CTU internals (C04).

use crate::fw::*;
use crate::iso::WorkerFn;
use crate::x2;
use serde_json::{json, Value as J};
use std::collections::{BTreeMap, BTreeSet};
use std::hash::{Hash, Hasher};
use std::path::PathBuf;
use std::sync::atomic::{AtomicU64, Ordering};
use std::sync::Mutex;
use std::time::{Duration as StdDuration, Instant};
use trust_runtime::harness::TestHarness;
use trust_runtime::io::{IoAddress, IoTarget};
use trust_runtime::memory::{InstanceId, MemoryLocation};
use trust_runtime::retain::FileRetainStore;
use trust_runtime::value::{Duration, Value, ValueRef};
use trust_runtime::RestartMode;

// ------------------------------------------------------------------------------------------
// model values (type tags deliberately dropped)
// ------------------------------------------------------------------------------------------

#[derive(Clone, Debug)]
enum MVal {
    B(bool),
    I(i128),
    R(f64),
    T(i64),
    S(String),
    A(Vec<(i64, i64)>, Vec<MVal>),
    St(Vec<(String, MVal)>),
    E(String),
    Other(String),
}

/// Equality of reals is equality of BITS: +0.0 and -0.0 are different values (1.0/x tells them
/// apart), a NaN equals itself. f32 values are widened to f64 (exact, keeps the sign of zero).
impl PartialEq for MVal {
    fn eq(&self, o: &MVal) -> bool {
        match (self, o) {
            (MVal::B(a), MVal::B(b)) => a == b,
            (MVal::I(a), MVal::I(b)) => a == b,
            (MVal::R(a), MVal::R(b)) => a.to_bits() == b.to_bits(),
            (MVal::T(a), MVal::T(b)) => a == b,
            (MVal::S(a), MVal::S(b)) => a == b,
            (MVal::A(d1, e1), MVal::A(d2, e2)) => d1 == d2 && e1 == e2,
            (MVal::St(a), MVal::St(b)) => a == b,
            (MVal::E(a), MVal::E(b)) => a == b,
            (MVal::Other(a), MVal::Other(b)) => a == b,
            _ => false,
        }
    }
}

fn is_nan(v: &MVal) -> bool {
    matches!(v, MVal::R(r) if r.is_nan())
}

/// the two values are zeros (or equal numbers) that differ only in the sign bit of zero
fn differs_by_sign_of_zero(a: &MVal, b: &MVal) -> bool {
    matches!((a, b), (MVal::R(x), MVal::R(y)) if *x == 0.0 && *y == 0.0 && x.to_bits() != y.to_bits())
}

fn to_mval(v: &Value) -> MVal {
    match v {
        Value::Bool(b) => MVal::B(*b),
        Value::SInt(x) => MVal::I(*x as i128),
        Value::Int(x) => MVal::I(*x as i128),
        Value::DInt(x) => MVal::I(*x as i128),
        Value::LInt(x) => MVal::I(*x as i128),
        Value::USInt(x) => MVal::I(*x as i128),
        Value::UInt(x) => MVal::I(*x as i128),
        Value::UDInt(x) => MVal::I(*x as i128),
        Value::ULInt(x) => MVal::I(*x as i128),
        Value::Byte(x) => MVal::I(*x as i128),
        Value::Word(x) => MVal::I(*x as i128),
        Value::DWord(x) => MVal::I(*x as i128),
        Value::LWord(x) => MVal::I(*x as i128),
        Value::Real(x) => MVal::R(*x as f64),
        Value::LReal(x) => MVal::R(*x),
        Value::Time(d) | Value::LTime(d) => MVal::T(d.as_nanos()),
        Value::String(s) => MVal::S(s.to_string()),
        Value::WString(s) => MVal::S(s.clone()),
        Value::Array(a) => MVal::A(a.dimensions.clone(), a.elements.iter().map(to_mval).collect()),
        Value::Struct(s) => {
            let mut f: Vec<(String, MVal)> =
                s.fields.iter().map(|(k, v)| (k.to_string(), to_mval(v))).collect();
            f.sort_by(|a, b| a.0.cmp(&b.0));
            MVal::St(f)
        }
        Value::Enum(e) => MVal::E(e.variant_name.to_string()),
        other => MVal::Other(format!("{other:?}")),
    }
}

fn show(v: &MVal) -> String {
    match v {
        MVal::B(b) => format!("{b}"),
        MVal::I(i) => format!("{i}"),
        MVal::R(r) if *r == 0.0 || r.is_nan() => format!("{r:?}/0x{:016x}", r.to_bits()),
        MVal::R(r) => format!("{r}"),
        MVal::T(t) => format!("T#{}ms", t / 1_000_000),
        MVal::S(s) => format!("'{s}'"),
        MVal::A(_, e) => format!("[{}]", e.iter().map(show).collect::<Vec<_>>().join(",")),
        MVal::St(f) => format!(
            "({})",
            f.iter().map(|(k, v)| format!("{k}:={}", show(v))).collect::<Vec<_>>().join(",")
        ),
        MVal::E(e) => e.clone(),
        MVal::Other(o) => o.clone(),
    }
}

#[derive(Clone, Copy, PartialEq, Eq, Debug, PartialOrd, Ord)]
enum Qual {
    None,
    Retain,
    NonRetain,
    Persistent,
}

impl Qual {
    fn kw(self) -> &'static str {
        match self {
            Qual::None => "",
            Qual::Retain => " RETAIN",
            Qual::NonRetain => " NON_RETAIN",
            Qual::Persistent => " PERSISTENT",
        }
    }
    fn tag(self) -> &'static str {
        match self {
            Qual::None => "none",
            Qual::Retain => "RETAIN",
            Qual::NonRetain => "NON_RETAIN",
            Qual::Persistent => "PERSISTENT",
        }
    }
    fn short(self) -> &'static str {
        match self {
            Qual::None => "u",
            Qual::Retain => "r",
            Qual::NonRetain => "n",
            Qual::Persistent => "p",
        }
    }
    fn retains(self) -> bool {
        matches!(self, Qual::Retain | Qual::Persistent)
    }
}

#[derive(Clone, Copy, PartialEq, Eq, Debug, PartialOrd, Ord)]
enum Ty {
    Bool,
    Int,
    Real,
    Time,
    Str,
    Arr,
    Struct,
    Enum,
    /// only used by the store-reals families (not part of the matrix)
    LReal,
}

const ALL_TY: [Ty; 8] = [Ty::Bool, Ty::Int, Ty::Real, Ty::Time, Ty::Str, Ty::Arr, Ty::Struct, Ty::Enum];
const ENUM_VARIANTS: [&str; 3] = ["Red", "Green", "Blue"];

impl Ty {
    fn tag(self) -> &'static str {
        match self {
            Ty::Bool => "BOOL",
            Ty::Int => "INT",
            Ty::Real => "REAL",
            Ty::Time => "TIME",
            Ty::Str => "STRING",
            Ty::Arr => "ARRAY",
            Ty::Struct => "STRUCT",
            Ty::Enum => "ENUM",
            Ty::LReal => "LREAL",
        }
    }
    fn short(self) -> &'static str {
        match self {
            Ty::Bool => "bool",
            Ty::Int => "int",
            Ty::Real => "real",
            Ty::Time => "time",
            Ty::Str => "str",
            Ty::Arr => "arr",
            Ty::Struct => "pt",
            Ty::Enum => "col",
            Ty::LReal => "lreal",
        }
    }
    fn decl(self) -> &'static str {
        match self {
            Ty::Bool => "BOOL",
            Ty::Int => "INT",
            Ty::Real => "REAL",
            Ty::Time => "TIME",
            Ty::Str => "STRING",
            Ty::Arr => "ARRAY[0..1] OF INT",
            Ty::Struct => "Pt",
            Ty::Enum => "Color",
            Ty::LReal => "LREAL",
        }
    }
    /// (initial value, initialiser text) — distinct per `idx` wherever the type allows, so that
    /// a value restored into the wrong variable is visible.
    fn init(self, idx: usize) -> (MVal, String) {
        match self {
            Ty::Bool => {
                let b = idx % 2 == 0;
                (MVal::B(b), format!(" := {}", if b { "TRUE" } else { "FALSE" }))
            }
            Ty::Int => {
                let n = 100 + 20 * idx as i128;
                (MVal::I(n), format!(" := {n}"))
            }
            Ty::Real | Ty::LReal => {
                let r = idx as f64 * 8.0 + 0.25;
                (MVal::R(r), format!(" := {r:.2}"))
            }
            Ty::Time => {
                let s = idx as i64 * 20;
                (MVal::T(s * 1_000_000_000), format!(" := T#{s}s"))
            }
            Ty::Str => {
                let s = format!("s{idx}q");
                (MVal::S(s.clone()), format!(" := '{s}'"))
            }
            Ty::Arr => (MVal::A(vec![(0, 1)], vec![MVal::I(0), MVal::I(0)]), String::new()),
            Ty::Struct => (
                MVal::St(vec![("a".into(), MVal::I(0)), ("b".into(), MVal::B(false))]),
                String::new(),
            ),
            Ty::Enum => {
                let v = ENUM_VARIANTS[idx % 3];
                (MVal::E(v.into()), format!(" := Color#{v}"))
            }
        }
    }
    /// the statement(s) that change variable `n` on every execution of its POU
    fn step_stmt(self, n: &str) -> String {
        match self {
            Ty::Bool => format!("{n} := NOT {n};"),
            Ty::Int => format!("{n} := {n} + 1;"),
            Ty::Real | Ty::LReal => format!("{n} := {n} + 0.5;"),
            Ty::Time => format!("{n} := ADD_TIME({n}, T#1s);"),
            Ty::Str => format!("{n} := CONCAT({n}, 'x');"),
            Ty::Arr => format!("{n}[0] := {n}[0] + 1; {n}[1] := {n}[1] + 2;"),
            Ty::Struct => format!("{n}.a := {n}.a + 1; {n}.b := NOT {n}.b;"),
            Ty::Enum => format!(
                "IF {n} = Color#Red THEN {n} := Color#Green; ELSIF {n} = Color#Green THEN {n} := Color#Blue; ELSE {n} := Color#Red; END_IF;"
            ),
        }
    }
}

/// the reference semantics of `step_stmt`
fn step(v: &MVal) -> MVal {
    match v {
        MVal::B(b) => MVal::B(!b),
        MVal::I(i) => MVal::I(i + 1),
        MVal::R(r) => MVal::R(r + 0.5),
        MVal::T(t) => MVal::T(t + 1_000_000_000),
        MVal::S(s) => MVal::S(format!("{s}x")),
        MVal::A(d, e) => {
            let mut e = e.clone();
            for (k, x) in e.iter_mut().enumerate() {
                if let MVal::I(i) = x {
                    *i += k as i128 + 1;
                }
            }
            MVal::A(d.clone(), e)
        }
        MVal::St(f) => MVal::St(f.iter().map(|(k, v)| (k.clone(), step(v))).collect()),
        MVal::E(e) => {
            let i = ENUM_VARIANTS.iter().position(|x| x == e).unwrap_or(0);
            MVal::E(ENUM_VARIANTS[(i + 1) % 3].into())
        }
        MVal::Other(o) => MVal::Other(o.clone()),
    }
}

const TYPE_DECLS: &str = "TYPE\n    Color : (Red, Green, Blue);\n    Pt : STRUCT\n        a : INT;\n        b : BOOL;\n    END_STRUCT;\nEND_TYPE\n";

// ------------------------------------------------------------------------------------------
// program families
// ------------------------------------------------------------------------------------------

#[derive(Clone, Copy, PartialEq, Eq, Debug)]
enum Class {
    /// RETAIN/PERSISTENT, global or program-level: survives warm restart and power cycle
    Keep,
    /// everything else the statement is clear about: declared initial value
    Reset,
    /// FB members under a RETAIN declaration, unqualified vars of a PROGRAM RETAIN instance
    Ambiguous,
}

#[derive(Clone, Debug)]
enum Upd {
    /// never written by a program (input-bound)
    Keep,
    Step,
    CopyOf(String),
    NotOf(String),
    IncOf(String),
    /// `x := -x;`
    Neg,
}

#[derive(Clone, Debug)]
struct VarSpec {
    path: String,
    class: Class,
    /// part of the qualifier x scope x type matrix (aggregated signatures)
    matrix: bool,
    /// "global" | "program" | "fbm"
    coarse: &'static str,
    /// cfg | res | pgl | prog | tprog | cfgprog | fbm[global:RETAIN] ...
    scope: String,
    qual: Qual,
    ty: Ty,
    init: MVal,
    alt_init: Option<MVal>,
    upd: Upd,
    /// execution unit that updates it (usize::MAX: none)
    unit: usize,
    in_addr: Option<String>,
    out_addr: Option<String>,
    mem_addr: Option<String>,
    /// binding kind a post-restart divergence of this variable is attributed to
    bind_kind: Option<String>,
}

impl VarSpec {
    fn feature(&self) -> String {
        format!("{}:{}:{}", self.scope, self.qual.tag(), self.ty.tag())
    }
}

#[derive(Clone, Debug)]
struct Unit {
    name: String,
    /// path of the unit's own execution counter
    observer: Option<String>,
    /// runs exactly when that unit runs (FB instance associated with the same task)
    follows: Option<usize>,
    /// a program without task association: executes in every cycle the resource executes
    always: bool,
}

#[derive(Clone, Copy, PartialEq, Eq, Hash, Debug)]
enum Ev {
    Cycle,
    Write(u8),
    Warm,
    Cold,
    Power,
    Fault,
    /// only used inside continuations: write a sentinel through every READ_WRITE access path
    AccessWrite,
    /// operator write: a recognisable value is put into a RETAIN global (through its VAR_ACCESS
    /// path) and into a program-level RETAIN variable (storage API) WITHOUT a scan cycle
    OpWrite,
    /// explicit `Runtime::save_retain_store()` (what the resource loop calls at stop and what tools
    /// call), without a power cycle
    Save,
    /// power loss: brand-new runtime on the same retain file + load, WITHOUT a save of the old one
    Reboot,
    /// write a recognisable value into retained (and one non-retained) variables without a scan
    /// cycle, through one public path: 0 = VAR_ACCESS (`write_access`), 1 = storage API
    /// (`storage_mut().set_global/set_instance_var`), 2 = mesh update (`apply_mesh_updates`)
    WriteVia(u8),
    /// store-reals families: write value k (0: +0.0, 1: -0.0, 2: NaN, 3: 2.5) into every retained
    /// real without a scan cycle — the REAL global through its VAR_ACCESS path, the LREAL global as
    /// a mesh update, the program-level REAL through the storage API
    RealWrite(u8),
}

impl Ev {
    fn name(self) -> String {
        match self {
            Ev::Cycle => "cycle".into(),
            Ev::Write(k) => format!("write{k}"),
            Ev::Warm => "warm".into(),
            Ev::Cold => "cold".into(),
            Ev::Power => "power".into(),
            Ev::Fault => "fault".into(),
            Ev::AccessWrite => "access-write".into(),
            Ev::OpWrite => "operator-write".into(),
            Ev::Save => "save".into(),
            Ev::Reboot => "reboot".into(),
            Ev::WriteVia(0) => "access-path-write".into(),
            Ev::WriteVia(1) => "storage-write".into(),
            Ev::WriteVia(_) => "mesh-write".into(),
            Ev::RealWrite(0) => "real-write:+0".into(),
            Ev::RealWrite(1) => "real-write:-0".into(),
            Ev::RealWrite(2) => "real-write:nan".into(),
            Ev::RealWrite(_) => "real-write:2.5".into(),
        }
    }
    fn parse(s: &str) -> Option<Ev> {
        Some(match s {
            "cycle" => Ev::Cycle,
            "write0" => Ev::Write(0),
            "write1" => Ev::Write(1),
            "warm" => Ev::Warm,
            "cold" => Ev::Cold,
            "power" => Ev::Power,
            "fault" => Ev::Fault,
            "access-write" => Ev::AccessWrite,
            "operator-write" => Ev::OpWrite,
            "save" => Ev::Save,
            "reboot" => Ev::Reboot,
            "access-path-write" => Ev::WriteVia(0),
            "storage-write" => Ev::WriteVia(1),
            "mesh-write" => Ev::WriteVia(2),
            "real-write:+0" => Ev::RealWrite(0),
            "real-write:-0" => Ev::RealWrite(1),
            "real-write:nan" => Ev::RealWrite(2),
            "real-write:2.5" => Ev::RealWrite(3),
            _ => return None,
        })
    }
    fn is_restart(self) -> bool {
        matches!(self, Ev::Warm | Ev::Cold)
    }
}

fn hist_json(h: &[Ev]) -> J {
    J::Array(h.iter().map(|e| J::String(e.name())).collect())
}

struct Family {
    name: &'static str,
    source: String,
    vars: Vec<VarSpec>,
    units: Vec<Unit>,
    in_bits: Vec<String>,
    in_words: Vec<String>,
    tasks: Vec<String>,
    /// (access name, target variable path, binding kind)
    access: Vec<(String, String, String)>,
    /// operator-write targets: (variable path, access path to write through | None = storage API)
    op_writes: Vec<(String, Option<String>)>,
    /// targets of `WriteVia(k)`: (k, variable path, access name for k = 0, value)
    via_writes: Vec<(u8, String, Option<String>, i16)>,
    /// save interval the retain store is configured with (ms); 0 = the periodic save inside
    /// execute_cycle fires in every executed cycle, 1000 = it never fires within the bound
    store_interval_ms: i64,
    /// history depth (quick, thorough) if different from the engine default
    depth: Option<(usize, usize)>,
    events: Vec<Ev>,
}

impl Family {
    fn has_inputs(&self) -> bool {
        !self.in_bits.is_empty() || !self.in_words.is_empty()
    }
    /// the continuations ("2 cycles with inputs") explored after every restart
    fn continuations(&self) -> Vec<Vec<Ev>> {
        if !self.has_inputs() {
            return vec![vec![Ev::Cycle, Ev::Cycle]];
        }
        let mut out = Vec::new();
        for k1 in 0..2u8 {
            for k2 in 0..2u8 {
                let mut t = vec![Ev::Write(k1), Ev::Cycle];
                if !self.access.is_empty() {
                    t.push(Ev::AccessWrite);
                }
                t.push(Ev::Write(k2));
                t.push(Ev::Cycle);
                out.push(t);
            }
        }
        out
    }
}

fn plain(
    path: String,
    class: Class,
    coarse: &'static str,
    scope: &str,
    qual: Qual,
    ty: Ty,
    init: MVal,
    unit: usize,
) -> VarSpec {
    VarSpec {
        path,
        class,
        matrix: true,
        coarse,
        scope: scope.to_string(),
        qual,
        ty,
        init,
        alt_init: None,
        upd: Upd::Step,
        unit,
        in_addr: None,
        out_addr: None,
        mem_addr: None,
        bind_kind: None,
    }
}

fn special(path: &str, coarse: &'static str, scope: &str, ty: Ty, init: MVal, upd: Upd, unit: usize) -> VarSpec {
    VarSpec {
        path: path.to_string(),
        class: Class::Reset,
        matrix: true,
        coarse,
        scope: scope.to_string(),
        qual: Qual::None,
        ty,
        init,
        alt_init: None,
        upd,
        unit,
        in_addr: None,
        out_addr: None,
        mem_addr: None,
        bind_kind: None,
    }
}

const QUALS_ALL: [Qual; 4] = [Qual::None, Qual::Retain, Qual::NonRetain, Qual::Persistent];

/// F "matrix": qualifier x scope x type, every variable changed on every execution of its POU,
/// only GLOBAL direct-address bindings (which refer to globals by index and are expected to
/// survive restarts), a periodic task program and a PROGRAM RETAIN instance.
fn family_matrix(quals: &[Qual]) -> Family {
    let mut vars: Vec<VarSpec> = Vec::new();
    let mut idx = 0usize;
    let mut next = |ty: Ty| {
        idx += 1;
        ty.init(idx)
    };
    let mut src = String::from(TYPE_DECLS);

    // FB type: members of every qualifier
    let fb_tys = [Ty::Int, Ty::Arr];
    let mut fb_members: Vec<(String, Qual, Ty, MVal)> = Vec::new();
    src.push_str("\nFUNCTION_BLOCK Acc\n");
    let mut fb_body = String::new();
    for &q in quals {
        src.push_str(&format!("VAR{}\n", q.kw()));
        for ty in fb_tys {
            let n = format!("m_{}_{}", q.short(), ty.short());
            let (iv, it) = next(ty);
            src.push_str(&format!("    {n} : {}{it};\n", ty.decl()));
            fb_body.push_str(&format!("{}\n", ty.step_stmt(&n)));
            fb_members.push((n, q, ty, iv));
        }
        src.push_str("END_VAR\n");
    }
    src.push_str(&fb_body);
    src.push_str("END_FUNCTION_BLOCK\n");

    let mut externals = String::new();
    let mut main_body = String::new();

    // configuration-level globals: full matrix
    src.push_str("\nCONFIGURATION Conf\n");
    for &q in quals {
        src.push_str(&format!("VAR_GLOBAL{}\n", q.kw()));
        for ty in ALL_TY {
            let n = format!("cfg_{}_{}", q.short(), ty.short());
            let (iv, it) = next(ty);
            src.push_str(&format!("    {n} : {}{it};\n", ty.decl()));
            externals.push_str(&format!("    {n} : {};\n", ty.decl()));
            main_body.push_str(&format!("{}\n", ty.step_stmt(&n)));
            let class = if q.retains() { Class::Keep } else { Class::Reset };
            vars.push(plain(n, class, "global", "cfg", q, ty, iv, 0));
        }
        src.push_str("END_VAR\n");
    }
    // global direct-address bindings and global FB instances
    src.push_str("VAR_GLOBAL\n    gi0 AT %IX0.0 : BOOL;\n    gi1 AT %IX0.1 : BOOL;\n    giw AT %IW2 : INT;\n    gq0 AT %QX0.0 : BOOL;\n    gq1 AT %QX0.1 : BOOL;\n    gqw AT %QW2 : INT;\n    gfb_u : Acc;\nEND_VAR\nVAR_GLOBAL RETAIN\n    gfb_r : Acc;\nEND_VAR\n");
    externals.push_str("    gi0 : BOOL;\n    gi1 : BOOL;\n    giw : INT;\n    gq0 : BOOL;\n    gq1 : BOOL;\n    gqw : INT;\n    gfb_u : Acc;\n    gfb_r : Acc;\n");
    main_body.push_str("gq0 := gi0;\ngq1 := NOT gi1;\ngqw := giw + 1;\ngfb_u();\ngfb_r();\n");
    let kind = "io:global-var";
    for (n, ty, addr) in [("gi0", Ty::Bool, "%IX0.0"), ("gi1", Ty::Bool, "%IX0.1"), ("giw", Ty::Int, "%IW2")] {
        let init = if ty == Ty::Bool { MVal::B(false) } else { MVal::I(0) };
        let mut v = special(n, "global", "cfg@%I", ty, init, Upd::Keep, usize::MAX);
        v.in_addr = Some(addr.into());
        v.bind_kind = Some(kind.into());
        vars.push(v);
    }
    for (n, ty, addr, upd) in [
        ("gq0", Ty::Bool, "%QX0.0", Upd::CopyOf("gi0".into())),
        ("gq1", Ty::Bool, "%QX0.1", Upd::NotOf("gi1".into())),
        ("gqw", Ty::Int, "%QW2", Upd::IncOf("giw".into())),
    ] {
        let init = if ty == Ty::Bool { MVal::B(false) } else { MVal::I(0) };
        let mut v = special(n, "global", "cfg@%Q", ty, init, upd, 0);
        v.out_addr = Some(addr.into());
        v.bind_kind = Some(kind.into());
        vars.push(v);
    }
    let fb_instance = |vars: &mut Vec<VarSpec>, prefix: &str, where_: &str, iq: Qual, unit: usize| {
        for (n, q, ty, iv) in &fb_members {
            let class = if iq.retains() || q.retains() { Class::Ambiguous } else { Class::Reset };
            let scope = format!("fbm[{where_}:{}]", iq.tag());
            vars.push(plain(format!("{prefix}.{n}"), class, "fbm", &scope, *q, *ty, iv.clone(), unit));
        }
    };
    fb_instance(&mut vars, "gfb_u", "global", Qual::None, 0);
    fb_instance(&mut vars, "gfb_r", "global", Qual::Retain, 0);

    // resource-level globals
    src.push_str("RESOURCE Res ON CPU\n");
    for &q in quals {
        src.push_str(&format!("VAR_GLOBAL{}\n", q.kw()));
        for ty in [Ty::Int, Ty::Str] {
            let n = format!("res_{}_{}", q.short(), ty.short());
            let (iv, it) = next(ty);
            src.push_str(&format!("    {n} : {}{it};\n", ty.decl()));
            externals.push_str(&format!("    {n} : {};\n", ty.decl()));
            main_body.push_str(&format!("{}\n", ty.step_stmt(&n)));
            let class = if q.retains() { Class::Keep } else { Class::Reset };
            vars.push(plain(n, class, "global", "res", q, ty, iv, 0));
        }
        src.push_str("END_VAR\n");
    }
    src.push_str("TASK T20 (INTERVAL := T#20ms, PRIORITY := 1);\nPROGRAM P1 : Main;\nPROGRAM P2 WITH T20 : Tick;\nPROGRAM RETAIN P3 : Aux;\nEND_RESOURCE\nVAR_ACCESS\n    A_cr : cfg_r_int : INT READ_WRITE;\nEND_VAR\nEND_CONFIGURATION\n");

    // PROGRAM Main
    src.push_str("\nPROGRAM Main\n");
    for &q in quals {
        src.push_str(&format!("VAR_GLOBAL{}\n", q.kw()));
        for ty in [Ty::Int, Ty::Arr] {
            let n = format!("pgl_{}_{}", q.short(), ty.short());
            let (iv, it) = next(ty);
            src.push_str(&format!("    {n} : {}{it};\n", ty.decl()));
            main_body.push_str(&format!("{}\n", ty.step_stmt(&n)));
            let class = if q.retains() { Class::Keep } else { Class::Reset };
            vars.push(plain(n, class, "global", "pgl", q, ty, iv, 0));
        }
        src.push_str("END_VAR\n");
    }
    src.push_str("VAR_EXTERNAL\n");
    src.push_str(&externals);
    src.push_str("END_VAR\n");
    for &q in quals {
        src.push_str(&format!("VAR{}\n", q.kw()));
        for ty in ALL_TY {
            let n = format!("pr_{}_{}", q.short(), ty.short());
            let (iv, it) = next(ty);
            src.push_str(&format!("    {n} : {}{it};\n", ty.decl()));
            main_body.push_str(&format!("{}\n", ty.step_stmt(&n)));
            let class = if q.retains() { Class::Keep } else { Class::Reset };
            vars.push(plain(format!("P1.{n}"), class, "program", "prog", q, ty, iv, 0));
        }
        src.push_str("END_VAR\n");
    }
    src.push_str("VAR\n    pfb_u : Acc;\n    obs_main : INT;\nEND_VAR\nVAR RETAIN\n    pfb_r : Acc;\nEND_VAR\nVAR NON_RETAIN\n    pfb_n : Acc;\nEND_VAR\n");
    main_body.push_str("pfb_u();\npfb_r();\npfb_n();\nobs_main := obs_main + 1;\n");
    fb_instance(&mut vars, "P1.pfb_u", "prog", Qual::None, 0);
    fb_instance(&mut vars, "P1.pfb_r", "prog", Qual::Retain, 0);
    fb_instance(&mut vars, "P1.pfb_n", "prog", Qual::NonRetain, 0);
    vars.push(special("P1.obs_main", "program", "prog", Ty::Int, MVal::I(0), Upd::Step, 0));
    src.push_str(&main_body);
    src.push_str("END_PROGRAM\n");

    // PROGRAM Tick (task-associated, every second cycle)
    src.push_str("\nPROGRAM Tick\n");
    let mut body = String::new();
    for &q in quals {
        src.push_str(&format!("VAR{}\n", q.kw()));
        for ty in [Ty::Int, Ty::Struct, Ty::Time] {
            let n = format!("tk_{}_{}", q.short(), ty.short());
            let (iv, it) = next(ty);
            src.push_str(&format!("    {n} : {}{it};\n", ty.decl()));
            body.push_str(&format!("{}\n", ty.step_stmt(&n)));
            let class = if q.retains() { Class::Keep } else { Class::Reset };
            vars.push(plain(format!("P2.{n}"), class, "program", "tprog", q, ty, iv, 1));
        }
        src.push_str("END_VAR\n");
    }
    src.push_str("VAR\n    obs_tick : INT;\nEND_VAR\n");
    body.push_str("obs_tick := obs_tick + 1;\n");
    vars.push(special("P2.obs_tick", "program", "tprog", Ty::Int, MVal::I(0), Upd::Step, 1));
    src.push_str(&body);
    src.push_str("END_PROGRAM\n");

    // PROGRAM Aux, instantiated as PROGRAM RETAIN P3
    src.push_str("\nPROGRAM Aux\n");
    let mut body = String::new();
    for &q in quals {
        src.push_str(&format!("VAR{}\n", q.kw()));
        for ty in [Ty::Int, Ty::Str] {
            let n = format!("au_{}_{}", q.short(), ty.short());
            let (iv, it) = next(ty);
            src.push_str(&format!("    {n} : {}{it};\n", ty.decl()));
            body.push_str(&format!("{}\n", ty.step_stmt(&n)));
            let class = match q {
                Qual::Retain | Qual::Persistent => Class::Keep,
                Qual::NonRetain => Class::Reset,
                Qual::None => Class::Ambiguous,
            };
            vars.push(plain(format!("P3.{n}"), class, "program", "cfgprog", q, ty, iv, 2));
        }
        src.push_str("END_VAR\n");
    }
    src.push_str("VAR NON_RETAIN\n    obs_aux : INT;\nEND_VAR\n");
    body.push_str("obs_aux := obs_aux + 1;\n");
    let mut o = special("P3.obs_aux", "program", "cfgprog", Ty::Int, MVal::I(0), Upd::Step, 2);
    o.qual = Qual::NonRetain;
    vars.push(o);
    src.push_str(&body);
    src.push_str("END_PROGRAM\n");

    Family {
        name: "matrix",
        source: src,
        vars,
        units: vec![
            Unit { name: "P1:Main".into(), observer: Some("P1.obs_main".into()), follows: None, always: true },
            Unit { name: "P2:Tick WITH T20".into(), observer: Some("P2.obs_tick".into()), follows: None, always: false },
            Unit { name: "P3:Aux (PROGRAM RETAIN)".into(), observer: Some("P3.obs_aux".into()), follows: None, always: true },
        ],
        in_bits: vec!["%IX0.0".into(), "%IX0.1".into()],
        in_words: vec!["%IW2".into()],
        tasks: vec!["T20".into()],
        access: vec![("A_cr".into(), "cfg_r_int".into(), "access:global-var".into())],
        op_writes: vec![("cfg_r_int".into(), Some("A_cr".into())), ("P1.pr_r_int".into(), None)],
        via_writes: vec![],
        store_interval_ms: 1000,
        depth: None,
        events: vec![Ev::Cycle, Ev::Write(0), Ev::Write(1), Ev::Warm, Ev::Cold, Ev::Power, Ev::Fault, Ev::OpWrite],
    }
}

/// F "bindings": the stratum that exercises references into program / FB instances — program-level
/// and FB-member `AT %I/%Q`, a wildcard located by VAR_CONFIG, VAR_ACCESS paths, a program and an
/// FB instance associated with the same task.
fn family_bindings() -> Family {
    let src = r#"FUNCTION_BLOCK IoFb
VAR
    fin AT %IX1.0 : BOOL;
    fout AT %QX1.0 : BOOL;
    n : INT;
END_VAR
fout := fin;
n := n + 1;
END_FUNCTION_BLOCK

FUNCTION_BLOCK TaskFb
VAR
    k : INT := 0;
END_VAR
k := k + 1;
END_FUNCTION_BLOCK

PROGRAM Main
VAR_EXTERNAL
    gin : BOOL;
    gout : BOOL;
    gc : INT;
END_VAR
VAR
    pin AT %IX0.0 : BOOL;
    pout AT %QX0.0 : BOOL;
    piw AT %IW2 : INT;
    pqw AT %QW2 : INT;
    wq AT %Q* : BOOL;
    av : INT := 5;
    obs_main : INT;
    iofb : IoFb;
    tfb : TaskFb;
END_VAR
pout := pin;
pqw := piw + 1;
wq := NOT pin;
av := av + 1;
gout := gin;
gc := gc + 1;
iofb();
obs_main := obs_main + 1;
END_PROGRAM

PROGRAM Tick
VAR
    tc : INT;
    obs_tick : INT;
END_VAR
tc := tc + 1;
obs_tick := obs_tick + 1;
END_PROGRAM

CONFIGURATION Conf
VAR_GLOBAL
    gin AT %IX0.1 : BOOL;
    gout AT %QX0.1 : BOOL;
    gc : INT := 9;
END_VAR
RESOURCE Res ON CPU
TASK T10 (INTERVAL := T#10ms, PRIORITY := 1);
PROGRAM P1 : Main (tfb WITH T10);
PROGRAM P2 WITH T10 : Tick;
END_RESOURCE
VAR_ACCESS
    A_av : P1.av : INT READ_WRITE;
    A_gc : gc : INT READ_WRITE;
END_VAR
VAR_CONFIG
    P1.wq AT %QX0.2 : BOOL;
END_VAR
END_CONFIGURATION
"#;
    let b = |x: bool| MVal::B(x);
    let mut vars = Vec::new();
    let mut add = |path: &str, coarse: &'static str, scope: &str, ty: Ty, init: MVal, upd: Upd, unit: usize, ia: Option<&str>, oa: Option<&str>, kind: Option<&str>| {
        let mut v = special(path, coarse, scope, ty, init, upd, unit);
        v.in_addr = ia.map(String::from);
        v.out_addr = oa.map(String::from);
        v.bind_kind = kind.map(String::from);
        vars.push(v);
    };
    add("gin", "global", "cfg@%I", Ty::Bool, b(false), Upd::Keep, usize::MAX, Some("%IX0.1"), None, Some("io:global-var"));
    add("gout", "global", "cfg@%Q", Ty::Bool, b(false), Upd::CopyOf("gin".into()), 0, None, Some("%QX0.1"), Some("io:global-var"));
    add("gc", "global", "cfg@access", Ty::Int, MVal::I(9), Upd::Step, 0, None, None, Some("access:global-var"));
    add("P1.pin", "program", "prog@%I", Ty::Bool, b(false), Upd::Keep, usize::MAX, Some("%IX0.0"), None, Some("io:program-var"));
    add("P1.pout", "program", "prog@%Q", Ty::Bool, b(false), Upd::CopyOf("P1.pin".into()), 0, None, Some("%QX0.0"), Some("io:program-var"));
    add("P1.piw", "program", "prog@%I", Ty::Int, MVal::I(0), Upd::Keep, usize::MAX, Some("%IW2"), None, Some("io:program-var"));
    add("P1.pqw", "program", "prog@%Q", Ty::Int, MVal::I(0), Upd::IncOf("P1.piw".into()), 0, None, Some("%QW2"), Some("io:program-var"));
    add("P1.wq", "program", "prog@var-config", Ty::Bool, b(false), Upd::NotOf("P1.pin".into()), 0, None, Some("%QX0.2"), Some("io:var-config"));
    add("P1.av", "program", "prog@access", Ty::Int, MVal::I(5), Upd::Step, 0, None, None, Some("access:program-var"));
    add("P1.obs_main", "program", "prog", Ty::Int, MVal::I(0), Upd::Step, 0, None, None, None);
    add("P1.iofb.fin", "fbm", "fbm@%I", Ty::Bool, b(false), Upd::Keep, usize::MAX, Some("%IX1.0"), None, Some("io:fb-member"));
    add("P1.iofb.fout", "fbm", "fbm@%Q", Ty::Bool, b(false), Upd::CopyOf("P1.iofb.fin".into()), 0, None, Some("%QX1.0"), Some("io:fb-member"));
    add("P1.iofb.n", "fbm", "fbm", Ty::Int, MVal::I(0), Upd::Step, 0, None, None, None);
    add("P1.tfb.k", "fbm", "fbm@task", Ty::Int, MVal::I(0), Upd::Step, 2, None, None, Some("task-fb"));
    add("P2.tc", "program", "tprog", Ty::Int, MVal::I(0), Upd::Step, 1, None, None, None);
    add("P2.obs_tick", "program", "tprog", Ty::Int, MVal::I(0), Upd::Step, 1, None, None, None);
    Family {
        name: "bindings",
        source: src.to_string(),
        vars,
        units: vec![
            Unit { name: "P1:Main".into(), observer: Some("P1.obs_main".into()), follows: None, always: true },
            Unit { name: "P2:Tick WITH T10".into(), observer: Some("P2.obs_tick".into()), follows: None, always: false },
            Unit { name: "P1.tfb WITH T10".into(), observer: None, follows: Some(1), always: false },
        ],
        in_bits: vec!["%IX0.0".into(), "%IX0.1".into(), "%IX1.0".into()],
        in_words: vec!["%IW2".into()],
        tasks: vec!["T10".into()],
        access: vec![
            ("A_av".into(), "P1.av".into(), "access:program-var".into()),
            ("A_gc".into(), "gc".into(), "access:global-var".into()),
        ],
        op_writes: vec![],
        via_writes: vec![],
        store_interval_ms: 1000,
        depth: None,
        events: vec![Ev::Cycle, Ev::Write(0), Ev::Write(1), Ev::Warm, Ev::Cold, Ev::Power, Ev::Fault],
    }
}

/// F "config-init": instance-specific initial values given in VAR_CONFIG.
fn family_config_init() -> Family {
    let src = r#"PROGRAM Main
VAR
    x : INT := 5;
    y : INT := 6;
    obs_main : INT;
END_VAR
VAR RETAIN
    z : INT := 7;
END_VAR
x := x + 1;
y := y + 1;
z := z + 1;
obs_main := obs_main + 1;
END_PROGRAM

CONFIGURATION Conf
PROGRAM P1 : Main;
VAR_CONFIG
    P1.x : INT := 42;
    P1.z : INT := 43;
END_VAR
END_CONFIGURATION
"#;
    let mut vars = Vec::new();
    let mut x = special("P1.x", "program", "prog+var-config-init", Ty::Int, MVal::I(42), Upd::Step, 0);
    x.alt_init = Some(MVal::I(5));
    x.matrix = false;
    vars.push(x);
    vars.push(special("P1.y", "program", "prog", Ty::Int, MVal::I(6), Upd::Step, 0));
    let mut z = special("P1.z", "program", "prog+var-config-init", Ty::Int, MVal::I(43), Upd::Step, 0);
    z.alt_init = Some(MVal::I(7));
    z.matrix = false;
    z.class = Class::Keep;
    z.qual = Qual::Retain;
    vars.push(z);
    vars.push(special("P1.obs_main", "program", "prog", Ty::Int, MVal::I(0), Upd::Step, 0));
    Family {
        name: "config-init",
        source: src.to_string(),
        vars,
        units: vec![Unit { name: "P1:Main".into(), observer: Some("P1.obs_main".into()), follows: None, always: true }],
        in_bits: vec![],
        in_words: vec![],
        tasks: vec![],
        access: vec![],
        op_writes: vec![],
        via_writes: vec![],
        store_interval_ms: 1000,
        depth: None,
        // no power cycle here: the loss of program-level RETAIN in a power cycle is the matrix family's finding
        events: vec![Ev::Cycle, Ev::Warm, Ev::Cold],
    }
}

/// F "single": an event task whose SINGLE variable is initialised TRUE and toggled by a program
/// (task state `last_single` is seeded from the variable when the task is registered).
fn family_single() -> Family {
    let src = r#"CONFIGURATION Conf
VAR_GLOBAL
    trig : BOOL := TRUE;
END_VAR
TASK Ev (SINGLE := trig, PRIORITY := 1);
PROGRAM P1 WITH Ev : OnEv;
PROGRAM P2 : Main;
END_CONFIGURATION

PROGRAM OnEv
VAR
    n : INT;
    obs_ev : INT;
END_VAR
n := n + 1;
obs_ev := obs_ev + 1;
END_PROGRAM

PROGRAM Main
VAR_EXTERNAL
    trig : BOOL;
END_VAR
VAR
    m : INT;
    obs_main : INT;
END_VAR
m := m + 1;
trig := NOT trig;
obs_main := obs_main + 1;
END_PROGRAM
"#;
    let vars = vec![
        special("trig", "global", "cfg@single", Ty::Bool, MVal::B(true), Upd::Step, 1),
        special("P1.n", "program", "tprog", Ty::Int, MVal::I(0), Upd::Step, 0),
        special("P1.obs_ev", "program", "tprog", Ty::Int, MVal::I(0), Upd::Step, 0),
        special("P2.m", "program", "prog", Ty::Int, MVal::I(0), Upd::Step, 1),
        special("P2.obs_main", "program", "prog", Ty::Int, MVal::I(0), Upd::Step, 1),
    ];
    Family {
        name: "single",
        source: src.to_string(),
        vars,
        units: vec![
            Unit { name: "P1:OnEv WITH Ev".into(), observer: Some("P1.obs_ev".into()), follows: None, always: false },
            Unit { name: "P2:Main".into(), observer: Some("P2.obs_main".into()), follows: None, always: true },
        ],
        in_bits: vec![],
        in_words: vec![],
        tasks: vec!["Ev".into()],
        access: vec![],
        op_writes: vec![],
        via_writes: vec![],
        store_interval_ms: 1000,
        depth: None,
        events: vec![Ev::Cycle, Ev::Warm, Ev::Cold, Ev::Power],
    }
}

/// F "memory": a global bound to the %M area (read at cycle start, written at cycle end).
fn family_memory(persistent: bool) -> Family {
    let pq = if persistent { Qual::Persistent } else { Qual::Retain };
    let src = format!(
        r#"CONFIGURATION Conf
VAR_GLOBAL
    gm AT %MW0 : INT;
END_VAR
VAR_GLOBAL RETAIN
    g_rm AT %MW2 : INT;
END_VAR
VAR_GLOBAL{pk}
    g_pm AT %MW4 : INT;
END_VAR
PROGRAM P1 : Main;
VAR_CONFIG
    P1.p_cm AT %MW8 : INT;
END_VAR
END_CONFIGURATION

PROGRAM Main
VAR_EXTERNAL
    gm : INT;
    g_rm : INT;
    g_pm : INT;
END_VAR
VAR RETAIN
    p_rm AT %MW6 : INT;
    p_cm AT %M* : INT;
END_VAR
VAR
    c : INT;
    obs_main : INT;
END_VAR
gm := gm + 1;
g_rm := g_rm + 1;
g_pm := g_pm + 1;
p_rm := p_rm + 1;
p_cm := p_cm + 1;
c := c + 1;
obs_main := obs_main + 1;
END_PROGRAM
"#,
        pk = pq.kw()
    );
    let mut gm = special("gm", "global", "cfg@%M", Ty::Int, MVal::I(0), Upd::Step, 0);
    gm.mem_addr = Some("%MW0".into());
    gm.bind_kind = Some("mem:global-var".into());
    // retained variables located in %M: the retain model stays in force across the next cycle (the
    // latch at cycle start must not destroy what the restart preserved), so their value is NOT
    // adopted from the image
    let located = |path: &str, coarse: &'static str, scope: &str, q: Qual, addr: &str, kind: &str| {
        let mut v = special(path, coarse, scope, Ty::Int, MVal::I(0), Upd::Step, 0);
        v.class = Class::Keep;
        v.qual = q;
        v.matrix = false;
        v.mem_addr = Some(addr.into());
        v.bind_kind = Some(format!("mem-retain:{kind}"));
        v
    };
    let vars = vec![
        gm,
        located("g_rm", "global", "cfg@%M", Qual::Retain, "%MW2", "global-var"),
        located("g_pm", "global", "cfg@%M", pq, "%MW4", "global-var"),
        located("P1.p_rm", "program", "prog@%M", Qual::Retain, "%MW6", "program-var"),
        located("P1.p_cm", "program", "prog@%M", Qual::Retain, "%MW8", "var-config"),
        special("P1.c", "program", "prog", Ty::Int, MVal::I(0), Upd::Step, 0),
        special("P1.obs_main", "program", "prog", Ty::Int, MVal::I(0), Upd::Step, 0),
    ];
    Family {
        name: "memory",
        source: src,
        vars,
        units: vec![Unit { name: "P1:Main".into(), observer: Some("P1.obs_main".into()), follows: None, always: true }],
        in_bits: vec![],
        in_words: vec![],
        tasks: vec![],
        access: vec![],
        op_writes: vec![],
        via_writes: vec![],
        store_interval_ms: 1000,
        depth: None,
        events: vec![Ev::Cycle, Ev::Warm, Ev::Cold, Ev::Power],
    }
}

/// F "store-*": every public way of SAVING retained data right after every public way of CHANGING
/// it without a scan cycle. Small on purpose (what is saved does not depend on the variable type,
/// the matrix family covers that): the alphabet is the point.
///   saving:   explicit save_retain_store() (`save`; also the first half of `power`, and what the
///             resource loop calls at stop), the periodic save inside execute_cycle (interval 0 =
///             every executed cycle, family store-every-cycle), and no save at all (`reboot`)
///   changing: cycle, warm restart, cold restart, VAR_ACCESS write, storage-API write, mesh update
/// The engine never calls mark_retain_dirty(). A debugger write (DebugControl::enqueue_*) is not in
/// the alphabet: it is applied at the start of the NEXT cycle, i.e. it is a change *with* a cycle,
/// and whether a queued write survives a restart is outside the statement.
fn family_store(every_cycle: bool, persistent: bool) -> Family {
    let pq = if persistent { Qual::Persistent } else { Qual::Retain };
    let src = format!(
        r#"CONFIGURATION Conf
VAR_GLOBAL RETAIN
    g_r : INT := 11;
    g_m : INT := 31;
    g_ra : ARRAY[0..1] OF INT;
END_VAR
VAR_GLOBAL{pk}
    g_p : INT := 51;
END_VAR
VAR_GLOBAL
    g_u : INT := 71;
END_VAR
VAR_GLOBAL NON_RETAIN
    g_n : INT := 91;
END_VAR
PROGRAM P1 : Main;
VAR_ACCESS
    A_gr : g_r : INT READ_WRITE;
    A_pr : P1.p_r : INT READ_WRITE;
END_VAR
END_CONFIGURATION

PROGRAM Main
VAR_EXTERNAL
    g_r : INT;
    g_m : INT;
    g_ra : ARRAY[0..1] OF INT;
    g_p : INT;
    g_u : INT;
    g_n : INT;
END_VAR
VAR RETAIN
    p_r : INT := 111;
    p_s : INT := 131;
END_VAR
VAR{pk}
    p_p : STRING := 'p';
END_VAR
VAR
    p_u : INT := 151;
    obs_main : INT;
END_VAR
g_r := g_r + 1;
g_m := g_m + 1;
g_ra[0] := g_ra[0] + 1; g_ra[1] := g_ra[1] + 2;
g_p := g_p + 1;
g_u := g_u + 1;
g_n := g_n + 1;
p_r := p_r + 1;
p_s := p_s + 1;
p_p := CONCAT(p_p, 'x');
p_u := p_u + 1;
obs_main := obs_main + 1;
END_PROGRAM
"#,
        pk = pq.kw()
    );
    let k = Class::Keep;
    let r = Class::Reset;
    let mut vars = vec![
        plain("g_r".into(), k, "global", "cfg", Qual::Retain, Ty::Int, MVal::I(11), 0),
        plain("g_m".into(), k, "global", "cfg", Qual::Retain, Ty::Int, MVal::I(31), 0),
        plain("g_ra".into(), k, "global", "cfg", Qual::Retain, Ty::Arr, Ty::Arr.init(0).0, 0),
        plain("g_p".into(), k, "global", "cfg", pq, Ty::Int, MVal::I(51), 0),
        plain("g_u".into(), r, "global", "cfg", Qual::None, Ty::Int, MVal::I(71), 0),
        plain("g_n".into(), r, "global", "cfg", Qual::NonRetain, Ty::Int, MVal::I(91), 0),
        plain("P1.p_r".into(), k, "program", "prog", Qual::Retain, Ty::Int, MVal::I(111), 0),
        plain("P1.p_s".into(), k, "program", "prog", Qual::Retain, Ty::Int, MVal::I(131), 0),
        plain("P1.p_p".into(), k, "program", "prog", pq, Ty::Str, MVal::S("p".into()), 0),
        plain("P1.p_u".into(), r, "program", "prog", Qual::None, Ty::Int, MVal::I(151), 0),
    ];
    vars.push(special("P1.obs_main", "program", "prog", Ty::Int, MVal::I(0), Upd::Step, 0));
    Family {
        name: if every_cycle { "store-every-cycle" } else { "store-explicit" },
        source: src,
        vars,
        units: vec![Unit { name: "P1:Main".into(), observer: Some("P1.obs_main".into()), follows: None, always: true }],
        in_bits: vec![],
        in_words: vec![],
        tasks: vec![],
        access: vec![
            ("A_gr".into(), "g_r".into(), "access:global-var".into()),
            ("A_pr".into(), "P1.p_r".into(), "access:program-var".into()),
        ],
        op_writes: vec![],
        via_writes: vec![
            (0, "g_r".into(), Some("A_gr".into()), 7777),
            (0, "P1.p_r".into(), Some("A_pr".into()), 7777),
            (1, "g_p".into(), None, 8888),
            (1, "P1.p_s".into(), None, 8888),
            (1, "g_u".into(), None, 8888),
            (2, "g_m".into(), None, 6666),
            (2, "g_n".into(), None, 6666),
        ],
        store_interval_ms: if every_cycle { 0 } else { 1000 },
        depth: Some((4, 7)),
        events: vec![Ev::Cycle, Ev::Warm, Ev::Cold, Ev::Save, Ev::Power, Ev::Reboot, Ev::WriteVia(0), Ev::WriteVia(1), Ev::WriteVia(2)],
    }
}

/// F "store-reals*": retained REAL / LREAL whose value changes only in the SIGN OF ZERO (or is a
/// NaN) between two saves — by a cycle-less write and by a program statement (`x := -x;`, i.e. with
/// a cycle and the dirty flag set). Nothing else in the snapshot changes, so a save that
/// de-duplicates snapshots with a numeric comparison drops it.
fn family_store_reals(every_cycle: bool) -> Family {
    let src = r#"CONFIGURATION Conf
VAR_GLOBAL RETAIN
    g_f : REAL := 0.0;
    g_lf : LREAL := 0.0;
END_VAR
PROGRAM P1 : Main;
VAR_ACCESS
    A_gf : g_f : REAL READ_WRITE;
END_VAR
END_CONFIGURATION

PROGRAM Main
VAR_EXTERNAL
    g_f : REAL;
    g_lf : LREAL;
END_VAR
VAR RETAIN
    p_f : REAL := 0.0;
END_VAR
VAR
    obs_main : INT;
END_VAR
g_f := -g_f;
g_lf := -g_lf;
p_f := -p_f;
obs_main := obs_main + 1;
END_PROGRAM
"#;
    let mut vars = vec![
        plain("g_f".into(), Class::Keep, "global", "cfg", Qual::Retain, Ty::Real, MVal::R(0.0), 0),
        plain("g_lf".into(), Class::Keep, "global", "cfg", Qual::Retain, Ty::LReal, MVal::R(0.0), 0),
        plain("P1.p_f".into(), Class::Keep, "program", "prog", Qual::Retain, Ty::Real, MVal::R(0.0), 0),
    ];
    for v in vars.iter_mut() {
        v.upd = Upd::Neg;
    }
    vars.push(special("P1.obs_main", "program", "prog", Ty::Int, MVal::I(0), Upd::Step, 0));
    Family {
        name: if every_cycle { "store-reals-every-cycle" } else { "store-reals" },
        source: src.to_string(),
        vars,
        units: vec![Unit { name: "P1:Main".into(), observer: Some("P1.obs_main".into()), follows: None, always: true }],
        in_bits: vec![],
        in_words: vec![],
        tasks: vec![],
        access: vec![("A_gf".into(), "g_f".into(), "access:global-var".into())],
        op_writes: vec![],
        via_writes: vec![],
        store_interval_ms: if every_cycle { 0 } else { 1000 },
        depth: Some((4, 7)),
        events: vec![Ev::Cycle, Ev::Warm, Ev::Cold, Ev::Save, Ev::Power, Ev::Reboot, Ev::RealWrite(0), Ev::RealWrite(1), Ev::RealWrite(2), Ev::RealWrite(3)],
    }
}

fn family_by_name(name: &str, persistent: bool) -> Option<Family> {
    let quals: &[Qual] = if persistent { &QUALS_ALL } else { &QUALS_ALL[..3] };
    Some(match name {
        "matrix" => family_matrix(quals),
        "bindings" => family_bindings(),
        "config-init" => family_config_init(),
        "single" => family_single(),
        "memory" => family_memory(persistent),
        "store-explicit" => family_store(false, persistent),
        "store-every-cycle" => family_store(true, persistent),
        "store-reals" => family_store_reals(false),
        "store-reals-every-cycle" => family_store_reals(true),
        _ => return None,
    })
}

const FAMILY_NAMES: [&str; 9] = ["matrix", "bindings", "config-init", "single", "memory", "store-explicit", "store-every-cycle", "store-reals", "store-reals-every-cycle"];

// ------------------------------------------------------------------------------------------
// observation of the real runtime (by NAME / structural path, never by instance id)
// ------------------------------------------------------------------------------------------

fn dump_vars(h: &TestHarness) -> BTreeMap<String, MVal> {
    fn walk(st: &trust_runtime::memory::VariableStorage, id: InstanceId, prefix: &str, depth: usize, out: &mut BTreeMap<String, MVal>) {
        let Some(inst) = st.get_instance(id) else {
            out.insert(format!("{prefix}<dangling>"), MVal::Other("dangling instance".into()));
            return;
        };
        for (n, v) in &inst.variables {
            match v {
                Value::Instance(i2) if depth < 4 => walk(st, *i2, &format!("{prefix}{n}."), depth + 1, out),
                _ => {
                    out.insert(format!("{prefix}{n}"), to_mval(v));
                }
            }
        }
    }
    let st = h.runtime().storage();
    let mut out = BTreeMap::new();
    for (n, v) in st.globals() {
        match v {
            Value::Instance(id) => walk(st, *id, &format!("{n}."), 0, &mut out),
            _ => {
                out.insert(n.to_string(), to_mval(v));
            }
        }
    }
    out
}

fn live_instances(h: &TestHarness) -> BTreeSet<u32> {
    let st = h.runtime().storage();
    let mut seen = BTreeSet::new();
    let mut todo: Vec<InstanceId> = st
        .globals()
        .values()
        .filter_map(|v| if let Value::Instance(i) = v { Some(*i) } else { None })
        .collect();
    while let Some(id) = todo.pop() {
        if !seen.insert(id.0) {
            continue;
        }
        if let Some(inst) = st.get_instance(id) {
            if let Some(p) = inst.parent {
                todo.push(p);
            }
            for v in inst.variables.values() {
                if let Value::Instance(i) = v {
                    todo.push(*i);
                }
            }
        }
    }
    seen
}

fn ref_is_stale(r: &ValueRef, live: &BTreeSet<u32>) -> bool {
    match r.location {
        MemoryLocation::Instance(id) => !live.contains(&id.0),
        _ => false,
    }
}

fn read_io(h: &TestHarness, addr: &str) -> MVal {
    match IoAddress::parse(addr) {
        Ok(a) => match h.runtime().io().read(&a) {
            Ok(v) => to_mval(&v),
            Err(e) => MVal::Other(format!("read error {e:?}")),
        },
        Err(e) => MVal::Other(format!("bad address {e:?}")),
    }
}

#[derive(Clone, Debug, PartialEq)]
struct Snap {
    vars: BTreeMap<String, MVal>,
    time: i64,
    faulted: bool,
    last_fault: Option<String>,
    cycles: u64,
    overruns: Vec<(String, Option<u64>)>,
    outs: Vec<(String, MVal)>,
    mem: Vec<(String, MVal)>,
    access: Vec<(String, Option<MVal>)>,
    // not compared between runtimes, only part of the canonical state key:
    ins: Vec<(String, MVal)>,
    stale: Vec<String>,
}

fn snapshot(fam: &Family, h: &TestHarness) -> Snap {
    let rt = h.runtime();
    let live = live_instances(h);
    let mut stale = Vec::new();
    for b in rt.io().bindings() {
        if let IoTarget::Reference(r) = &b.target {
            if ref_is_stale(r, &live) {
                stale.push(format!("io:{:?}:{}.{}", b.address.area, b.address.byte, b.address.bit));
            }
        }
    }
    for (name, _, _) in &fam.access {
        if let Some(b) = rt.access_map().get(name) {
            if ref_is_stale(&b.reference, &live) {
                stale.push(format!("access:{name}"));
            }
        }
    }
    for t in rt.tasks() {
        for r in &t.fb_instances {
            if ref_is_stale(r, &live) {
                stale.push(format!("taskfb:{}", t.name));
            }
        }
    }
    Snap {
        vars: dump_vars(h),
        time: rt.current_time().as_nanos(),
        faulted: rt.faulted(),
        last_fault: rt.last_fault().map(|e| variant_name(&format!("{e:?}"))),
        cycles: rt.cycle_counter(),
        overruns: fam.tasks.iter().map(|t| (t.clone(), rt.task_overrun_count(t))).collect(),
        outs: fam.vars.iter().filter_map(|v| v.out_addr.as_ref()).map(|a| (a.clone(), read_io(h, a))).collect(),
        mem: fam.vars.iter().filter_map(|v| v.mem_addr.as_ref()).map(|a| (a.clone(), read_io(h, a))).collect(),
        access: fam.access.iter().map(|(n, _, _)| (n.clone(), h.get_access(n).map(|v| to_mval(&v)))).collect(),
        ins: fam.vars.iter().filter_map(|v| v.in_addr.as_ref()).map(|a| (a.clone(), read_io(h, a))).collect(),
        stale,
    }
}

fn variant_name(dbg: &str) -> String {
    dbg.chars().take_while(|c| c.is_ascii_alphanumeric() || *c == '_').collect()
}

fn norm_msg(m: &str) -> String {
    let s: String = m.chars().map(|c| if c.is_ascii_digit() { '#' } else { c }).collect();
    s.chars().take(60).collect()
}

fn hash128<T: Hash>(t: &T) -> u128 {
    let mut a = std::collections::hash_map::DefaultHasher::new();
    0u8.hash(&mut a);
    t.hash(&mut a);
    let mut b = std::collections::hash_map::DefaultHasher::new();
    1u8.hash(&mut b);
    t.hash(&mut b);
    ((a.finish() as u128) << 64) | b.finish() as u128
}

static SCRATCH: Mutex<Option<PathBuf>> = Mutex::new(None);
static FILE_SEQ: AtomicU64 = AtomicU64::new(0);

fn scratch_file() -> PathBuf {
    let dir = {
        let mut g = SCRATCH.lock().unwrap();
        if g.is_none() {
            // replay without a Ctx: same layout as Ctx::work_dir()
            let base = PathBuf::from(std::env::var("TV_VERIF_DIR").unwrap_or_else(|_| "/verif".into()));
            let d = base.join(".work").join(format!("C09-{}", std::process::id()));
            let _ = std::fs::create_dir_all(&d);
            *g = Some(d);
        }
        g.clone().unwrap()
    };
    let _ = std::fs::create_dir_all(&dir);
    dir.join(format!("retain-{}.bin", FILE_SEQ.fetch_add(1, Ordering::Relaxed)))
}

// ------------------------------------------------------------------------------------------
// one trace on the real runtime, with the reference model alongside
// ------------------------------------------------------------------------------------------

#[derive(Clone, Debug)]
struct Finding {
    sig: String,
    what: String,
    /// index of the event after which it was observed
    step: usize,
}

#[derive(Default, Clone, Debug)]
struct Stats {
    warm_nontrivial: u64,
    cold_nontrivial: u64,
    power_nontrivial: u64,
    cold_with_fault_latched: u64,
    relational_checks: u64,
    cycles_executed: u64,
    cycles_refused_faulted: u64,
    task_program_skipped_cycles: u64,
    /// "clause|feature|pre" / "...|init": which reading the implementation follows where the
    /// statement is ambiguous
    adopted: BTreeMap<String, u64>,
}

impl Stats {
    fn merge(&mut self, o: &Stats) {
        self.warm_nontrivial += o.warm_nontrivial;
        self.cold_nontrivial += o.cold_nontrivial;
        self.power_nontrivial += o.power_nontrivial;
        self.cold_with_fault_latched += o.cold_with_fault_latched;
        self.relational_checks += o.relational_checks;
        self.cycles_executed += o.cycles_executed;
        self.cycles_refused_faulted += o.cycles_refused_faulted;
        self.task_program_skipped_cycles += o.task_program_skipped_cycles;
        for (k, v) in &o.adopted {
            *self.adopted.entry(k.clone()).or_insert(0) += v;
        }
    }
}

struct TraceOut {
    findings: Vec<Finding>,
    machinery: Vec<String>,
    /// snaps[0] = freshly built, snaps[i+1] = after events[i]
    snaps: Vec<Snap>,
    key: Option<u128>,
    stats: Stats,
}

/// smallest discriminating feature tuples for a set of failing variables of one clause
/// `det`: variables whose expectation discriminates at this step (pre-restart value differs from the
/// initial one); a group counts as failing as a whole when every determinate member fails.
fn aggregate(fam: &Family, failing: &BTreeSet<usize>, det: &BTreeSet<usize>) -> Vec<(String, usize)> {
    let mut out = Vec::new();
    for &i in failing {
        if !fam.vars[i].matrix {
            out.push((fam.vars[i].feature(), i));
        }
    }
    let quals: BTreeSet<Qual> = failing.iter().filter(|&&i| fam.vars[i].matrix).map(|&i| fam.vars[i].qual).collect();
    let sel = |p: &dyn Fn(&VarSpec) -> bool| -> (Vec<usize>, Vec<usize>) {
        let univ: Vec<usize> = (0..fam.vars.len()).filter(|&i| fam.vars[i].matrix && p(&fam.vars[i]) && (det.contains(&i) || failing.contains(&i))).collect();
        let f: Vec<usize> = univ.iter().copied().filter(|i| failing.contains(i)).collect();
        (univ, f)
    };
    for q in quals {
        let per_scope = |out: &mut Vec<(String, usize)>, scopes: BTreeSet<String>| {
            for s in scopes {
                let (us, fs) = sel(&|v| v.qual == q && v.scope == s);
                if fs.len() == us.len() && us.len() > 1 {
                    out.push((format!("{s}:{}", q.tag()), fs[0]));
                } else {
                    for i in fs {
                        out.push((fam.vars[i].feature(), i));
                    }
                }
            }
        };
        let (u, f) = sel(&|v| v.qual == q && v.coarse != "fbm");
        if !f.is_empty() {
            let coarse_kinds: BTreeSet<&str> = u.iter().map(|&i| fam.vars[i].coarse).collect();
            if f.len() == u.len() && coarse_kinds.len() > 1 {
                out.push((format!("*:{}", q.tag()), f[0]));
            } else {
                for c in ["global", "program"] {
                    let (uc, fc) = sel(&|v| v.qual == q && v.coarse == c);
                    if fc.is_empty() {
                        continue;
                    }
                    if fc.len() == uc.len() && uc.len() > 1 {
                        out.push((format!("{c}:{}", q.tag()), fc[0]));
                    } else {
                        let scopes: BTreeSet<String> = fc.iter().map(|&i| fam.vars[i].scope.clone()).collect();
                        per_scope(&mut out, scopes);
                    }
                }
            }
        }
        let (_, ff) = sel(&|v| v.qual == q && v.coarse == "fbm");
        if !ff.is_empty() {
            let scopes: BTreeSet<String> = ff.iter().map(|&i| fam.vars[i].scope.clone()).collect();
            per_scope(&mut out, scopes);
        }
    }
    out
}

fn build(fam: &Family) -> Result<TestHarness, String> {
    match catch(|| TestHarness::from_source(&fam.source)) {
        Ok(Ok(h)) => Ok(h),
        Ok(Err(e)) => Err(format!("family {} does not compile: {e}", fam.name)),
        Err(p) => Err(format!("family {}: compiler panicked: {p}", fam.name)),
    }
}

/// The retain store is configured ONCE, when a runtime is created, on a path that stays the same
/// for the whole history (as the launcher does: set_retain_store before the first cycle).
fn configure_store(fam: &Family, h: &mut TestHarness, path: &std::path::Path) {
    h.runtime_mut().set_retain_store(Some(Box::new(FileRetainStore::new(path))), Some(Duration::from_millis(fam.store_interval_ms)));
}

struct RemoveOnDrop(PathBuf);

impl Drop for RemoveOnDrop {
    fn drop(&mut self) {
        let _ = std::fs::remove_file(&self.0);
    }
}

const OP_VALUE: i16 = 7777;

fn apply_update(fam: &Family, model: &mut BTreeMap<String, MVal>, i: usize) {
    let v = &fam.vars[i];
    let get = |m: &BTreeMap<String, MVal>, p: &str| m.get(p).cloned().unwrap_or(MVal::Other("?".into()));
    let new = match &v.upd {
        Upd::Keep => return,
        Upd::Step => step(&get(model, &v.path)),
        Upd::CopyOf(s) => get(model, s),
        Upd::NotOf(s) => match get(model, s) {
            MVal::B(b) => MVal::B(!b),
            o => o,
        },
        Upd::IncOf(s) => match get(model, s) {
            MVal::I(x) => MVal::I(x + 1),
            o => o,
        },
        Upd::Neg => match get(model, &v.path) {
            MVal::R(x) => MVal::R(-x),
            o => o,
        },
    };
    model.insert(v.path.clone(), new);
}

fn oshow(v: Option<&MVal>) -> String {
    v.map(show).unwrap_or_else(|| "<missing>".into())
}

fn hist_str(ev: &[Ev]) -> String {
    ev.iter().map(|e| e.name()).collect::<Vec<_>>().join(",")
}

fn run_trace(fam: &Family, events: &[Ev], report_from: usize) -> TraceOut {
    let mut out = TraceOut { findings: Vec::new(), machinery: Vec::new(), snaps: Vec::new(), key: None, stats: Stats::default() };
    let mut h = match build(fam) {
        Ok(h) => h,
        Err(e) => {
            out.machinery.push(e);
            return out;
        }
    };
    let store = RemoveOnDrop(scratch_file());
    configure_store(fam, &mut h, &store.0);
    // reference model of the retain FILE: the variable values at every moment a save must have
    // reached the store (explicit save, the save of a power cycle, the periodic save of a cycle
    // when the interval is 0); the last entry is what a new process must load
    let mut flushes: Vec<BTreeMap<String, MVal>> = Vec::new();
    // retained variables located in %M: the restart-like event that left the %M image different
    // from the (preserved) variable — that event, not a later one, is to blame when the next latch
    // destroys the value
    let mut mem_culprit: BTreeMap<String, Ev> = BTreeMap::new();
    let mut model: BTreeMap<String, MVal> = fam.vars.iter().map(|v| (v.path.clone(), v.init.clone())).collect();
    let s0 = snapshot(fam, &h);
    if s0.vars != model {
        let diff: Vec<String> = model
            .iter()
            .filter(|(k, v)| s0.vars.get(*k) != Some(v))
            .map(|(k, v)| format!("{k}: model {} real {:?}", show(v), s0.vars.get(k).map(show)))
            .chain(s0.vars.keys().filter(|k| !model.contains_key(*k)).map(|k| format!("{k}: not in model")))
            .take(5)
            .collect();
        out.machinery.push(format!("family {}: fresh runtime differs from the declared initial values: {diff:?}", fam.name));
        return out;
    }
    out.snaps.push(s0);
    // disruptions (restart / power cycle) seen so far
    let mut last_disruption: Option<Ev> = None;
    let mut stop = false;
    // which reading the implementation followed for each ambiguous group: (preserved?, clause)
    let mut readings: BTreeMap<String, (bool, &'static str)> = BTreeMap::new();

    for (i, &ev) in events.iter().enumerate() {
        let report = i >= report_from;
        let prefix = &events[..=i];
        // (clause, var index, detail)
        let mut mism: Vec<(String, usize, String)> = Vec::new();
        let mut det: BTreeSet<usize> = (0..fam.vars.len()).collect();
        let mut finds: Vec<Finding> = Vec::new();
        let prev = out.snaps.last().unwrap().clone();
        // a post-disruption anomaly is a finding, an anomaly on an undisturbed runtime means the
        // model or the harness is wrong (machinery, never a verdict)
        let disrupted_before = last_disruption.is_some();
        let anomaly = |finds: &mut Vec<Finding>, machinery: &mut Vec<String>, sig: String, what: String| {
            if disrupted_before {
                finds.push(Finding { sig, what, step: i });
            } else {
                machinery.push(format!("family {} history [{}]: {what} (no restart in the history: model/harness problem)", fam.name, hist_str(prefix)));
            }
        };
        let stats_before = out.stats.clone();
        let snap;
        match ev {
            Ev::Write(k) => {
                for (j, a) in fam.in_bits.iter().enumerate() {
                    let val = (j % 2 == 0) == (k == 1);
                    let _ = h.set_direct_input(a, Value::Bool(val));
                }
                for (j, a) in fam.in_words.iter().enumerate() {
                    let val = if k == 1 { 7 + j as u16 } else { 0 };
                    let _ = h.set_direct_input(a, Value::Word(val));
                }
                snap = snapshot(fam, &h);
            }
            Ev::Fault => {
                let _ = catch(|| h.runtime_mut().simulation_fault("c09"));
                snap = snapshot(fam, &h);
            }
            Ev::OpWrite => {
                for (path, via) in &fam.op_writes {
                    let r = catch(|| -> Result<(), String> {
                        match via {
                            Some(name) => h.set_access(name, Value::Int(OP_VALUE)).map_err(|e| format!("write_access({name}) fails with {e:?}")),
                            None => {
                                let rt = h.runtime_mut();
                                match path.split_once('.') {
                                    Some((prog, var)) => {
                                        let id = match rt.storage().get_global(prog) {
                                            Some(Value::Instance(id)) => *id,
                                            _ => return Err(format!("program instance {prog} not found")),
                                        };
                                        if rt.storage_mut().set_instance_var(id, var, Value::Int(OP_VALUE)) { Ok(()) } else { Err(format!("instance of {prog} vanished")) }
                                    }
                                    None => {
                                        rt.storage_mut().set_global(path.as_str(), Value::Int(OP_VALUE));
                                        Ok(())
                                    }
                                }
                            }
                        }
                    });
                    match r {
                        Ok(Ok(())) => {}
                        Ok(Err(e)) => anomaly(&mut finds, &mut out.machinery, "C09/binding/access:global-var".into(), format!("operator write to {path}: {e}")),
                        Err(p) => finds.push(Finding { sig: format!("C09/panic/operator-write/{}", norm_msg(&p)), what: format!("operator write to {path} panicked: {p}"), step: i }),
                    }
                    model.insert(path.clone(), MVal::I(OP_VALUE as i128));
                }
                snap = snapshot(fam, &h);
            }
            Ev::Save => {
                // the explicit save, exactly as the resource loop calls it at stop; never preceded by
                // a mark_retain_dirty() of the engine's own
                match catch(|| h.runtime_mut().save_retain_store()) {
                    Ok(Ok(())) => {}
                    Ok(Err(e)) => finds.push(Finding { sig: format!("C09/power-cycle/save-error/{}", variant_name(&format!("{e:?}"))), what: format!("save_retain_store fails: {e:?}"), step: i }),
                    Err(p) => finds.push(Finding { sig: format!("C09/panic/save/{}", norm_msg(&p)), what: format!("save_retain_store panicked: {p}"), step: i }),
                }
                flushes.push(model.clone());
                snap = snapshot(fam, &h);
            }
            Ev::RealWrite(k) => {
                let val: f64 = match k {
                    0 => 0.0,
                    1 => -0.0,
                    2 => f64::NAN,
                    _ => 2.5,
                };
                for v in fam.vars.iter().filter(|v| matches!(v.ty, Ty::Real | Ty::LReal)) {
                    let value = if v.ty == Ty::LReal { Value::LReal(val) } else { Value::Real(val as f32) };
                    let path = v.path.clone();
                    let access = fam.access.iter().find(|a| a.1 == path).map(|a| a.0.clone());
                    let written = value.clone();
                    let r = catch(|| -> Result<(), String> {
                        let rt = h.runtime_mut();
                        if let Some(name) = &access {
                            rt.write_access(name, value).map_err(|e| format!("write_access({name}) fails with {e:?}"))
                        } else if let Some((prog, var)) = path.split_once('.') {
                            let id = match rt.storage().get_global(prog) {
                                Some(Value::Instance(id)) => *id,
                                _ => return Err(format!("program instance {prog} not found")),
                            };
                            if rt.storage_mut().set_instance_var(id, var, value) { Ok(()) } else { Err(format!("instance of {prog} vanished")) }
                        } else {
                            let mut updates = indexmap::IndexMap::new();
                            updates.insert(smol_str::SmolStr::new(&path), value);
                            rt.apply_mesh_updates(&updates);
                            Ok(())
                        }
                    });
                    match r {
                        Ok(Ok(())) => {}
                        Ok(Err(e)) => anomaly(&mut finds, &mut out.machinery, "C09/binding/access:global-var".into(), format!("{} of {path}: {e}", ev.name())),
                        Err(p) => finds.push(Finding { sig: format!("C09/panic/real-write/{}", norm_msg(&p)), what: format!("{} of {path} panicked: {p}", ev.name()), step: i }),
                    }
                    model.insert(path, to_mval(&written));
                }
                snap = snapshot(fam, &h);
            }
            Ev::WriteVia(k) => {
                for (_, path, name, val) in fam.via_writes.iter().filter(|w| w.0 == k) {
                    let val = *val;
                    let r = catch(|| -> Result<(), String> {
                        let rt = h.runtime_mut();
                        match k {
                            0 => {
                                let name = name.as_deref().unwrap_or("");
                                rt.write_access(name, Value::Int(val)).map_err(|e| format!("write_access({name}) fails with {e:?}"))
                            }
                            1 => match path.split_once('.') {
                                Some((prog, var)) => {
                                    let id = match rt.storage().get_global(prog) {
                                        Some(Value::Instance(id)) => *id,
                                        _ => return Err(format!("program instance {prog} not found")),
                                    };
                                    if rt.storage_mut().set_instance_var(id, var, Value::Int(val)) { Ok(()) } else { Err(format!("instance of {prog} vanished")) }
                                }
                                None => {
                                    rt.storage_mut().set_global(path.as_str(), Value::Int(val));
                                    Ok(())
                                }
                            },
                            _ => {
                                let mut updates = indexmap::IndexMap::new();
                                updates.insert(smol_str::SmolStr::new(path), Value::Int(val));
                                rt.apply_mesh_updates(&updates);
                                Ok(())
                            }
                        }
                    });
                    match r {
                        Ok(Ok(())) => {}
                        Ok(Err(e)) => anomaly(&mut finds, &mut out.machinery, format!("C09/binding/{}", if path.contains('.') { "access:program-var" } else { "access:global-var" }), format!("{} of {path}: {e}", ev.name())),
                        Err(p) => finds.push(Finding { sig: format!("C09/panic/{}/{}", ev.name(), norm_msg(&p)), what: format!("{} of {path} panicked: {p}", ev.name()), step: i }),
                    }
                    model.insert(path.clone(), MVal::I(val as i128));
                }
                snap = snapshot(fam, &h);
            }
            Ev::AccessWrite => {
                for (name, target, kind) in &fam.access {
                    let val: i16 = 1000; // the same sentinel in every trace (restarted and fresh runs are compared)
                    match catch(|| h.set_access(name, Value::Int(val))) {
                        Ok(Ok(())) => {}
                        Ok(Err(e)) => anomaly(&mut finds, &mut out.machinery, format!("C09/binding/{kind}"), format!("writing access path {name} fails with {e:?}")),
                        Err(p) => finds.push(Finding { sig: format!("C09/panic/access-write/{}", norm_msg(&p)), what: format!("write_access({name}) panicked: {p}"), step: i }),
                    }
                    model.insert(target.clone(), MVal::I(val as i128));
                }
                snap = snapshot(fam, &h);
            }
            Ev::Cycle => {
                let faulted_before = h.runtime().faulted();
                let ins_pre: Vec<(usize, MVal)> = fam.vars.iter().enumerate().filter_map(|(j, v)| v.in_addr.as_ref().map(|a| (j, read_io(&h, a)))).collect();
                let mem_pre: Vec<(usize, MVal)> = fam.vars.iter().enumerate().filter_map(|(j, v)| v.mem_addr.as_ref().map(|a| (j, read_io(&h, a)))).collect();
                h.advance_time(Duration::from_millis(10));
                let res = catch(|| h.cycle());
                let mut executed = true;
                match res {
                    Err(p) => {
                        finds.push(Finding { sig: format!("C09/panic/cycle/{}", norm_msg(&p)), what: format!("execute_cycle panicked after [{}]: {p}", hist_str(prefix)), step: i });
                        stop = true;
                        executed = false;
                    }
                    Ok(r) => {
                        if let Some(e) = r.errors.first() {
                            executed = false;
                            let name = variant_name(&format!("{e:?}"));
                            if name == "ResourceFaulted" && faulted_before {
                                out.stats.cycles_refused_faulted += 1;
                            } else {
                                anomaly(&mut finds, &mut out.machinery, format!("C09/cycle-error-after-restart/{name}"), format!("cycle fails with {e:?}"));
                                stop = true;
                            }
                        }
                    }
                }
                snap = snapshot(fam, &h);
                if executed {
                    out.stats.cycles_executed += 1;
                    let mut ran = vec![false; fam.units.len()];
                    for (u, unit) in fam.units.iter().enumerate() {
                        if let Some(o) = &unit.observer {
                            if let (Some(MVal::I(b)), Some(MVal::I(a))) = (prev.vars.get(o), snap.vars.get(o)) {
                                ran[u] = *a == *b + 1;
                            }
                            if !ran[u] {
                                out.stats.task_program_skipped_cycles += 1;
                                if unit.always {
                                    anomaly(&mut finds, &mut out.machinery, "C09/binding/background-program-not-run".into(), format!("the resource executed a cycle but program {} (no task association) did not run: its execution counter {o} did not advance", unit.name));
                                }
                            }
                        }
                    }
                    for (u, unit) in fam.units.iter().enumerate() {
                        if let Some(f) = unit.follows {
                            ran[u] = ran[f];
                        }
                    }
                    // inputs: adopt the live variable, and check it against the image it was latched from
                    for (j, img) in &ins_pre {
                        let v = &fam.vars[*j];
                        let live = snap.vars.get(&v.path).cloned().unwrap_or(MVal::Other("missing".into()));
                        out.stats.relational_checks += 1;
                        if &live != img {
                            let kind = v.bind_kind.clone().unwrap_or_default();
                            anomaly(&mut finds, &mut out.machinery, format!("C09/binding/{kind}"), format!("input binding disconnected: {} holds {} after a cycle although {} was {} at cycle start", v.path, show(&live), v.in_addr.as_ref().unwrap(), show(img)));
                        }
                        model.insert(v.path.clone(), live);
                    }
                    for (j, img) in &mem_pre {
                        if fam.vars[*j].class != Class::Keep {
                            model.insert(fam.vars[*j].path.clone(), img.clone());
                        }
                    }
                    for j in 0..fam.vars.len() {
                        let u = fam.vars[j].unit;
                        if u != usize::MAX && ran[u] {
                            apply_update(fam, &mut model, j);
                        }
                    }
                    if fam.store_interval_ms == 0 {
                        // interval 0: the periodic save inside execute_cycle fires in every executed cycle
                        flushes.push(model.clone());
                    }
                    // outputs / memory: image after the cycle equals the live variable
                    for v in &fam.vars {
                        let (addr, img) = if let Some(a) = &v.out_addr {
                            (a, snap.outs.iter().find(|(x, _)| x == a).map(|x| x.1.clone()))
                        } else if let Some(a) = &v.mem_addr {
                            (a, snap.mem.iter().find(|(x, _)| x == a).map(|x| x.1.clone()))
                        } else {
                            continue;
                        };
                        let live = snap.vars.get(&v.path).cloned();
                        out.stats.relational_checks += 1;
                        if live != img {
                            let kind = v.bind_kind.clone().unwrap_or_default();
                            anomaly(&mut finds, &mut out.machinery, format!("C09/binding/{kind}"), format!("output binding disconnected: {addr} is {} after a cycle although {} holds {}", oshow(img.as_ref()), v.path, oshow(live.as_ref())));
                        }
                    }
                }
            }
            Ev::Warm | Ev::Cold | Ev::Power | Ev::Reboot => {
                let pre = model.clone();
                let clause = match ev {
                    Ev::Warm => "warm",
                    Ev::Cold => "cold",
                    Ev::Power => "power-cycle",
                    _ => "power-loss",
                };
                if ev == Ev::Power {
                    // the save of an orderly power cycle must reach the store with the current values
                    flushes.push(pre.clone());
                }
                let was_faulted = h.runtime().faulted();
                let mut failed: Option<(String, String)> = None;
                match ev {
                    Ev::Warm | Ev::Cold => {
                        let mode = if ev == Ev::Warm { RestartMode::Warm } else { RestartMode::Cold };
                        match catch(|| h.restart(mode)) {
                            Ok(Ok(())) => {}
                            Ok(Err(e)) => failed = Some((format!("C09/restart-error/{clause}/{}", variant_name(&format!("{e:?}"))), format!("restart fails: {e:?}"))),
                            Err(p) => failed = Some((format!("C09/panic/restart/{}", norm_msg(&p)), format!("restart panicked: {p}"))),
                        }
                    }
                    _ => {
                        // production flow: save exactly as the resource loop does at stop (no
                        // mark_retain_dirty, no re-configuration), then a brand-new runtime with
                        // the store on the SAME path, then load
                        let path = store.0.clone();
                        let r = catch(|| -> Result<TestHarness, (String, String)> {
                            if ev == Ev::Power {
                                let rt = h.runtime_mut();
                                rt.save_retain_store().map_err(|e| (format!("C09/power-cycle/save-error/{}", variant_name(&format!("{e:?}"))), format!("save_retain_store fails: {e:?}")))?;
                            }
                            let mut h2 = TestHarness::from_source(&fam.source).map_err(|e| ("machinery".to_string(), format!("rebuild failed: {e}")))?;
                            configure_store(fam, &mut h2, &path);
                            let rt2 = h2.runtime_mut();
                            rt2.load_retain_store().map_err(|e| (format!("C09/power-cycle/load-error/{}", variant_name(&format!("{e:?}"))), format!("load_retain_store fails: {e:?}")))?;
                            Ok(h2)
                        });
                        match r {
                            Ok(Ok(h2)) => h = h2,
                            Ok(Err(f)) => failed = Some(f),
                            Err(p) => failed = Some((format!("C09/panic/power-cycle/{}", norm_msg(&p)), format!("power cycle panicked: {p}"))),
                        }
                    }
                }
                if let Some((sig, what)) = failed {
                    if sig == "machinery" {
                        out.machinery.push(what);
                    } else {
                        finds.push(Finding { sig, what: format!("after [{}]: {what}", hist_str(prefix)), step: i });
                    }
                    stop = true;
                }
                snap = snapshot(fam, &h);
                if !stop {
                    let mut nontrivial = false;
                    det.clear();
                    for (j, v) in fam.vars.iter().enumerate() {
                        let p = pre.get(&v.path).cloned().unwrap_or(MVal::Other("?".into()));
                        let mut inits = vec![v.init.clone()];
                        if let Some(a) = &v.alt_init {
                            inits.push(a.clone());
                        }
                        let class = if ev == Ev::Cold { Class::Reset } else { v.class };
                        // an implementation may re-latch %I/%M-bound variables from the image as part of
                        // the restart: the image value is as good as the initial value for them
                        if let Some(a) = v.in_addr.as_ref().or(v.mem_addr.as_ref()) {
                            let img = read_io(&h, a);
                            if !inits.contains(&img) {
                                inits.push(img);
                            }
                        }
                        let is_init = |x: &MVal| inits.contains(x);
                        let mut allowed: Vec<MVal> = match class {
                            Class::Keep => vec![p.clone()],
                            Class::Reset => inits.clone(),
                            Class::Ambiguous => {
                                let mut a = vec![p.clone()];
                                a.extend(inits.clone());
                                a
                            }
                        };
                        if ev == Ev::Reboot && class != Class::Reset {
                            // power loss: the new process must see what the last save flushed (nothing
                            // if there never was one); values changed since then may be lost
                            // ("unflushed changes may be lost", docs/specs/10-runtime.md 6.7) or kept
                            let flushed = flushes.last().and_then(|m| m.get(&v.path)).cloned().unwrap_or_else(|| v.init.clone());
                            allowed = vec![flushed, p.clone()];
                        }
                        allowed.dedup();
                        if !is_init(&p) {
                            det.insert(j);
                        }
                        if !is_init(&p) && (ev == Ev::Cold || v.class == Class::Keep) {
                            nontrivial = true;
                        }
                        let Some(real) = snap.vars.get(&v.path).cloned() else {
                            mism.push((format!("{clause}/missing-variable"), j, format!("{} no longer exists", v.path)));
                            model.insert(v.path.clone(), allowed[0].clone());
                            continue;
                        };
                        if allowed.contains(&real) {
                            if ev != Ev::Cold && !is_init(&p) && (class == Class::Ambiguous || (class == Class::Reset && v.alt_init.is_some())) {
                                let which = if real == p { "pre-restart value" } else if real == v.init { "initial value" } else { "POU initial value" };
                                let scope = if v.matrix { format!("{}:{}", v.scope, v.qual.tag()) } else { v.feature() };
                                *out.stats.adopted.entry(format!("{clause}|{scope}|{which}")).or_insert(0) += 1;
                                // a reading must be followed consistently: the last sentence of the statement
                                // ties the power cycle to the warm restart ("the same set of variables")
                                if class == Class::Ambiguous {
                                    let group = if v.coarse == "fbm" { v.scope.clone() } else { format!("{}:{}", v.scope, v.qual.tag()) };
                                    let kept = real == p;
                                    match readings.get(&group) {
                                        None => {
                                            readings.insert(group, (kept, clause));
                                        }
                                        Some(&(k0, c0)) if k0 != kept => {
                                            let sig = if c0 == clause { format!("C09/{clause}/inconsistent-retention/{group}") } else { format!("C09/power-cycle/set-differs-from-warm/{group}") };
                                            finds.push(Finding {
                                                sig,
                                                what: format!("{} ({}) {} by this {clause} although variables of this kind {} by an earlier {c0} in the same history: no reading of the statement explains both (a power cycle must preserve the same set as a warm restart)", v.path, v.feature(), if kept { "is preserved" } else { "is re-initialised" }, if k0 { "were preserved" } else { "were re-initialised" }),
                                                step: i,
                                            });
                                        }
                                        _ => {}
                                    }
                                }
                            }
                            model.insert(v.path.clone(), real);
                            continue;
                        }
                        let earlier = &flushes[..flushes.len().saturating_sub(1)];
                        let stale = matches!(ev, Ev::Power | Ev::Reboot) && earlier.iter().any(|m| m.get(&v.path) == Some(&real));
                        let sign_only = allowed.iter().any(|a| differs_by_sign_of_zero(a, &real));
                        let kind = match (ev, class) {
                            (Ev::Power | Ev::Reboot, _) if stale && sign_only => "stale-snapshot/real:sign-of-zero",
                            (Ev::Power | Ev::Reboot, _) if stale => "stale-snapshot",
                            (Ev::Cold, _) => if real == p { "kept" } else { "wrong-value" },
                            (_, Class::Keep) => if is_init(&real) { "lost" } else { "wrong-value" },
                            (_, Class::Reset) => if real == p { "kept-non-retain" } else { "wrong-value" },
                            (_, Class::Ambiguous) => "wrong-value",
                        };
                        mism.push((
                            format!("{clause}/{kind}"),
                            j,
                            format!("{} ({}) is {} but must be {}; before: {}, declared initial: {}{}", v.path, v.feature(), show(&real), allowed.iter().map(show).collect::<Vec<_>>().join(" or "), show(&p), show(&v.init), if stale { " — this is the value written by an EARLIER save of the history: the last save did not reach the store" } else { "" }),
                        ));
                        // resynchronise: one defect is reported once along a trace
                        model.insert(v.path.clone(), real);
                    }
                    if nontrivial {
                        match ev {
                            Ev::Warm => out.stats.warm_nontrivial += 1,
                            Ev::Cold => out.stats.cold_nontrivial += 1,
                            _ => out.stats.power_nontrivial += 1,
                        }
                    }
                    if ev == Ev::Cold && was_faulted {
                        out.stats.cold_with_fault_latched += 1;
                    }
                }
                last_disruption = Some(ev);
                for v in fam.vars.iter().filter(|v| v.class == Class::Keep && v.mem_addr.is_some()) {
                    let img = snap.mem.iter().find(|m| Some(&m.0) == v.mem_addr.as_ref()).map(|m| &m.1);
                    if img == snap.vars.get(&v.path) {
                        mem_culprit.remove(&v.path);
                    } else {
                        mem_culprit.entry(v.path.clone()).or_insert(ev);
                    }
                }
            }
        }
        let disrupted_now = last_disruption.is_some();
        let anomaly = |finds: &mut Vec<Finding>, machinery: &mut Vec<String>, sig: String, what: String| {
            if disrupted_now {
                finds.push(Finding { sig, what, step: i });
            } else {
                machinery.push(format!("family {} history [{}]: {what} (no restart in the history: model/harness problem)", fam.name, hist_str(prefix)));
            }
        };
        // (V) variables vs model after ordinary events
        if !stop && !matches!(ev, Ev::Warm | Ev::Cold | Ev::Power | Ev::Reboot) {
            for (j, v) in fam.vars.iter().enumerate() {
                let m = model.get(&v.path);
                let r = snap.vars.get(&v.path);
                if let (Some(mv), Some(rv)) = (m, r) {
                    if is_nan(mv) && is_nan(rv) && mv != rv {
                        // which NaN an arithmetic operation on a NaN yields is not the property's business
                        model.insert(v.path.clone(), rv.clone());
                        continue;
                    }
                }
                let m = model.get(&v.path);
                if m != r {
                    let detail = format!("{} ({}) is {}, reference model says {}", v.path, v.feature(), oshow(r), oshow(m));
                    match (&v.bind_kind, last_disruption) {
                        (_, None) => out.machinery.push(format!("family {} history [{}]: {detail} (no restart in the history: model/harness problem)", fam.name, hist_str(prefix))),
                        (Some(k), Some(d)) if k.starts_with("mem-retain:") => {
                            let clause = match mem_culprit.get(&v.path).copied().unwrap_or(d) {
                                Ev::Warm => "warm",
                                Ev::Cold => "cold",
                                Ev::Power => "power-cycle",
                                _ => "power-loss",
                            };
                            finds.push(Finding {
                                sig: format!("C09/{clause}/retained-located-var-lost-at-next-cycle/{}", &k["mem-retain:".len()..]),
                                what: format!("after [{}]: {detail} — the value the {clause} preserved for this RETAIN/PERSISTENT variable located in %M does not survive the latch of the following cycle (image {})", hist_str(prefix), oshow(prev.mem.iter().find(|m| Some(&m.0) == v.mem_addr.as_ref()).map(|m| &m.1))),
                                step: i,
                            });
                        }
                        (Some(k), Some(_)) => finds.push(Finding { sig: format!("C09/binding/{k}"), what: format!("after [{}]: {detail}", hist_str(prefix)), step: i }),
                        (None, Some(d)) => mism.push((format!("divergence-after-{}", d.name()), j, detail)),
                    }
                    // resynchronise so that one divergence is reported once along a trace
                    if let Some(r) = r {
                        model.insert(v.path.clone(), r.clone());
                    }
                }
            }
        }
        // access paths read the live variable
        if !stop {
            for (name, target, kind) in &fam.access {
                let a = snap.access.iter().find(|(n, _)| n == name).and_then(|x| x.1.clone());
                let live = snap.vars.get(target).cloned();
                out.stats.relational_checks += 1;
                if a != live {
                    anomaly(&mut finds, &mut out.machinery, format!("C09/binding/{kind}"), format!("access path disconnected: {name} reads {} but {target} holds {}", oshow(a.as_ref()), oshow(live.as_ref())));
                }
            }
        }
        // signatures from the mismatching variables
        let clauses: BTreeSet<String> = mism.iter().map(|m| m.0.clone()).collect();
        for c in clauses {
            let failing: BTreeSet<usize> = mism.iter().filter(|m| m.0 == c).map(|m| m.1).collect();
            if c.contains("/stale-snapshot") {
                // the cause is the save that did not reach the store, not the kind of variable
                let detail = mism.iter().find(|m| m.0 == c).map(|m| m.2.clone()).unwrap_or_default();
                finds.push(Finding { sig: format!("C09/{c}"), what: format!("after [{}]: {detail} ({} variable(s) affected)", hist_str(prefix), failing.len()), step: i });
                continue;
            }
            for (feat, w) in aggregate(fam, &failing, &det) {
                let detail = mism.iter().find(|m| m.0 == c && m.1 == w).map(|m| m.2.clone()).unwrap_or_default();
                finds.push(Finding {
                    sig: format!("C09/{c}/{feat}"),
                    what: format!("after [{}]: {detail} ({} variable(s) of this kind affected)", hist_str(prefix), failing.len()),
                    step: i,
                });
            }
        }
        if !report {
            // counters describe the reported suffix only (prefixes are counted by their own evaluation)
            out.stats = stats_before;
        }
        if report {
            // one finding per signature and step
            let mut seen = BTreeSet::new();
            for mut f in finds {
                if seen.insert(f.sig.clone()) {
                    if !f.what.starts_with("after [") {
                        f.what = format!("after [{}]: {}", hist_str(prefix), f.what);
                    }
                    out.findings.push(f);
                }
            }
        }
        out.snaps.push(snap);
        if stop {
            return out;
        }
    }
    let last = out.snaps.last().unwrap();
    // the content of the retain file is state too (it decides what a later power cycle loads)
    let file = std::fs::read(&store.0).ok();
    out.key = Some(hash128(&format!("{last:?}|{model:?}|{file:?}")));
    out
}

// ------------------------------------------------------------------------------------------
// evaluation of one history (= one BFS state): state checks + look-ahead after a restart
// ------------------------------------------------------------------------------------------

struct EvalOut {
    key: Option<u128>,
    violations: Vec<Violation>,
    machinery: Vec<String>,
    stats: Stats,
    traces: u64,
    lookahead_traces: u64,
    differential_pairs: u64,
}

type FreshCache = Vec<(Vec<Ev>, Vec<Snap>)>;

fn fresh_cache(fam: &Family) -> Result<FreshCache, String> {
    let mut out = Vec::new();
    for t in fam.continuations() {
        let tr = run_trace(fam, &t, 0);
        if let Some(m) = tr.machinery.first() {
            return Err(m.clone());
        }
        if let Some(f) = tr.findings.first() {
            return Err(format!("family {}: fresh runtime on continuation [{}] already disagrees with the model: {} {}", fam.name, hist_str(&t), f.sig, f.what));
        }
        if tr.snaps.len() != t.len() + 1 {
            return Err(format!("family {}: fresh continuation [{}] stopped early", fam.name, hist_str(&t)));
        }
        out.push((t, tr.snaps));
    }
    Ok(out)
}

fn to_violation(fam: &Family, persistent: bool, events: &[Ev], f: &Finding) -> Violation {
    Violation {
        signature: f.sig.clone(),
        what: format!("[family {}] {}", fam.name, f.what),
        case: json!({
            "family": fam.name,
            "persistent": persistent,
            "history": hist_json(&events[..(f.step + 1).min(events.len())]),
            "source": fam.source,
        }),
    }
}

fn first_var_diff(a: &BTreeMap<String, MVal>, b: &BTreeMap<String, MVal>) -> String {
    for (k, v) in a {
        match b.get(k) {
            Some(w) if w == v => {}
            Some(w) => return format!("{k}: restarted {} vs fresh {}", show(v), show(w)),
            None => return format!("{k}: exists only after the restart"),
        }
    }
    for k in b.keys() {
        if !a.contains_key(k) {
            return format!("{k}: exists only in the fresh runtime");
        }
    }
    String::new()
}

fn evaluate(fam: &Family, persistent: bool, hist: &[Ev], fresh: &FreshCache) -> EvalOut {
    let base = run_trace(fam, hist, hist.len().saturating_sub(1));
    let mut out = EvalOut {
        key: base.key,
        violations: base.findings.iter().map(|f| to_violation(fam, persistent, hist, f)).collect(),
        machinery: base.machinery.clone(),
        stats: base.stats.clone(),
        traces: 1,
        lookahead_traces: 0,
        differential_pairs: 0,
    };
    let Some(&last) = hist.last() else { return out };
    if !last.is_restart() || base.key.is_none() {
        return out;
    }
    let mut seen_sigs: BTreeSet<String> = out.violations.iter().map(|v| v.signature.clone()).collect();
    for (t, fresh_snaps) in fresh {
        let mut ev = hist.to_vec();
        ev.extend(t.iter().copied());
        let tr = run_trace(fam, &ev, hist.len());
        // hidden state (task edge/phase memory, stale references) shows in the next cycles: make it
        // part of the canonical key so that restart states are merged only if they also behave alike
        if let Some(k) = out.key {
            out.key = Some(hash128(&format!("{k}|{:?}", &tr.snaps[hist.len().min(tr.snaps.len())..])));
        }
        out.traces += 1;
        out.lookahead_traces += 1;
        out.machinery.extend(tr.machinery.iter().cloned());
        out.stats.merge(&tr.stats);
        for f in &tr.findings {
            if seen_sigs.insert(f.sig.clone()) {
                out.violations.push(to_violation(fam, persistent, &ev, f));
            }
        }
        if last != Ev::Cold {
            continue;
        }
        // differential clause: cold restart + continuation == fresh runtime + continuation
        let explained = tr.findings.iter().chain(base.findings.iter()).any(|f| f.sig.starts_with("C09/binding/"));
        let first_cycle = t.iter().position(|e| *e == Ev::Cycle).map(|p| p + 1).unwrap_or(usize::MAX);
        let mut caused = false;
        for p in 0..=t.len() {
            let (Some(a), Some(b)) = (tr.snaps.get(hist.len() + p), fresh_snaps.get(p)) else { break };
            out.differential_pairs += 1;
            let mut diffs: Vec<(&str, String)> = Vec::new();
            if a.time != b.time {
                diffs.push(("time", format!("current time {} ns vs fresh {} ns", a.time, b.time)));
            }
            if a.faulted != b.faulted || a.last_fault != b.last_fault {
                diffs.push(("fault-latch", format!("faulted={} last_fault={:?} vs fresh faulted={} last_fault={:?}", a.faulted, a.last_fault, b.faulted, b.last_fault)));
            }
            if a.overruns != b.overruns {
                diffs.push(("task-overrun", format!("task overrun counters {:?} vs fresh {:?}", a.overruns, b.overruns)));
            }
            if !explained {
                let (mut va, mut vb) = (a.vars.clone(), b.vars.clone());
                if p < first_cycle {
                    // %I/%M-bound variables are (re-)latched by the first cycle; before it they may
                    // legitimately mirror the image, which is environment
                    for v in fam.vars.iter().filter(|v| v.in_addr.is_some() || v.mem_addr.is_some()) {
                        va.remove(&v.path);
                        vb.remove(&v.path);
                    }
                }
                if va != vb {
                    diffs.push(("vars", first_var_diff(&va, &vb)));
                }
                if a.access != b.access {
                    diffs.push(("access", format!("access paths read {:?} vs fresh {:?}", a.access, b.access)));
                }
                if p >= first_cycle && a.outs != b.outs {
                    diffs.push(("outputs", format!("outputs {:?} vs fresh {:?}", a.outs, b.outs)));
                }
            }
            if diffs.iter().any(|d| d.0 == "fault-latch" || d.0 == "time") {
                // a latched fault refuses cycles, a stale clock shifts task phases: differing variables
                // and outputs are consequences, report the cause only
                diffs.retain(|d| !matches!(d.0, "vars" | "outputs" | "access"));
                caused = true;
            }
            if caused {
                diffs.retain(|d| !matches!(d.0, "vars" | "outputs" | "access"));
            }
            for (aspect, detail) in diffs {
                // time / fault latch / task state are not specific to a program family
                let sig = if matches!(aspect, "vars" | "outputs" | "access") { format!("C09/cold-vs-fresh/{}/{aspect}", fam.name) } else { format!("C09/cold-vs-fresh/{aspect}") };
                if seen_sigs.insert(sig.clone()) {
                    let f = Finding {
                        sig,
                        what: format!("after [{}] and continuation [{}] the restarted runtime differs from a freshly built one run on the same continuation: {detail}", hist_str(hist), hist_str(&t[..p])),
                        step: hist.len() - 1,
                    };
                    out.violations.push(to_violation(fam, persistent, hist, &f));
                }
            }
        }
    }
    out
}

pub fn check_case(case: &J) -> Vec<Violation> {
    let name = case["family"].as_str().unwrap_or("");
    let persistent = case["persistent"].as_bool().unwrap_or(true);
    let Some(fam) = family_by_name(name, persistent) else { return Vec::new() };
    if let Some(src) = case["source"].as_str() {
        if src != fam.source {
            eprintln!("C09 replay: the recorded program text differs from what the generator produces now; replaying the generated one");
        }
    }
    let hist: Vec<Ev> = case["history"]
        .as_array()
        .map(|a| a.iter().filter_map(|x| x.as_str().and_then(Ev::parse)).collect())
        .unwrap_or_default();
    let fresh = match fresh_cache(&fam) {
        Ok(f) => f,
        Err(e) => {
            eprintln!("C09 replay: {e}");
            return Vec::new();
        }
    };
    let out = evaluate(&fam, persistent, &hist, &fresh);
    for m in &out.machinery {
        eprintln!("C09 replay: machinery note: {m}");
    }
    // replay has no Ctx/finish(): leave no empty scratch directory behind
    if let Some(d) = SCRATCH.lock().unwrap().as_ref() {
        let _ = std::fs::remove_dir(d);
    }
    out.violations
}

pub fn run(ctx: &Ctx) -> EngineResult {
    quiet_panics();
    *SCRATCH.lock().unwrap() = Some(ctx.work_dir());
    let mut rep = Report::new("model_checking");
    let deadline = Instant::now() + StdDuration::from_secs(ctx.tier.pick(36, 840));
    // TV_C09_DEPTH: experimentation knob only (the tiers fix the bound)
    let max_depth = std::env::var("TV_C09_DEPTH").ok().and_then(|s| s.parse().ok()).unwrap_or(ctx.tier.pick(4usize, 7usize));
    let stack = 16 << 20;

    // PERSISTENT is a vendor extension: use it if the compiler accepts it everywhere
    let persistent = build(&family_matrix(&QUALS_ALL)).is_ok();
    rep.set("persistent_accepted", persistent);

    let mut total_states = 0u64;
    let mut total_transitions = 0u64;
    let mut total_traces = 0u64;
    let mut min_depth_completed = max_depth;
    let mut exhaustive = true;
    let mut all_stats = Stats::default();
    let mut lookahead = 0u64;
    let mut diff_pairs = 0u64;

    for name in FAMILY_NAMES {
        let fam = family_by_name(name, persistent).unwrap();
        if let Err(e) = build(&fam) {
            return machinery(e);
        }
        let fresh = match fresh_cache(&fam) {
            Ok(f) => f,
            Err(e) => return machinery(e),
        };
        let notes: Mutex<Vec<String>> = Mutex::new(Vec::new());
        let stats: Mutex<Stats> = Mutex::new(Stats::default());
        let traces = AtomicU64::new(0);
        let look = AtomicU64::new(0);
        let pairs = AtomicU64::new(0);
        let enabled = |_h: &[Ev]| fam.events.clone();
        let eval = |h: &[Ev]| {
            let o = evaluate(&fam, persistent, h, &fresh);
            traces.fetch_add(o.traces, Ordering::Relaxed);
            look.fetch_add(o.lookahead_traces, Ordering::Relaxed);
            pairs.fetch_add(o.differential_pairs, Ordering::Relaxed);
            if !o.machinery.is_empty() {
                let mut n = notes.lock().unwrap();
                if n.len() < 20 {
                    n.extend(o.machinery.iter().take(3).cloned());
                }
            }
            stats.lock().unwrap().merge(&o.stats);
            x2::StepResult { key: o.key, violations: o.violations }
        };
        let depth_override: Option<usize> = std::env::var("TV_C09_DEPTH").ok().and_then(|s| s.parse().ok());
        let fam_depth = depth_override.unwrap_or_else(|| fam.depth.map(|d| ctx.tier.pick(d.0, d.1)).unwrap_or(max_depth));
        let bfs = x2::bfs(fam_depth, ctx.threads, stack, Some(deadline), &enabled, &eval);
        let notes = notes.into_inner().unwrap();
        if let Some(n) = notes.first() {
            return machinery(format!("reference model / harness inconsistency ({} notes), first: {n}", notes.len()));
        }
        eprintln!(
            "[C09] family {name}: {} vars, states {} transitions {} depth {} capped {} at {:.1}s",
            fam.vars.len(),
            bfs.states,
            bfs.transitions,
            bfs.depth_completed,
            bfs.capped,
            ctx.elapsed()
        );
        rep.set(&format!("family_{name}_variables"), fam.vars.len() as u64);
        rep.set(&format!("family_{name}_execution_units"), json!(fam.units.iter().map(|u| u.name.clone()).collect::<Vec<_>>()));
        rep.set(&format!("family_{name}_states"), bfs.states);
        rep.set(&format!("family_{name}_transitions"), bfs.transitions);
        rep.set(&format!("family_{name}_depth_completed"), bfs.depth_completed as u64);
        rep.set(&format!("family_{name}_depth_bound"), fam_depth as u64);
        rep.set(&format!("family_{name}_frontiers"), json!(bfs.frontier_sizes));
        rep.set(&format!("family_{name}_alphabet"), json!(fam.events.iter().map(|e| e.name()).collect::<Vec<_>>()));
        if bfs.capped {
            exhaustive = false;
            rep.cap(format!("family {name}: wall cap reached, depth completed {}", bfs.depth_completed));
        }
        min_depth_completed = min_depth_completed.min(bfs.depth_completed);
        total_states += bfs.states;
        total_transitions += bfs.transitions;
        total_traces += traces.load(Ordering::Relaxed);
        lookahead += look.load(Ordering::Relaxed);
        diff_pairs += pairs.load(Ordering::Relaxed);
        all_stats.merge(&stats.into_inner().unwrap());
        for hs in bfs.sample_histories.iter().take(2) {
            rep.sample(json!({"family": name, "history": hist_json(hs)}));
        }
        rep.violations_from(bfs.violations);
    }

    rep.set("states", total_states);
    rep.set("transitions", total_transitions);
    rep.set("traces_validated_against_impl", total_traces);
    rep.set("lookahead_continuation_traces", lookahead);
    rep.set("cold_vs_fresh_snapshot_pairs_compared", diff_pairs);
    rep.set("max_depth", max_depth as u64);
    rep.set("depth_completed", min_depth_completed as u64);
    rep.set("exhaustive", exhaustive);
    rep.set("warm_restarts_with_retained_value_differing_from_initial", all_stats.warm_nontrivial);
    rep.set("cold_restarts_with_state_differing_from_initial", all_stats.cold_nontrivial);
    rep.set("power_cycles_with_retained_value_differing_from_initial", all_stats.power_nontrivial);
    rep.set("cold_restarts_with_fault_latched", all_stats.cold_with_fault_latched);
    rep.set("binding_relational_checks", all_stats.relational_checks);
    rep.set("cycles_executed", all_stats.cycles_executed);
    rep.set("cycles_refused_because_faulted", all_stats.cycles_refused_faulted);
    rep.set("cycles_in_which_a_task_program_did_not_run", all_stats.task_program_skipped_cycles);
    rep.set("ambiguous_readings_followed_by_the_implementation", json!(all_stats.adopted));
    rep.assume("time, fault latch, task state and cycle counter are only compared differentially (cold restart vs fresh runtime); after a warm restart they are adopted from the implementation because the statement is silent about them");
    rep.assume("whether a task-associated program ran in a cycle is read from that program's own execution counter (scheduling is C06's business)");
    rep.assume("FB members under a RETAIN/PERSISTENT declaration, unqualified variables of a PROGRAM RETAIN instance and VAR_CONFIG initial values accept both readings (see header comment)");
    rep.assume("the %I image is environment: inputs for a cycle are read from the real image before the cycle; continuations write every input before every cycle");
    if exhaustive
        && (all_stats.warm_nontrivial == 0
            || all_stats.cold_nontrivial == 0
            || all_stats.power_nontrivial == 0
            || all_stats.relational_checks == 0
            || all_stats.cold_with_fault_latched == 0
            || lookahead == 0)
    {
        return machinery("vacuous exploration: a restart kind was never exercised with state differing from the initial one");
    }
    Ok(rep)
}

pub fn workers() -> Vec<(&'static str, WorkerFn)> {
    Vec::new()
}
