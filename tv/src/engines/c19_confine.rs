//! C19 (part 1) — web IDE file API: confinement to the project directory, hidden entries, and
//! role / write-mode gating (core X1: bounded-exhaustive enumeration of path strings x operations
//! x session kinds x write_enabled, every case executed on the real `WebIdeState`).
//!
//! Covered sentence of the statement: "For every path string and every session, the browser IDE's
//! file operations (list, open, create, write, rename, delete, search) never read, create, modify
//! or remove anything outside the active project directory, and never touch hidden entries;
//! viewer sessions, expired sessions and write-disabled mode cannot mutate anything."
//!
//! SAFETY OF THE MACHINE WE RUN ON. The subject is handed hostile path strings and is expected to
//! be *broken* when the check is evaluated (a seeded `normalize_workspace_path` regression once
//! turned the string `\` into `remove_dir_all("/")` on the host). Therefore the subject is NEVER
//! called in the main process: every case runs in a child process (`tv --worker c19_confine`) that,
//! before the first case, creates a private directory, `chroot`s into it, `chdir("/")`s, and drops
//! to uid/gid 65534 with no supplementary groups. The sentinel tree, the detectors and the
//! snapshots all live inside that jail; the worker only returns verdicts. If any step of entering
//! the jail fails, the worker reports a machinery error and no case is executed (`execute()`
//! refuses to run unless the jail flag is set). Inside the jail every path string is executed —
//! also `/`, `/etc`, `\etc` …: a decoy `/etc/passwd` and the jail root itself are watched
//! sentinels, so "the subject deleted /etc" is *observed* as `escape-write` instead of happening.
//!
//! The jail (= the sentinel tree; paths as seen by the subject):
//!
//! ```text
//! /                                         jail root, watched
//! /etc/passwd                               decoy sentinel
//! /g5/g4/g3/g2/outer/                       (g5..g2: watched empty levels so that `../../../..` stays visible)
//!     secret.txt  secret.st                 sentinel files next to the project
//!     project2/{other.st, main.st}          sentinel sibling (name has the project dir name as prefix)
//!     project/                              <- the active project root
//!         main.st  "a b.st"  "ü.st"  sub/a.st
//!         .hidden/h.st  .env                hidden entries
//!         link -> ../project2               symlinked DIRECTORY pointing outside (layout "full" only)
//! ```
//!
//! Oracle (nothing beyond the statement):
//!  * escape-write / hidden-write: names, types, contents and link targets of everything outside the
//!    project directory / of the hidden entries are the same after every operation;
//!  * escape-read / hidden-read: nothing an operation returns contains sentinel data of those entries
//!    (unique marker words in their contents, their symbol names, listing paths that resolve outside
//!    the root or have a dot component); if the file system maintains access times (self-tested per
//!    jail), no sentinel entry outside / hidden has been read either;
//!  * <who>-mutation: an operation issued with a viewer token, with a token that is not a live
//!    session, or with `write_enabled = false` leaves the project tree unchanged as well.
//! An *editor* with write access may change anything inside the non-hidden part of the project; the
//! tree is rebuilt after every such change, so every case starts from the same pristine tree and
//! from a fresh `WebIdeState` (cases are self-contained).
//!
//! Change detection: all sentinel entries get atime = mtime = 2001-01-01 when the tree is built, so
//! one `lstat` per entry (type, mode, nlink, size, inode, mtime; atime for the read clause) detects
//! every create/remove/rename/write/read independent of timestamp granularity. A full snapshot of
//! the whole jail (contents) is taken whenever the detector fires, on every replay, and at the end
//! of every work unit (a difference the detector missed is a machinery error).
//!
//! Not covered (said in the report): *expired* sessions — `WebIdeState::with_clock` is
//! `#[cfg(test)]` and private, the TTL (15 min) and the clock are not configurable through the
//! public API, so a session cannot be expired without waiting; an unknown token stands in for it
//! (after `prune_expired` an expired token *is* an unknown token). Reads that leave no trace in the
//! result are only seen through access times. `stat`-like probes of outside entries are invisible.
//! `browse_directory` / `set_active_project` are the documented project picker (they work outside
//! any project by design): only "writes nothing" is demanded of them. Pre-planted symlinked *files*
//! are outside the statement's list and are not tested. Hidden entries exist only at the project
//! root: deleting/renaming a visible directory necessarily takes its hidden children along, which
//! a reasonable reading of the statement allows.

use crate::fw::*;
use crate::iso::{self, PoolCfg, WorkerFn};
use serde_json::{json, Value};
use std::collections::{BTreeMap, HashSet};
use std::os::unix::fs::MetadataExt;
use std::path::{Path, PathBuf};
use std::sync::atomic::{AtomicBool, Ordering};
use std::sync::Mutex;
use std::time::{Duration, Instant};
use trust_runtime::web::ide::{IdeError, IdeRole, WebIdeState};

/// Name of the crash-isolated, jailed worker (`tv --worker c19_confine`).
pub const WORKER: &str = "c19_confine";
const ENV_JAIL_BASE: &str = "TV_C19_JAIL_BASE";
const NOBODY: u32 = 65534;

// -------------------------------------------------------------------------------------------------
// the jail
// -------------------------------------------------------------------------------------------------

/// Set once the process is chroot-ed and unprivileged. `execute()` refuses to call the subject
/// while it is false.
static JAILED: AtomicBool = AtomicBool::new(false);
/// (device, inode) of the jail root as seen right after chroot; `/` must stay this directory.
static JAIL_ROOT: Mutex<Option<(u64, u64)>> = Mutex::new(None);

fn root_id() -> Option<(u64, u64)> {
    std::fs::symlink_metadata("/").ok().map(|m| (m.dev(), m.ino()))
}

fn os_err(what: &str) -> String {
    format!("jail: {what} failed: {}", std::io::Error::last_os_error())
}

/// chroot into a fresh private directory below `base`, chdir("/"), drop to nobody. Every step is
/// verified; any failure is an error (the caller then refuses to run cases).
pub(crate) fn enter_jail(base: &str) -> Result<(), String> {
    use std::os::unix::ffi::OsStrExt;
    if JAILED.load(Ordering::SeqCst) {
        return Ok(());
    }
    if base.is_empty() {
        return Err(format!("jail: {ENV_JAIL_BASE} is not set"));
    }
    let top = PathBuf::from(base).join(format!("jail-{}", std::process::id()));
    let _ = std::fs::remove_dir_all(&top);
    std::fs::create_dir_all(&top).map_err(|e| format!("jail: cannot create {}: {e}", top.display()))?;
    let c = std::ffi::CString::new(top.as_os_str().as_bytes()).map_err(|e| format!("jail: {e}"))?;
    let root = std::ffi::CString::new("/").unwrap();
    // SAFETY: plain libc calls with valid NUL-terminated strings / null pointers where allowed.
    unsafe {
        if libc::chown(c.as_ptr(), NOBODY, NOBODY) != 0 {
            return Err(os_err("chown(jail)"));
        }
        if libc::chmod(c.as_ptr(), 0o755) != 0 {
            return Err(os_err("chmod(jail)"));
        }
        if libc::chroot(c.as_ptr()) != 0 {
            return Err(os_err("chroot"));
        }
        if libc::chdir(root.as_ptr()) != 0 {
            return Err(os_err("chdir(/)"));
        }
        if libc::setgroups(0, std::ptr::null()) != 0 {
            return Err(os_err("setgroups(0)"));
        }
        if libc::setgid(NOBODY) != 0 {
            return Err(os_err("setgid"));
        }
        if libc::setuid(NOBODY) != 0 {
            return Err(os_err("setuid"));
        }
        if libc::getuid() != NOBODY || libc::geteuid() != NOBODY || libc::getgid() != NOBODY || libc::getegid() != NOBODY {
            return Err("jail: still privileged after setuid/setgid".into());
        }
        if libc::setuid(0) == 0 || libc::seteuid(0) == 0 {
            return Err("jail: privileges can be regained".into());
        }
    }
    // the new root must be our empty private directory, not the host
    for host in ["/proc", "/usr", "/bin", "/lib", "/root", "/home", "/verif", "/repo", "/dev"] {
        if Path::new(host).symlink_metadata().is_ok() {
            return Err(format!("jail: {host} is visible after chroot"));
        }
    }
    match std::fs::read_dir("/") {
        Ok(rd) => {
            if rd.count() != 0 {
                return Err("jail: the new root is not empty".into());
            }
        }
        Err(e) => return Err(format!("jail: cannot list the new root: {e}")),
    }
    match std::env::current_dir() {
        Ok(d) if d == Path::new("/") => {}
        other => return Err(format!("jail: unexpected working directory {other:?}")),
    }
    let Some(id) = root_id() else { return Err("jail: cannot stat the new root".into()) };
    *JAIL_ROOT.lock().unwrap_or_else(|p| p.into_inner()) = Some(id);
    JAILED.store(true, Ordering::SeqCst);
    Ok(())
}

/// Belt and braces, checked before every work unit.
pub(crate) fn still_jailed() -> Result<(), String> {
    if !JAILED.load(Ordering::SeqCst) {
        return Err("jail: not entered".into());
    }
    // SAFETY: getters without arguments.
    let (u, g) = unsafe { (libc::geteuid(), libc::getegid()) };
    if u != NOBODY || g != NOBODY {
        return Err(format!("jail: running as uid {u} gid {g}"));
    }
    // `/` must still be the private directory we chroot-ed into (a broken subject may create any
    // name inside the jail, so names prove nothing; the root's identity does)
    let expect = *JAIL_ROOT.lock().unwrap_or_else(|p| p.into_inner());
    if expect.is_none() || root_id() != expect {
        return Err("jail: `/` is not the jail root".into());
    }
    Ok(())
}

// -------------------------------------------------------------------------------------------------
// sentinel tree (paths relative to the jail root)
// -------------------------------------------------------------------------------------------------

/// 2001-01-01T00:00:00Z — every sentinel entry gets this atime/mtime.
const OLD_SECS: i64 = 978_307_200;

const OUTER_REL: &str = "g5/g4/g3/g2/outer";
const PROJECT_REL: &str = "g5/g4/g3/g2/outer/project";
const P2_REL: &str = "g5/g4/g3/g2/outer/project2";
const OUTER_ABS: &str = "/g5/g4/g3/g2/outer";
const PROJECT_ABS: &str = "/g5/g4/g3/g2/outer/project";

const EDITOR_PAYLOAD: &str = "(* ZQEDITORPAYLOAD *)\nPROGRAM ZqInEdited\nEND_PROGRAM\n";
const UNKNOWN_TOKEN: &str = "c19-confine-token-that-was-never-issued";

#[derive(Clone, Copy, PartialEq, Eq, Debug)]
enum Layout {
    /// with `project/link -> ../project2`
    Full,
    /// without the symlink
    NoLink,
}

impl Layout {
    fn as_str(self) -> &'static str {
        match self {
            Layout::Full => "full",
            Layout::NoLink => "nolink",
        }
    }
    fn parse(s: &str) -> Layout {
        if s == "nolink" {
            Layout::NoLink
        } else {
            Layout::Full
        }
    }
    fn idx(self) -> usize {
        match self {
            Layout::Full => 0,
            Layout::NoLink => 1,
        }
    }
}

#[derive(Clone, Copy, PartialEq, Eq, Debug)]
enum Zone {
    Outside,
    Hidden,
    Project,
}

enum Kind {
    Dir,
    File(&'static str),
    Link(&'static str),
}

/// (path relative to the jail root, kind). Order: parents before children.
fn tree_spec(layout: Layout) -> Vec<(String, Kind)> {
    let mut v: Vec<(String, Kind)> = vec![
        ("etc".into(), Kind::Dir),
        ("etc/passwd".into(), Kind::File("ZQOUTETCPASSWD root:x:0:0:root:/root:/bin/sh\n")),
        ("g5".into(), Kind::Dir),
        ("g5/g4".into(), Kind::Dir),
        ("g5/g4/g3".into(), Kind::Dir),
        ("g5/g4/g3/g2".into(), Kind::Dir),
        (OUTER_REL.into(), Kind::Dir),
    ];
    let o = |rel: &str, k: Kind| (format!("{OUTER_REL}/{rel}"), k);
    v.push(o("secret.txt", Kind::File("ZQOUTUPTXT top secret\n")));
    v.push(o(
        "secret.st",
        Kind::File("(* ZQOUTUPST *)\nPROGRAM ZqOutUpSt\nVAR\n    zqoutupvar : INT;\nEND_VAR\nEND_PROGRAM\n"),
    ));
    v.push(o("project2", Kind::Dir));
    v.push(o(
        "project2/other.st",
        Kind::File("(* ZQOUTP2OTHER *)\nFUNCTION ZqOutP2Other : INT\nVAR_INPUT\n    x : INT;\nEND_VAR\nZqOutP2Other := x;\nEND_FUNCTION\n"),
    ));
    v.push(o("project2/main.st", Kind::File("(* ZQOUTP2MAIN *)\nPROGRAM ZqOutP2Main\nEND_PROGRAM\n")));
    v.push(o("project", Kind::Dir));
    // line 4, character 12 of main.st is on `ZqInHelper`
    v.push(o(
        "project/main.st",
        Kind::File("PROGRAM Main\nVAR\n    counter : INT;\nEND_VAR\ncounter := ZqInHelper(counter);\nEND_PROGRAM\n"),
    ));
    v.push(o("project/a b.st", Kind::File("(* ZQINSPACE *)\nPROGRAM ZqInSpace\nEND_PROGRAM\n")));
    v.push(o("project/ü.st", Kind::File("(* ZQINUML *)\nPROGRAM ZqInUml\nEND_PROGRAM\n")));
    v.push(o("project/sub", Kind::Dir));
    v.push(o(
        "project/sub/a.st",
        Kind::File("FUNCTION ZqInHelper : INT\nVAR_INPUT\n    x : INT;\nEND_VAR\nZqInHelper := x + 1;\nEND_FUNCTION\n"),
    ));
    v.push(o("project/.hidden", Kind::Dir));
    v.push(o(
        "project/.hidden/h.st",
        Kind::File("(* ZQHIDDENH *)\nPROGRAM ZqHiddenH\nVAR\n    v : INT;\nEND_VAR\nv := ZqInHelper(v);\nEND_PROGRAM\n"),
    ));
    v.push(o("project/.env", Kind::File("ZQHIDDENENV=1\n")));
    if layout == Layout::Full {
        v.push(o("project/link", Kind::Link("../project2")));
    }
    v
}

fn zone_of(rel: &str) -> Zone {
    if rel == PROJECT_REL {
        return Zone::Project;
    }
    match rel.strip_prefix(PROJECT_REL).and_then(|r| r.strip_prefix('/')) {
        Some(rest) => {
            if rest.starts_with('.') {
                Zone::Hidden
            } else {
                Zone::Project
            }
        }
        None => Zone::Outside,
    }
}

fn short(rel: &str) -> &str {
    if rel.is_empty() {
        return "/ (jail root)";
    }
    rel.strip_prefix("g5/g4/g3/g2/").unwrap_or(rel)
}

#[derive(Clone, PartialEq, Eq, Debug)]
struct StatKey {
    kind: u8,
    mode: u32,
    nlink: u64,
    size: u64,
    ino: u64,
    mtime: (i64, i64),
}

struct Watched {
    abs: PathBuf,
    rel: String,
    zone: Zone,
    key: StatKey,
    atime: (i64, i64),
}

#[derive(Clone, PartialEq, Eq, Debug)]
enum Node {
    Dir,
    File(Vec<u8>),
    Link(String),
    Other,
}

type Snapshot = BTreeMap<String, Node>;

#[derive(Default, Clone, Copy)]
struct FastDiff {
    out_w: u32,
    hid_w: u32,
    proj_w: u32,
    out_r: u32,
    hid_r: u32,
}

impl FastDiff {
    fn clean(&self) -> bool {
        self.out_w | self.hid_w | self.proj_w | self.out_r | self.hid_r == 0
    }
}

/// The sentinel tree = the whole jail.
struct Tree {
    top: PathBuf,
    layout: Layout,
    project: PathBuf,
    watched: Vec<Watched>,
    pristine: [Option<Snapshot>; 2],
    dirty: bool,
    atime_ok: bool,
    /// listing a directory moves the directory's access time as well
    atime_dir_ok: bool,
    rebuilds: u64,
}

fn io_err(what: &str, p: &Path, e: std::io::Error) -> String {
    format!("sentinel tree: {what} {}: {e}", p.display())
}

fn stamp_old(path: &Path) -> Result<(), String> {
    use std::os::unix::ffi::OsStrExt;
    let c = std::ffi::CString::new(path.as_os_str().as_bytes()).map_err(|e| format!("cstring: {e}"))?;
    // SAFETY: zero is a valid bit pattern for timespec; the pointers are valid for the call.
    let mut ts: [libc::timespec; 2] = unsafe { std::mem::zeroed() };
    ts[0].tv_sec = OLD_SECS as libc::time_t;
    ts[1].tv_sec = OLD_SECS as libc::time_t;
    let r = unsafe { libc::utimensat(libc::AT_FDCWD, c.as_ptr(), ts.as_ptr(), libc::AT_SYMLINK_NOFOLLOW) };
    if r != 0 {
        return Err(io_err("utimensat", path, std::io::Error::last_os_error()));
    }
    Ok(())
}

fn stat_key(p: &Path) -> Option<(StatKey, (i64, i64))> {
    let md = std::fs::symlink_metadata(p).ok()?;
    let ft = md.file_type();
    let kind = if ft.is_symlink() {
        b'l'
    } else if ft.is_dir() {
        b'd'
    } else if ft.is_file() {
        b'f'
    } else {
        b'?'
    };
    Some((
        StatKey {
            kind,
            mode: md.mode(),
            nlink: md.nlink(),
            size: md.size(),
            ino: md.ino(),
            mtime: (md.mtime(), md.mtime_nsec()),
        },
        (md.atime(), md.atime_nsec()),
    ))
}

fn snapshot_into(dir: &Path, rel: &str, out: &mut Snapshot) {
    let Ok(rd) = std::fs::read_dir(dir) else { return };
    for e in rd.flatten() {
        let name = e.file_name().to_string_lossy().to_string();
        let r = if rel.is_empty() { name.clone() } else { format!("{rel}/{name}") };
        let p = e.path();
        let Ok(md) = std::fs::symlink_metadata(&p) else { continue };
        let ft = md.file_type();
        if ft.is_symlink() {
            let t = std::fs::read_link(&p).map(|t| t.to_string_lossy().to_string()).unwrap_or_default();
            out.insert(r, Node::Link(t));
        } else if ft.is_dir() {
            out.insert(r.clone(), Node::Dir);
            snapshot_into(&p, &r, out);
        } else if ft.is_file() {
            out.insert(r, Node::File(std::fs::read(&p).unwrap_or_default()));
        } else {
            out.insert(r, Node::Other);
        }
    }
}

/// (sign, path relative to the jail root, zone); sign '+' new, '-' gone, '~' changed
fn diff_snap(a: &Snapshot, b: &Snapshot) -> Vec<(char, String, Zone)> {
    let mut d = Vec::new();
    for (k, v) in a {
        match b.get(k) {
            None => d.push(('-', k.clone(), zone_of(k))),
            Some(w) if w != v => d.push(('~', k.clone(), zone_of(k))),
            _ => {}
        }
    }
    for k in b.keys() {
        if !a.contains_key(k) {
            d.push(('+', k.clone(), zone_of(k)));
        }
    }
    d
}

impl Tree {
    /// Only callable inside the jail: the tree is built at `/`.
    fn new() -> Result<Tree, String> {
        still_jailed()?;
        let top = PathBuf::from("/");
        let mut t = Tree {
            project: top.join(PROJECT_REL),
            top,
            layout: Layout::Full,
            watched: Vec::new(),
            pristine: [None, None],
            dirty: false,
            atime_ok: false,
            atime_dir_ok: false,
            rebuilds: 0,
        };
        t.set_layout(Layout::Full)?;
        t.self_test()?;
        Ok(t)
    }

    fn pristine(&self) -> &Snapshot {
        self.pristine[self.layout.idx()].as_ref().expect("pristine snapshot")
    }

    /// Switches the layout (rebuilds) and makes sure its pristine snapshot exists.
    fn set_layout(&mut self, layout: Layout) -> Result<(), String> {
        if self.layout != layout || self.watched.is_empty() {
            self.layout = layout;
            self.build()?;
        }
        if self.pristine[layout.idx()].is_none() {
            self.build()?;
            let s = self.snapshot();
            self.pristine[layout.idx()] = Some(s);
            // the snapshot read the files: start again from fresh stamps
            self.build()?;
        }
        Ok(())
    }

    /// Empties the jail and builds the tree of the current layout.
    fn build(&mut self) -> Result<(), String> {
        still_jailed()?;
        let rd = std::fs::read_dir(&self.top).map_err(|e| io_err("read_dir", &self.top, e))?;
        for e in rd.flatten() {
            let p = e.path();
            let is_dir = e.file_type().map(|t| t.is_dir()).unwrap_or(false);
            let r = if is_dir { std::fs::remove_dir_all(&p) } else { std::fs::remove_file(&p) };
            r.map_err(|e| io_err("remove", &p, e))?;
        }
        let mut all: Vec<String> = vec![String::new()];
        for (rel, kind) in tree_spec(self.layout) {
            let p = self.top.join(&rel);
            match kind {
                Kind::Dir => std::fs::create_dir(&p).map_err(|e| io_err("mkdir", &p, e))?,
                Kind::File(c) => std::fs::write(&p, c).map_err(|e| io_err("write", &p, e))?,
                Kind::Link(t) => std::os::unix::fs::symlink(t, &p).map_err(|e| io_err("symlink", &p, e))?,
            }
            all.push(rel);
        }
        for rel in &all {
            stamp_old(&self.top.join(rel))?;
        }
        self.watched.clear();
        for rel in all {
            let abs = self.top.join(&rel);
            let (key, atime) = stat_key(&abs).ok_or_else(|| format!("sentinel tree: cannot stat {}", abs.display()))?;
            if key.mtime != (OLD_SECS, 0) || atime != (OLD_SECS, 0) {
                return Err(format!("sentinel tree: time stamps of {} did not stick", abs.display()));
            }
            self.watched.push(Watched { zone: zone_of(&rel), abs, rel, key, atime });
        }
        if self.watched.len() > 32 {
            return Err("sentinel tree: more than 32 watched entries".into());
        }
        self.dirty = false;
        self.rebuilds += 1;
        Ok(())
    }

    fn ensure_pristine(&mut self) -> Result<(), String> {
        if self.dirty {
            self.build()?;
        }
        Ok(())
    }

    fn snapshot(&self) -> Snapshot {
        let mut s = Snapshot::new();
        snapshot_into(&self.top, "", &mut s);
        s
    }

    /// One lstat per sentinel entry.
    fn fast_check(&self) -> FastDiff {
        let mut d = FastDiff::default();
        for (i, w) in self.watched.iter().enumerate() {
            let bit = 1u32 << i;
            match stat_key(&w.abs) {
                Some((key, atime)) => {
                    if key != w.key {
                        match w.zone {
                            Zone::Outside => d.out_w |= bit,
                            Zone::Hidden => d.hid_w |= bit,
                            Zone::Project => d.proj_w |= bit,
                        }
                    } else if atime != w.atime {
                        match w.zone {
                            Zone::Outside => d.out_r |= bit,
                            Zone::Hidden => d.hid_r |= bit,
                            Zone::Project => {}
                        }
                    }
                }
                None => match w.zone {
                    Zone::Outside => d.out_w |= bit,
                    Zone::Hidden => d.hid_w |= bit,
                    Zone::Project => d.proj_w |= bit,
                },
            }
        }
        d
    }

    fn names(&self, mask: u32) -> String {
        let v: Vec<&str> = self
            .watched
            .iter()
            .enumerate()
            .filter(|(i, _)| mask & (1 << i) != 0)
            .map(|(_, w)| short(&w.rel))
            .collect();
        v.join(", ")
    }

    fn bit_of(&self, rel: &str) -> u32 {
        self.watched.iter().position(|w| w.rel == rel).map(|i| 1u32 << i).unwrap_or(0)
    }

    /// Is one of the entries in `mask` inside the symlink target `project2`?
    fn mask_in_p2(&self, mask: u32) -> bool {
        self.watched
            .iter()
            .enumerate()
            .any(|(i, w)| mask & (1 << i) != 0 && w.rel.starts_with(P2_REL))
    }

    /// The detector must see a content change of equal size, a create+remove in a directory, the
    /// loss of the decoy and (if the file system maintains access times) a read.
    fn self_test(&mut self) -> Result<(), String> {
        if !self.fast_check().clean() {
            return Err("sentinel tree: change detector fires on an untouched tree".into());
        }
        let secret = self.top.join(OUTER_REL).join("secret.txt");
        let _ = std::fs::read(&secret);
        let d = self.fast_check();
        self.atime_ok = d.out_r != 0;
        if d.out_w != 0 {
            return Err("sentinel tree: a read looks like a write".into());
        }
        let _ = std::fs::read_dir(self.top.join(P2_REL)).map(|rd| rd.count());
        let d = self.fast_check();
        self.atime_dir_ok = self.atime_ok && d.out_r & self.bit_of(P2_REL) != 0;
        std::fs::write(&secret, "zqoutuptxt TOP SECRET\n").map_err(|e| io_err("write", &secret, e))?;
        if self.fast_check().out_w == 0 {
            return Err("sentinel tree: change detector missed an equal-size overwrite".into());
        }
        self.build()?;
        let probe = self.top.join("g5/g4/g3/zz");
        std::fs::write(&probe, "x").map_err(|e| io_err("write", &probe, e))?;
        std::fs::remove_file(&probe).map_err(|e| io_err("rm", &probe, e))?;
        if self.fast_check().out_w == 0 {
            return Err("sentinel tree: change detector missed create+remove in a directory".into());
        }
        self.build()?;
        let h = self.project.join(".hidden/h.st");
        std::fs::remove_file(&h).map_err(|e| io_err("rm", &h, e))?;
        if self.fast_check().hid_w == 0 {
            return Err("sentinel tree: change detector missed the removal of a hidden file".into());
        }
        self.build()?;
        let etc = self.top.join("etc");
        std::fs::remove_dir_all(&etc).map_err(|e| io_err("rm -r", &etc, e))?;
        let d = self.fast_check();
        if d.out_w & self.bit_of("") == 0 || d.out_w & self.bit_of("etc/passwd") == 0 {
            return Err("sentinel tree: change detector missed the removal of /etc".into());
        }
        self.build()?;
        if &self.snapshot() != self.pristine() {
            return Err("sentinel tree: rebuild is not identical to the first build".into());
        }
        self.build()?;
        Ok(())
    }
}

// -------------------------------------------------------------------------------------------------
// cases
// -------------------------------------------------------------------------------------------------

#[derive(Clone, Copy, PartialEq, Eq, Debug, PartialOrd, Ord)]
enum Op {
    ListSources,
    ListTree,
    Search,
    WorkspaceSymbols,
    Browse,
    SetActiveProject,
    Open,
    CreateFile,
    CreateDir,
    Apply,
    Delete,
    Format,
    Rename,
    FileSymbols,
    Diagnostics,
    Hover,
    Completion,
    Definition,
    References,
    RenameSymbol,
}

const ALL_OPS: &[Op] = &[
    Op::ListSources,
    Op::ListTree,
    Op::Search,
    Op::WorkspaceSymbols,
    Op::Browse,
    Op::SetActiveProject,
    Op::Open,
    Op::CreateFile,
    Op::CreateDir,
    Op::Apply,
    Op::Delete,
    Op::Format,
    Op::Rename,
    Op::FileSymbols,
    Op::Diagnostics,
    Op::Hover,
    Op::Completion,
    Op::Definition,
    Op::References,
    Op::RenameSymbol,
];

impl Op {
    fn as_str(self) -> &'static str {
        match self {
            Op::ListSources => "list_sources",
            Op::ListTree => "list_tree",
            Op::Search => "workspace_search",
            Op::WorkspaceSymbols => "workspace_symbols",
            Op::Browse => "browse_directory",
            Op::SetActiveProject => "set_active_project",
            Op::Open => "open_source",
            Op::CreateFile => "create_entry_file",
            Op::CreateDir => "create_entry_dir",
            Op::Apply => "apply_source",
            Op::Delete => "delete_entry",
            Op::Format => "format_source",
            Op::Rename => "rename_entry",
            Op::FileSymbols => "file_symbols",
            Op::Diagnostics => "diagnostics",
            Op::Hover => "hover",
            Op::Completion => "completion",
            Op::Definition => "definition",
            Op::References => "references",
            Op::RenameSymbol => "rename_symbol",
        }
    }
    fn parse(s: &str) -> Option<Op> {
        ALL_OPS.iter().copied().find(|o| o.as_str() == s)
    }
    /// takes the `write_enabled` flag
    fn has_we(self) -> bool {
        matches!(self, Op::CreateFile | Op::CreateDir | Op::Apply | Op::Delete | Op::Rename | Op::RenameSymbol)
    }
    /// `p1` is a workspace path
    fn p1_is_path(self) -> bool {
        !matches!(self, Op::ListSources | Op::ListTree | Op::Search | Op::WorkspaceSymbols)
    }
    /// documented project picker: reads outside any project by design
    fn is_picker(self) -> bool {
        matches!(self, Op::Browse | Op::SetActiveProject)
    }
}

#[derive(Clone, Copy, PartialEq, Eq, Debug)]
enum Sess {
    Editor,
    Viewer,
    Unknown,
}

const SESSIONS: &[Sess] = &[Sess::Editor, Sess::Viewer, Sess::Unknown];

impl Sess {
    fn as_str(self) -> &'static str {
        match self {
            Sess::Editor => "editor",
            Sess::Viewer => "viewer",
            Sess::Unknown => "unknown",
        }
    }
    fn parse(s: &str) -> Sess {
        match s {
            "editor" => Sess::Editor,
            "viewer" => Sess::Viewer,
            _ => Sess::Unknown,
        }
    }
}

#[derive(Clone, Debug)]
struct Case {
    op: Op,
    /// path as handed to the subject (or query for search / symbols); absolute strings are
    /// absolute inside the jail
    p1: String,
    /// rename_entry: new path; workspace_search: include glob ("" = none)
    p2: String,
    sess: Sess,
    we: bool,
    layout: Layout,
}

impl Case {
    fn to_json(&self) -> Value {
        json!({
            "part": "confine",
            "op": self.op.as_str(),
            "path": self.p1,
            "path2": self.p2,
            "session": self.sess.as_str(),
            "write_enabled": self.we,
            "layout": self.layout.as_str(),
        })
    }
    fn from_json(v: &Value) -> Option<Case> {
        Some(Case {
            op: Op::parse(v["op"].as_str()?)?,
            p1: v["path"].as_str()?.to_string(),
            p2: v["path2"].as_str().unwrap_or("").to_string(),
            sess: Sess::parse(v["session"].as_str()?),
            we: v["write_enabled"].as_bool().unwrap_or(true),
            layout: Layout::parse(v["layout"].as_str().unwrap_or("full")),
        })
    }
}

fn show(p: &str) -> String {
    let e: String = p.escape_debug().collect();
    if e.chars().count() > 70 {
        let head: String = e.chars().take(30).collect();
        let tail: String = e.chars().rev().take(25).collect::<Vec<_>>().into_iter().rev().collect();
        format!("\"{head}…({} chars)…{tail}\"", e.chars().count())
    } else {
        format!("\"{e}\"")
    }
}

// -------------------------------------------------------------------------------------------------
// path strings
// -------------------------------------------------------------------------------------------------

/// Component menu (17 entries). Deeper levels use a prefix of it: the first `CORE` entries (quick,
/// length 3) or the first `GIVEN` entries (thorough, length 4). The last three entries are file
/// names that exist below `sub/`, `link/` and `.hidden/`, so that `sub/a.st`, `link/other.st` and
/// `.hidden/h.st` are addressable.
fn menu() -> Vec<String> {
    vec![
        "main.st".into(),
        "a".into(),
        "sub".into(),
        "..".into(),
        ".".into(),
        "".into(),
        ".hidden".into(),
        "link".into(),
        "project2".into(),
        "secret.st".into(),
        // --- end of the core menu
        ".env".into(),
        "a b.st".into(),
        "ü.st".into(),
        "x".repeat(300),
        // --- end of the given menu
        "a.st".into(),
        "other.st".into(),
        "h.st".into(),
    ]
}
const CORE: usize = 10;
const GIVEN: usize = 14;
const FULL: usize = 17;

const JOINERS: &[&str] = &["/", "//", "\\"];

#[derive(Clone, Copy, PartialEq, Eq, Debug)]
enum Deco {
    None,
    Trailing,
    DotSlash,
    Spaces,
    LeadSlash,
    AbsOuter,
    Drive,
    UrlEnc,
    Nul,
}
const DECOS: &[Deco] = &[
    Deco::None,
    Deco::Trailing,
    Deco::DotSlash,
    Deco::Spaces,
    Deco::LeadSlash,
    Deco::AbsOuter,
    Deco::Drive,
    Deco::UrlEnc,
    Deco::Nul,
];

fn decorate(comps: &[&str], joiner: &str, deco: Deco) -> Option<String> {
    let base = comps.join(joiner);
    Some(match deco {
        Deco::None => base,
        Deco::Trailing => format!("{base}/"),
        Deco::DotSlash => format!("./{base}"),
        Deco::Spaces => format!(" {base} "),
        Deco::LeadSlash => format!("/{base}"),
        Deco::AbsOuter => format!("{OUTER_ABS}/{base}"),
        Deco::Drive => format!("C:\\{base}"),
        Deco::UrlEnc => {
            if !comps.contains(&"..") {
                return None;
            }
            comps.iter().map(|c| if *c == ".." { "%2e%2e" } else { c }).collect::<Vec<_>>().join(joiner)
        }
        Deco::Nul => format!("{base}\0"),
    })
}

/// Hand-picked strings that aim at the jail root and the decoy `/etc` in Unix, Windows and URL
/// spelling (the generated strings already contain `/`, `\`, `\\`, `/..`, `\..` …).
const EXTRA_STRINGS: &[&str] = &[
    "/etc",
    "/etc/passwd",
    "\\etc",
    "\\etc\\passwd",
    "\\etc\\..",
    "/etc/..",
    "C:\\etc",
    "%2fetc",
    "%5cetc",
    "..\\secret.st",
    "sub\\..\\..\\secret.st",
    "..\\..\\..\\..\\..\\etc\\passwd",
    "../../../../../etc/passwd",
    "\\g5\\g4\\g3\\g2\\outer\\secret.st",
    "\\g5\\g4\\g3\\g2\\outer\\project2\\main.st",
    "\\g5\\g4\\g3\\g2\\outer\\project\\.env",
];

fn hash_str(s: &str) -> u64 {
    use std::hash::{Hash, Hasher};
    let mut h = std::collections::hash_map::DefaultHasher::new();
    s.hash(&mut h);
    h.finish()
}

/// All path strings, simplest first (fewer components, then plain before decorated, `/` before the
/// other joiners), without duplicates. `levels[n-1]` = size of the menu prefix used for sequences
/// of n components. The hand-picked strings follow the one-component level.
fn path_strings(levels: &[usize], with_extras: bool) -> Vec<String> {
    let m = menu();
    let mut seen: HashSet<u64> = HashSet::new();
    let mut out = Vec::new();
    for (li, &msize) in levels.iter().enumerate() {
        let n = li + 1;
        let total = msize.pow(n as u32);
        let joiners: &[&str] = if n == 1 { &JOINERS[..1] } else { JOINERS };
        for &deco in DECOS {
            for joiner in joiners {
                for mut idx in 0..total {
                    // most significant digit = first component, so simple prefixes come first
                    let mut comps: Vec<&str> = vec![""; n];
                    for k in (0..n).rev() {
                        comps[k] = m[idx % msize].as_str();
                        idx /= msize;
                    }
                    if let Some(s) = decorate(&comps, joiner, deco) {
                        if seen.insert(hash_str(&s)) {
                            out.push(s);
                        }
                    }
                }
            }
        }
        if n == 1 && with_extras {
            for s in EXTRA_STRINGS {
                if seen.insert(hash_str(s)) {
                    out.push(s.to_string());
                }
            }
        }
    }
    out
}

/// Shape features of a path string that matter for confinement (cosmetic ones — spaces, unicode,
/// length, `//`, `.`-components, trailing slash — are deliberately left out of signatures).
fn tags(p: &str, layout: Layout) -> String {
    let t = p.trim();
    let mut v: Vec<&str> = Vec::new();
    if t.starts_with('/') {
        v.push("absolute");
    }
    if t.starts_with('\\') {
        v.push("backslash-lead");
    }
    if t.starts_with("C:\\") {
        v.push("drive-prefix");
    }
    let comps: Vec<&str> = t.split('/').collect();
    if comps.iter().any(|c| *c == "..") {
        v.push("dotdot");
    } else if t.split(['/', '\\']).any(|c| c == "..") {
        v.push("backslash-dotdot");
    }
    let lc = t.to_ascii_lowercase();
    if lc.contains("%2e") || lc.contains("%2f") || lc.contains("%5c") {
        v.push("urlenc");
    }
    if comps.iter().any(|c| c.starts_with('.') && *c != "." && *c != "..") {
        v.push("hidden-component");
    } else if comps.iter().any(|c| !c.starts_with('.') && c.trim_start().starts_with('.')) {
        v.push("padded-dot");
    }
    if layout == Layout::Full {
        // lexical walk relative to the project: does the path go through / name the project's symlink?
        let rel = match t.strip_prefix(PROJECT_ABS) {
            Some(r) if r.is_empty() || r.starts_with('/') => Some(r),
            _ if t.starts_with('/') => None,
            _ => Some(t),
        };
        if let Some(rel) = rel {
            let mut stack: Vec<&str> = Vec::new();
            for c in rel.split('/') {
                match c {
                    "" | "." => {}
                    ".." => {
                        stack.pop();
                    }
                    c => stack.push(c),
                }
            }
            if stack.first() == Some(&"link") {
                v.push(if stack.len() > 1 { "symlink-dir" } else { "symlink-entry" });
            }
        }
    }
    if t.contains('\0') {
        v.push("nul");
    }
    // Windows / URL syntax can only be the cause where nothing stronger is present (a path with a
    // real `..`, a dot component, the symlink ... is explained by that), so the weak tags are kept
    // only when they stand alone; this keeps one defect from fanning out into many signatures.
    // Of several weak tags only the most telling one is kept (priority order below).
    const WEAK: &[&str] = &["backslash-dotdot", "backslash-lead", "drive-prefix", "backslash", "urlenc", "padded-dot"];
    if t.contains('\\') && !v.iter().any(|x| x.starts_with("backslash") || *x == "drive-prefix") {
        v.push("backslash");
    }
    if v.iter().any(|t| !WEAK.contains(t)) {
        v.retain(|t| !WEAK.contains(t));
    } else if v.len() > 1 {
        let best = WEAK.iter().copied().find(|w| v.contains(w)).unwrap_or(v[0]);
        v = vec![best];
    }
    if v.is_empty() {
        "plain".to_string()
    } else {
        v.join("+")
    }
}

// -------------------------------------------------------------------------------------------------
// executing one case on the real code (inside the jail only)
// -------------------------------------------------------------------------------------------------

fn to_v<T: serde::Serialize>(t: T) -> Value {
    serde_json::to_value(t).unwrap_or(Value::Null)
}

fn run_op(st: &WebIdeState, tok: &str, c: &Case) -> Result<Value, IdeError> {
    let (p1, p2) = (c.p1.as_str(), c.p2.as_str());
    // `Position` of trust-wasm-analysis is not re-exported; it is `Deserialize`.
    macro_rules! pos {
        () => {
            serde_json::from_value(json!({"line": 4, "character": 12})).expect("position")
        };
    }
    Ok(match c.op {
        Op::ListSources => to_v(st.list_sources(tok)?),
        Op::ListTree => to_v(st.list_tree(tok)?),
        Op::Search => to_v(st.workspace_search(tok, p1, if p2.is_empty() { None } else { Some(p2) }, None, 1000)?),
        Op::WorkspaceSymbols => to_v(st.workspace_symbols(tok, p1, 1000)?),
        Op::Browse => to_v(st.browse_directory(tok, if p1.is_empty() { None } else { Some(p1) })?),
        Op::SetActiveProject => to_v(st.set_active_project(tok, p1)?),
        Op::Open => to_v(st.open_source(tok, p1)?),
        Op::CreateFile => to_v(st.create_entry(tok, p1, false, Some(EDITOR_PAYLOAD.to_string()), c.we)?),
        Op::CreateDir => to_v(st.create_entry(tok, p1, true, None, c.we)?),
        // a fresh state tracks every document at version 1
        Op::Apply => to_v(st.apply_source(tok, p1, 1, EDITOR_PAYLOAD.to_string(), c.we)?),
        Op::Delete => to_v(st.delete_entry(tok, p1, c.we)?),
        Op::Format => to_v(st.format_source(tok, p1, None)?),
        Op::Rename => to_v(st.rename_entry(tok, p1, p2, c.we)?),
        Op::FileSymbols => to_v(st.file_symbols(tok, p1, "", 1000)?),
        Op::Diagnostics => to_v(st.diagnostics(tok, p1, None)?),
        Op::Hover => to_v(st.hover(tok, p1, None, pos!())?),
        Op::Completion => to_v(st.completion(tok, p1, None, pos!(), Some(1000))?),
        Op::Definition => to_v(st.definition(tok, p1, None, pos!())?),
        Op::References => to_v(st.references(tok, p1, None, pos!(), true)?),
        Op::RenameSymbol => to_v(st.rename_symbol(tok, p1, None, pos!(), "ZqInRenamed", c.we)?),
    })
}

fn collect_paths(v: &Value, out: &mut Vec<String>) {
    match v {
        Value::Array(a) => a.iter().for_each(|x| collect_paths(x, out)),
        Value::Object(o) => {
            for (k, x) in o {
                if k == "path" {
                    if let Some(s) = x.as_str() {
                        out.push(s.to_string());
                    }
                } else {
                    collect_paths(x, out);
                }
            }
        }
        _ => {}
    }
}

struct Outcome {
    /// "ok" or the error kind
    kind: String,
    /// lower-cased serialized result / error message
    text: String,
    /// workspace-relative paths the operation returned
    paths: Vec<String>,
    panic: Option<String>,
}

/// The ONLY place where the subject is called. Refuses to run outside the jail.
fn execute(tree: &Tree, c: &Case) -> Result<Outcome, String> {
    still_jailed()?;
    let project = tree.project.clone();
    let r = catch(|| {
        let st = WebIdeState::new(Some(project));
        let tok = match c.sess {
            Sess::Editor => st.create_session(IdeRole::Editor).map(|s| s.token),
            Sess::Viewer => st.create_session(IdeRole::Viewer).map(|s| s.token),
            Sess::Unknown => Ok(UNKNOWN_TOKEN.to_string()),
        };
        match tok {
            Ok(tok) => run_op(&st, &tok, c),
            Err(e) => Err(e),
        }
    });
    Ok(match r {
        Err(m) => Outcome { kind: "panic".into(), text: String::new(), paths: Vec::new(), panic: Some(m) },
        Ok(Err(e)) => Outcome {
            kind: format!("{:?}", e.kind()),
            text: e.to_string().to_lowercase(),
            paths: Vec::new(),
            panic: None,
        },
        Ok(Ok(v)) => {
            let mut paths = Vec::new();
            if c.op == Op::ListSources {
                if let Some(a) = v.as_array() {
                    paths.extend(a.iter().filter_map(|s| s.as_str().map(str::to_string)));
                }
            } else if !c.op.has_we() && !c.op.is_picker() {
                collect_paths(&v, &mut paths);
            }
            Outcome { kind: "ok".into(), text: v.to_string().to_lowercase(), paths, panic: None }
        }
    })
}

// -------------------------------------------------------------------------------------------------
// oracle
// -------------------------------------------------------------------------------------------------

fn norm_msg(m: &str) -> String {
    let s: String = m.chars().map(|c| if c.is_ascii_digit() { '#' } else { c }).take(60).collect();
    s
}

#[derive(Default)]
struct Stats {
    evaluations: u64,
    nontrivial: u64,
    full_snapshots: u64,
    confirm_runs: u64,
    /// "operation|outcome kind" -> count
    outcomes: BTreeMap<String, u64>,
    /// operation -> cases in which an editor legitimately changed the project
    editor_changes: BTreeMap<String, u64>,
    /// operation -> cases answered Ok for a viewer (read side is alive)
    viewer_ok: BTreeMap<String, u64>,
}

fn map_to_json(m: &BTreeMap<String, u64>) -> Value {
    let mut o = serde_json::Map::new();
    for (k, v) in m {
        o.insert(k.clone(), json!(v));
    }
    Value::Object(o)
}

fn merge_map(into: &mut BTreeMap<String, u64>, v: &Value) {
    if let Some(o) = v.as_object() {
        for (k, n) in o {
            *into.entry(k.clone()).or_insert(0) += n.as_u64().unwrap_or(0);
        }
    }
}

impl Stats {
    fn to_json(&self) -> Value {
        json!({
            "evaluations": self.evaluations,
            "nontrivial": self.nontrivial,
            "full_snapshots": self.full_snapshots,
            "confirm_runs": self.confirm_runs,
            "outcomes": map_to_json(&self.outcomes),
            "editor_changes": map_to_json(&self.editor_changes),
            "viewer_ok": map_to_json(&self.viewer_ok),
        })
    }
    fn merge_json(&mut self, v: &Value) {
        self.evaluations += v["evaluations"].as_u64().unwrap_or(0);
        self.nontrivial += v["nontrivial"].as_u64().unwrap_or(0);
        self.full_snapshots += v["full_snapshots"].as_u64().unwrap_or(0);
        self.confirm_runs += v["confirm_runs"].as_u64().unwrap_or(0);
        merge_map(&mut self.outcomes, &v["outcomes"]);
        merge_map(&mut self.editor_changes, &v["editor_changes"]);
        merge_map(&mut self.viewer_ok, &v["viewer_ok"]);
    }
}

fn describe_diff(d: &[(char, String, Zone)], zone: Zone) -> String {
    let v: Vec<String> = d
        .iter()
        .filter(|x| x.2 == zone)
        .take(4)
        .map(|(s, p, _)| format!("{s}{}", short(p)))
        .collect();
    v.join(" ")
}

/// What happened to the project tree, for the gating clause.
fn effect_kind(d: &[(char, String, Zone)], after: &Snapshot, targets: &[String]) -> &'static str {
    let proj: Vec<&(char, String, Zone)> = d.iter().filter(|x| x.2 == Zone::Project).collect();
    let added: Vec<&&(char, String, Zone)> = proj.iter().filter(|x| x.0 == '+').collect();
    let removed = proj.iter().filter(|x| x.0 == '-').count();
    let changed = proj.iter().filter(|x| x.0 == '~').count();
    if removed > 0 && !added.is_empty() {
        return "move";
    }
    if removed > 0 {
        return "remove";
    }
    if changed > 0 {
        return "modify";
    }
    if !added.is_empty() {
        let only_dirs = added.iter().all(|x| after.get(&x.1) == Some(&Node::Dir));
        if only_dirs {
            // every new directory is a proper ancestor of a (normalised) target path
            let all_parents = added.iter().all(|x| {
                let rel = x.1.strip_prefix(PROJECT_REL).unwrap_or(&x.1).trim_start_matches('/');
                targets.iter().any(|t| t.starts_with(&format!("{rel}/")))
            });
            return if all_parents { "mkdir-parent" } else { "mkdir" };
        }
        return "create";
    }
    "stat-only"
}

/// Plain lexical normalisation of a relative path string (only used to name the effect
/// `mkdir-parent`, never to decide a verdict).
fn lexical_rel(p: &str) -> String {
    let mut v: Vec<&str> = Vec::new();
    for c in p.trim().split('/') {
        match c {
            "" | "." => {}
            ".." => {
                v.pop();
            }
            c => v.push(c),
        }
    }
    v.join("/")
}

struct Eval {
    violations: Vec<Violation>,
    outcome_kind: String,
}

/// Executes one case on a pristine tree and applies every oracle clause. `replay` = take the full
/// snapshot unconditionally.
fn eval_case(tree: &mut Tree, c: &Case, replay: bool, stats: &mut Stats) -> Result<Eval, String> {
    tree.set_layout(c.layout)?;
    tree.ensure_pristine()?;
    stats.evaluations += 1;
    let out = execute(tree, c)?;
    *stats.outcomes.entry(format!("{}|{}", c.op.as_str(), out.kind)).or_insert(0) += 1;

    let mut fast = tree.fast_check();
    let suspicious = !fast.clean();
    let may_mutate = c.sess == Sess::Editor && (!c.op.has_we() || c.we);

    let mut vs: Vec<Violation> = Vec::new();
    let feature = || {
        if c.op == Op::Rename {
            let (o, n) = (tags(&c.p1, c.layout), tags(&c.p2, c.layout));
            match (o.as_str(), n.as_str()) {
                ("plain", "plain") => "plain".to_string(),
                (_, "plain") => format!("old={o}"),
                ("plain", _) => format!("new={n}"),
                _ => format!("old={o};new={n}"),
            }
        } else if c.op.p1_is_path() {
            tags(&c.p1, c.layout)
        } else {
            "plain".to_string()
        }
    };
    let head = || {
        let args = match c.op {
            Op::Rename => format!("({}, {})", show(&c.p1), show(&c.p2)),
            Op::Search => format!("(query {}, include {})", show(&c.p1), show(&c.p2)),
            Op::ListSources | Op::ListTree => "()".to_string(),
            _ => format!("({})", show(&c.p1)),
        };
        let we = if c.op.has_we() { format!(", write_enabled={}", c.we) } else { String::new() };
        format!("{}{} by {} session{} (layout {}) answered {}", c.op.as_str(), args, c.sess.as_str(), we, c.layout.as_str(), out.kind)
    };
    let mut push = |clause: &str, feat: &str, detail: String| {
        vs.push(Violation {
            signature: format!("C19/{clause}/{}:{feat}", c.op.as_str()),
            what: format!("{}: {detail}", head()),
            case: c.to_json(),
        });
    };

    if let Some(m) = &out.panic {
        push("panic", &norm_msg(m), format!("the subject panicked: {m}"));
    }

    // ---- write clauses
    let mut diff: Vec<(char, String, Zone)> = Vec::new();
    let mut after = Snapshot::new();
    // every time the detector fires (also for a legitimate editor change) the contents are compared
    let take_full = replay || suspicious;
    if take_full {
        stats.full_snapshots += 1;
        after = tree.snapshot();
        diff = diff_snap(tree.pristine(), &after);
    }
    let full_out = diff.iter().any(|d| d.2 == Zone::Outside);
    let full_hid = diff.iter().any(|d| d.2 == Zone::Hidden);
    let full_proj = diff.iter().any(|d| d.2 == Zone::Project);
    if fast.out_w != 0 || full_out {
        push(
            "escape-write",
            &feature(),
            format!(
                "entries OUTSIDE the project directory changed: {} [lstat differs: {}]",
                describe_diff(&diff, Zone::Outside),
                tree.names(fast.out_w)
            ),
        );
    }
    if fast.hid_w != 0 || full_hid {
        push(
            "hidden-write",
            &feature(),
            format!(
                "hidden entries of the project changed: {} [lstat differs: {}]",
                describe_diff(&diff, Zone::Hidden),
                tree.names(fast.hid_w)
            ),
        );
    }

    // ---- read clauses
    // Access times can also be moved by a foreign process that happens to walk over the scratch
    // directory (grep -r, find, an indexer). The subject is deterministic, so access-time evidence
    // counts only if it re-appears in two more executions of the same case on freshly built trees.
    if tree.atime_ok && !c.op.is_picker() && (fast.out_r | fast.hid_r) != 0 {
        for _ in 0..2 {
            tree.build()?;
            let _ = execute(tree, c)?;
            let again = tree.fast_check();
            fast.out_r &= again.out_r;
            fast.hid_r &= again.hid_r;
            stats.confirm_runs += 1;
        }
    }
    let fast = fast;
    let plain_or = |source: &str| {
        let f = feature();
        if f == "plain" {
            source.to_string()
        } else {
            f
        }
    };
    if !c.op.is_picker() {
        let mut esc: Option<(String, String)> = None; // (source feature, detail)
        let mut hid: Option<String> = None;
        if out.text.contains("zqout") {
            let src = if out.text.contains("zqoutp2") { "symlink-dir" } else { "parent-dir" };
            let at = out.text.find("zqout").unwrap_or(0);
            let snippet: String = out.text[at..].chars().take(24).collect();
            esc = Some((src.to_string(), format!("the answer contains sentinel data of a file outside the project ({snippet:?}…)")));
        }
        if out.text.contains("zqhidden") {
            hid = Some("the answer contains sentinel data of a hidden entry".to_string());
        }
        for p in &out.paths {
            if p.split('/').any(|comp| comp.starts_with('.')) {
                hid.get_or_insert_with(|| format!("the answer lists the hidden entry {}", show(p)));
                continue;
            }
            if let Ok(real) = tree.project.join(p).canonicalize() {
                if !real.starts_with(&tree.project) {
                    let src = if real.starts_with(tree.top.join(P2_REL)) { "symlink-dir" } else { "parent-dir" };
                    esc.get_or_insert_with(|| {
                        (src.to_string(), format!("the answer lists {} which is {} outside the project", show(p), real.display()))
                    });
                }
            }
        }
        if tree.atime_ok {
            if fast.out_r != 0 {
                let src = if tree.mask_in_p2(fast.out_r) { "symlink-dir" } else { "parent-dir" };
                esc.get_or_insert_with(|| {
                    (src.to_string(), format!("entries outside the project were read (access time changed): {}", tree.names(fast.out_r)))
                });
            }
            if fast.hid_r != 0 {
                hid.get_or_insert_with(|| format!("hidden entries were read (access time changed): {}", tree.names(fast.hid_r)));
            }
        }
        // A directory that was *listed* (its own access time moved) was reached by a walk over the
        // workspace, not through the path argument: the cause is then the walk, whatever the path.
        let listed = |rel: &str| tree.atime_dir_ok && (fast.out_r | fast.hid_r) & tree.bit_of(rel) != 0;
        if let Some((src, detail)) = esc {
            let feat = if listed(P2_REL) { "symlink-dir".to_string() } else { plain_or(&src) };
            push("escape-read", &feat, detail);
        }
        if let Some(detail) = hid {
            let feat = if listed(&format!("{PROJECT_REL}/.hidden")) { "hidden-entry".to_string() } else { plain_or("hidden-entry") };
            push("hidden-read", &feat, detail);
        }
    }

    // ---- gating clause
    if !may_mutate && (fast.proj_w != 0 || full_proj) {
        let clause = if c.op.has_we() && !c.we {
            "write-disabled-mutation"
        } else if c.sess == Sess::Viewer {
            "viewer-mutation"
        } else {
            "unknown-session-mutation"
        };
        let targets = vec![lexical_rel(&c.p1), lexical_rel(&c.p2)];
        let eff = effect_kind(&diff, &after, &targets);
        push(
            clause,
            eff,
            format!(
                "the project tree changed although this caller must not mutate anything: {} [lstat differs: {}]",
                describe_diff(&diff, Zone::Project),
                tree.names(fast.proj_w)
            ),
        );
    }

    // ---- bookkeeping
    if may_mutate && fast.proj_w != 0 {
        *stats.editor_changes.entry(c.op.as_str().to_string()).or_insert(0) += 1;
    }
    if c.sess == Sess::Viewer && out.kind == "ok" {
        *stats.viewer_ok.entry(c.op.as_str().to_string()).or_insert(0) += 1;
    }
    if out.kind == "ok" || suspicious {
        stats.nontrivial += 1;
    }
    if suspicious || take_full {
        tree.dirty = true;
    }
    Ok(Eval { violations: vs, outcome_kind: out.kind })
}

// -------------------------------------------------------------------------------------------------
// work units (executed by the jailed worker)
// -------------------------------------------------------------------------------------------------

const SINGLE_PATH_OPS: &[Op] = &[Op::Open, Op::Format, Op::CreateFile, Op::CreateDir, Op::Apply, Op::Delete];
const ANALYSIS_OPS: &[Op] =
    &[Op::FileSymbols, Op::Diagnostics, Op::Hover, Op::Completion, Op::Definition, Op::References, Op::RenameSymbol];

/// second argument when the FIRST argument of rename_entry runs over the whole menu
const RENAME_NEW_REDUCED: &[&str] = &["renamed.st", "newdir/renamed.st"];
/// first argument when the SECOND argument runs over the whole menu (file, directory, symlinked directory)
const RENAME_OLD_REDUCED: &[&str] = &["main.st", "sub", "link"];

fn cases_for_path(p: &str, out: &mut Vec<Case>) {
    let l = Layout::Full;
    for &op in SINGLE_PATH_OPS {
        for &sess in SESSIONS {
            if op.has_we() {
                for we in [true, false] {
                    out.push(Case { op, p1: p.to_string(), p2: String::new(), sess, we, layout: l });
                }
            } else {
                out.push(Case { op, p1: p.to_string(), p2: String::new(), sess, we: true, layout: l });
            }
        }
    }
    for &sess in SESSIONS {
        for we in [true, false] {
            for new in RENAME_NEW_REDUCED {
                out.push(Case { op: Op::Rename, p1: p.to_string(), p2: new.to_string(), sess, we, layout: l });
            }
            for old in RENAME_OLD_REDUCED {
                out.push(Case { op: Op::Rename, p1: old.to_string(), p2: p.to_string(), sess, we, layout: l });
            }
        }
    }
}

/// (D) operations without a path argument + the project picker
fn nopath_cases() -> Vec<Case> {
    let mut v = Vec::new();
    for layout in [Layout::Full, Layout::NoLink] {
        for &sess in SESSIONS {
            let mk = |op: Op, p1: &str, p2: &str| Case { op, p1: p1.to_string(), p2: p2.to_string(), sess, we: true, layout };
            v.push(mk(Op::ListSources, "", ""));
            v.push(mk(Op::ListTree, "", ""));
            for q in ["zq", "end_program", "ZqOutP2Other", " PROGRAM "] {
                for inc in ["", "**/*.st", "*", "link/**", "../**", ".hidden/**", ".*", "/**"] {
                    v.push(mk(Op::Search, q, inc));
                }
            }
            for q in ["", "zq", "ZqOut"] {
                v.push(mk(Op::WorkspaceSymbols, q, ""));
            }
            let picks = [
                PROJECT_ABS.to_string(),
                OUTER_ABS.to_string(),
                format!("{PROJECT_ABS}/link"),
                format!("{PROJECT_ABS}/.hidden"),
                format!("{PROJECT_ABS}/.."),
                format!("{PROJECT_ABS}/main.st"),
                "/".to_string(),
                "/etc".to_string(),
                "/nonexistent-c19".to_string(),
            ];
            for p in &picks {
                v.push(mk(Op::Browse, p, ""));
                v.push(mk(Op::SetActiveProject, p, ""));
            }
        }
    }
    v
}

/// (C) analysis operations (heavier): both layouts, grouped by layout (a layout switch rebuilds)
fn analysis_cases(paths: &[String]) -> Vec<Case> {
    let mut v = Vec::new();
    for layout in [Layout::Full, Layout::NoLink] {
        for p in paths {
            for &op in ANALYSIS_OPS {
                for &sess in SESSIONS {
                    let wes: &[bool] = if op.has_we() { &[true, false] } else { &[true] };
                    for &we in wes {
                        v.push(Case { op, p1: p.clone(), p2: String::new(), sess, we, layout });
                    }
                }
            }
        }
    }
    v
}

fn strs(v: &Value) -> Vec<String> {
    v.as_array()
        .map(|a| a.iter().filter_map(|s| s.as_str().map(str::to_string)).collect())
        .unwrap_or_default()
}

fn unit_cases(unit: &Value) -> Vec<Case> {
    let mut cases = Vec::new();
    match unit["kind"].as_str() {
        Some("nopath") => cases = nopath_cases(),
        Some("analysis") => cases = analysis_cases(&strs(&unit["paths"])),
        Some("paths") => {
            for p in strs(&unit["paths"]) {
                cases_for_path(&p, &mut cases);
            }
        }
        Some("pairs") => {
            let news = strs(&unit["news"]);
            for old in strs(&unit["olds"]) {
                for new in &news {
                    for &sess in SESSIONS {
                        for we in [true, false] {
                            cases.push(Case { op: Op::Rename, p1: old.clone(), p2: new.clone(), sess, we, layout: Layout::Full });
                        }
                    }
                }
            }
        }
        _ => {}
    }
    cases
}

fn viol_json(v: &Violation) -> Value {
    json!({"signature": v.signature, "what": v.what, "case": v.case})
}

fn viol_from(v: &Value) -> Violation {
    Violation {
        signature: v["signature"].as_str().unwrap_or("C19/machinery/garbled").to_string(),
        what: v["what"].as_str().unwrap_or("").to_string(),
        case: v["case"].clone(),
    }
}

fn run_unit(tree: &mut Tree, unit: &Value) -> Result<Value, String> {
    let cases = unit_cases(unit);
    let want_samples = unit["sample"].as_bool().unwrap_or(false);
    let mut stats = Stats::default();
    let mut viol: Vec<(u64, Violation)> = Vec::new();
    let mut index: BTreeMap<String, usize> = BTreeMap::new();
    let mut samples: Vec<Value> = Vec::new();
    for c in &cases {
        let e = eval_case(tree, c, false, &mut stats)?;
        if want_samples && samples.len() < 2 && e.outcome_kind == "ok" && c.sess == Sess::Editor && c.op.has_we() {
            let mut j = c.to_json();
            j["outcome"] = json!(e.outcome_kind);
            samples.push(j);
        }
        for v in e.violations {
            match index.get(&v.signature) {
                Some(&i) => viol[i].0 += 1,
                None => {
                    index.insert(v.signature.clone(), viol.len());
                    viol.push((1, v));
                }
            }
        }
    }
    // cross-check of the change detector: an un-dirty tree must equal the pristine snapshot
    tree.ensure_pristine()?;
    let f = tree.fast_check();
    if f.out_w | f.hid_w | f.proj_w != 0 {
        return Err(format!("change detector fires on a freshly built / untouched tree: {}", tree.names(f.out_w | f.hid_w | f.proj_w)));
    }
    let snap = tree.snapshot();
    if &snap != tree.pristine() {
        let d = diff_snap(tree.pristine(), &snap);
        return Err(format!(
            "the lstat change detector missed a change that the full snapshot sees: {:?}",
            d.iter().take(3).map(|x| format!("{}{}", x.0, x.1)).collect::<Vec<_>>()
        ));
    }
    tree.dirty = true; // the snapshot read the sentinel files
    let rebuilds = tree.rebuilds;
    tree.rebuilds = 0;
    // SAFETY: getter without arguments.
    let uid = unsafe { libc::geteuid() };
    Ok(json!({
        "stats": stats.to_json(),
        "viol": viol.iter().map(|(n, v)| json!({"n": n, "v": viol_json(v)})).collect::<Vec<_>>(),
        "samples": samples,
        "rebuilds": rebuilds,
        "atime": tree.atime_ok && tree.atime_dir_ok,
        "uid": uid,
    }))
}

static TREE: Mutex<Option<Tree>> = Mutex::new(None);

/// Worker entry (`tv --worker c19_confine`). Request: {"kind": "nopath" | "analysis" | "paths" |
/// "pairs" | "replay", …}. Reply: {"error": "…"} (machinery) or the unit's result. The jail is
/// entered before the first request is looked at.
pub fn worker_confine(req: &Value) -> Value {
    let base = std::env::var(ENV_JAIL_BASE).unwrap_or_default();
    if let Err(e) = enter_jail(&base) {
        return json!({ "error": e });
    }
    let mut guard = TREE.lock().unwrap_or_else(|p| p.into_inner());
    if guard.is_none() {
        match Tree::new() {
            Ok(t) => *guard = Some(t),
            Err(e) => return json!({ "error": e }),
        }
    }
    let tree = guard.as_mut().expect("tree");
    if let Err(e) = still_jailed() {
        return json!({ "error": e });
    }
    if req["kind"] == "probe" {
        // what the jailed process can see and do (recorded in the evidence)
        let mut root_entries: Vec<String> =
            std::fs::read_dir("/").map(|rd| rd.flatten().map(|e| e.file_name().to_string_lossy().to_string()).collect()).unwrap_or_default();
        root_entries.sort();
        let climb = std::fs::canonicalize("/../../../..").map(|p| p.display().to_string()).unwrap_or_default();
        // SAFETY: getters without arguments.
        let (uid, gid) = unsafe { (libc::geteuid(), libc::getegid()) };
        tree.dirty = true;
        return json!({
            "uid": uid, "gid": gid,
            "cwd": std::env::current_dir().map(|p| p.display().to_string()).unwrap_or_default(),
            "root_entries": root_entries,
            "slash_dotdot_resolves_to": climb,
            "decoy_passwd": std::fs::read_to_string("/etc/passwd").unwrap_or_default().trim().to_string(),
        });
    }
    if req["kind"] == "replay" {
        let Some(c) = Case::from_json(&req["case"]) else { return json!({"error": "replay: not a confinement case"}) };
        let mut stats = Stats::default();
        return match eval_case(tree, &c, true, &mut stats) {
            Ok(e) => {
                tree.dirty = true;
                json!({"viol": e.violations.iter().map(viol_json).collect::<Vec<_>>()})
            }
            Err(e) => json!({ "error": e }),
        };
    }
    match run_unit(tree, req) {
        Ok(v) => v,
        Err(e) => json!({ "error": e }),
    }
}

pub fn workers() -> Vec<(&'static str, WorkerFn)> {
    vec![(WORKER, worker_confine as WorkerFn)]
}

// -------------------------------------------------------------------------------------------------
// parent side: pool, replay, exploration
// -------------------------------------------------------------------------------------------------

/// Removes jail directories left behind in `dir` by runs whose process no longer exists.
fn remove_stale_bases(dir: &Path) {
    let Ok(rd) = std::fs::read_dir(dir) else { return };
    for e in rd.flatten() {
        let name = e.file_name().to_string_lossy().to_string();
        let Some(pid) = name.strip_prefix("tv-c19-confine-").and_then(|r| r.parse::<i32>().ok()) else { continue };
        // SAFETY: signal 0 only tests for the existence of the process.
        let alive = unsafe { libc::kill(pid, 0) } == 0 || std::io::Error::last_os_error().raw_os_error() != Some(libc::ESRCH);
        if !alive && e.file_type().map(|t| t.is_dir()).unwrap_or(false) {
            let _ = std::fs::remove_dir_all(e.path());
        }
    }
}

/// Directory under which the workers create their jails. tmpfs is ~20x faster than the ext4 work
/// directory for the tens of thousands of tree rebuilds, so `/dev/shm` is preferred when usable;
/// `TV_C19_TREE_DIR` overrides; the fall-back is the engine's work directory (temp dir for a replay).
pub(crate) fn jail_base(ctx: Option<&Ctx>) -> PathBuf {
    let leaf = format!("tv-c19-confine-{}", std::process::id());
    if let Ok(d) = std::env::var("TV_C19_TREE_DIR") {
        if !d.is_empty() {
            return PathBuf::from(d).join(leaf);
        }
    }
    let shm = Path::new("/dev/shm");
    if shm.is_dir() {
        remove_stale_bases(shm);
        let probe = shm.join(format!("{leaf}.probe"));
        if std::fs::create_dir_all(&probe).is_ok() {
            let _ = std::fs::remove_dir(&probe);
            return shm.join(leaf);
        }
    }
    match ctx {
        Some(c) => c.work_dir().join("confine"),
        None => std::env::temp_dir().join(leaf),
    }
}

fn pool_cfg(base: &Path, procs: usize, deadline: Option<Instant>) -> PoolCfg {
    PoolCfg {
        worker: WORKER,
        procs,
        rlimit_as: 0,
        per_case: Duration::from_secs(300),
        deadline,
        env: vec![(ENV_JAIL_BASE.to_string(), base.to_string_lossy().to_string())],
        stack: 8 << 20,
    }
}

/// Removes the jails of this run (parent side, after the workers are gone). `remove_dir_all` does
/// not follow symbolic links, and only our own freshly created directory is named.
pub(crate) fn remove_base(base: &Path) {
    if base.file_name().map(|n| n.to_string_lossy().starts_with("tv-c19-confine-") || n == "confine").unwrap_or(false) {
        let _ = std::fs::remove_dir_all(base);
    }
}

pub fn check_case(case: &Value) -> Vec<Violation> {
    if case["part"].as_str() != Some("confine") {
        return Vec::new();
    }
    let mach = |m: String| {
        vec![Violation {
            signature: "C19/machinery/confine-replay".into(),
            what: format!("replay could not be executed: {m}"),
            case: case.clone(),
        }]
    };
    let base = jail_base(None);
    if let Err(e) = std::fs::create_dir_all(&base) {
        return mach(format!("cannot create {}: {e}", base.display()));
    }
    let cfg = pool_cfg(&base, 1, None);
    let r = {
        let mut w = iso::Worker::new(&cfg);
        w.call(&json!({"kind": "replay", "case": case}))
    };
    remove_base(&base);
    match r {
        Ok(iso::Outcome::Ok(v)) => {
            if let Some(e) = v["error"].as_str() {
                return mach(e.to_string());
            }
            v["viol"].as_array().map(|a| a.iter().map(viol_from).collect()).unwrap_or_default()
        }
        Ok(other) => mach(format!("jailed worker: {other:?}")),
        Err(e) => mach(e),
    }
}

pub fn run_part(ctx: &Ctx, rep: &mut Report) -> Result<(), Machinery> {
    let t0 = Instant::now();
    let deadline = t0 + Duration::from_secs(ctx.tier.pick(20, 420));
    let base = jail_base(Some(ctx));
    std::fs::create_dir_all(&base).map_err(|e| Machinery(format!("confine: cannot create {base:?}: {e}")))?;

    // path strings: all sequences of <= 3 components (thorough: 4); the deepest level uses a menu prefix
    let levels: Vec<usize> = ctx.tier.pick(vec![FULL, FULL, CORE], vec![FULL, FULL, FULL, GIVEN]);
    let paths = path_strings(&levels, true);
    let analysis_levels: Vec<usize> = ctx.tier.pick(vec![FULL, CORE], vec![FULL, FULL]);
    let analysis_paths: Vec<String> = path_strings(&analysis_levels, true);
    // rename_entry with the (one-component) menu on BOTH arguments
    let singles: Vec<String> = path_strings(&levels[..1], true);

    // work units, simplest first
    let mut units: Vec<Value> = vec![json!({"kind": "probe"}), json!({"kind": "nopath"})];
    for chunk in analysis_paths.chunks(24) {
        units.push(json!({"kind": "analysis", "paths": chunk}));
    }
    for chunk in singles.chunks(4) {
        units.push(json!({"kind": "pairs", "olds": chunk, "news": singles}));
    }
    let first_paths_unit = units.len();
    for chunk in paths.chunks(48) {
        units.push(json!({"kind": "paths", "paths": chunk}));
    }
    if let Some(u) = units.get_mut(first_paths_unit + 3) {
        u["sample"] = json!(true);
    }

    let cfg = pool_cfg(&base, ctx.threads, Some(deadline));
    let res = iso::run_pool(&cfg, &units);
    remove_base(&base);
    let res = res.map_err(|e| Machinery(format!("confine: {e}")))?;

    let mut stats = Stats::default();
    let mut exhaustive = true;
    let mut done_units = 0usize;
    let mut rebuilds = 0u64;
    let mut paths_done = 0usize;
    let mut atime_ok = true;
    for (u, r) in units.iter().zip(res) {
        let v = match r {
            Some(iso::Outcome::Ok(v)) => v,
            Some(other) => {
                return machinery(format!(
                    "confine: the jailed worker did not answer a {} unit: {other:?}",
                    u["kind"].as_str().unwrap_or("?")
                ))
            }
            None => {
                exhaustive = false;
                continue;
            }
        };
        if let Some(e) = v["error"].as_str() {
            return machinery(format!("confine: {e}"));
        }
        if v["uid"].as_u64() != Some(NOBODY as u64) {
            return machinery("confine: a worker answered without having dropped privileges");
        }
        if u["kind"] == "probe" {
            let entries = strs(&v["root_entries"]);
            if entries != ["etc", "g5"] || v["slash_dotdot_resolves_to"] != "/" || !v["decoy_passwd"].as_str().unwrap_or("").starts_with("ZQOUTETCPASSWD") {
                return machinery(format!("confine: the jail does not look like a jail: {v}"));
            }
            rep.set("confine_jail_probe", v);
            continue;
        }
        done_units += 1;
        stats.merge_json(&v["stats"]);
        rebuilds += v["rebuilds"].as_u64().unwrap_or(0);
        atime_ok &= v["atime"].as_bool().unwrap_or(false);
        if u["kind"] == "paths" {
            paths_done += u["paths"].as_array().map(|a| a.len()).unwrap_or(0);
        }
        for s in v["samples"].as_array().cloned().unwrap_or_default() {
            rep.sample(s);
        }
        for e in v["viol"].as_array().cloned().unwrap_or_default() {
            let n = e["n"].as_u64().unwrap_or(1);
            let viol = viol_from(&e["v"]);
            let sig = viol.signature.clone();
            rep.violation(viol);
            if n > 1 {
                *rep.violation_counts.entry(sig).or_insert(0) += n - 1;
            }
        }
    }

    if !exhaustive {
        rep.cap(format!(
            "confine: wall cap reached after {done_units} of {} work units ({paths_done} of {} path strings)",
            units.len(),
            paths.len()
        ));
    }

    // ---- vacuity checks: the mutating operations must really mutate for an editor, the read side must answer
    for op in [Op::CreateFile, Op::CreateDir, Op::Apply, Op::Delete, Op::Rename, Op::RenameSymbol] {
        if stats.editor_changes.get(op.as_str()).copied().unwrap_or(0) == 0 {
            return machinery(format!(
                "confine: vacuous — no {} by an editor with write access changed the project tree",
                op.as_str()
            ));
        }
    }
    for op in [Op::ListSources, Op::ListTree, Op::Search, Op::Open, Op::Format, Op::FileSymbols, Op::WorkspaceSymbols] {
        if stats.viewer_ok.get(op.as_str()).copied().unwrap_or(0) == 0 {
            return machinery(format!("confine: vacuous — no {} of a viewer session was answered", op.as_str()));
        }
    }

    let mut outcomes = serde_json::Map::new();
    for (k, n) in &stats.outcomes {
        let (op, kind) = k.split_once('|').unwrap_or((k.as_str(), "?"));
        let e = outcomes.entry(op.to_string()).or_insert_with(|| json!({}));
        e[kind] = json!(n);
    }
    rep.add("confine_evaluations", stats.evaluations);
    rep.add("confine_distinct_nontrivial", stats.nontrivial);
    rep.set("confine_path_strings", paths.len() as u64);
    rep.set("confine_rename_pair_strings", singles.len() as u64);
    rep.set("confine_path_strings_completed", paths_done as u64);
    rep.set("confine_analysis_path_strings", analysis_paths.len() as u64);
    rep.set("confine_max_components", levels.len() as u64);
    rep.set("confine_menu_sizes_per_length", json!(levels));
    rep.set("confine_distinct_outcomes", stats.outcomes.len() as u64);
    rep.set("confine_outcomes", Value::Object(outcomes));
    rep.set("confine_editor_changes_by_op", map_to_json(&stats.editor_changes));
    rep.set("confine_viewer_answers_by_op", map_to_json(&stats.viewer_ok));
    rep.set("confine_tree_rebuilds", rebuilds);
    rep.set("confine_full_snapshots", stats.full_snapshots);
    rep.set("confine_access_time_confirmation_runs", stats.confirm_runs);
    rep.set("confine_jail", "every case ran in a child process chroot-ed into a private directory as uid/gid 65534 (verified per work unit)");
    rep.set("confine_skipped_by_string_guard", 0u64);
    rep.set("confine_jail_dir", base.to_string_lossy().to_string());
    rep.set("confine_read_detector", if atime_ok { "results+access-times" } else { "results-only" });
    rep.set("confine_exhaustive", exhaustive);
    rep.set("confine_wall_s", t0.elapsed().as_secs_f64());
    rep.set(
        "confine_rule",
        "path strings = every sequence of <= N components over a 17-entry menu (a 10-entry (quick) / 14-entry (thorough) prefix of it at the deepest length) joined with '/', '//', '\\', each plain and with one decoration (trailing '/', './', surrounding spaces, leading '/', absolute prefix of the sentinel directory, 'C:\\', %2e%2e, NUL), plus hand-picked strings aiming at the jail root and the decoy /etc, de-duplicated; each string x {open, format, create file, create dir, apply, delete} x {editor, viewer, unknown token} x write_enabled {true,false} (where the call has the flag), rename_entry with the string as old path x 2 new paths and as new path x 3 old paths, plus every pair of one-component strings; analysis calls (file_symbols, diagnostics, hover, completion, definition, references, rename_symbol) on the shorter path list in two tree layouts; list/tree/search/symbols/picker calls per session and layout. Every case runs inside a chroot jail (uid 65534) on a pristine sentinel tree and a fresh WebIdeState. distinct_nontrivial = cases (all distinct tuples) that were answered Ok or had any file-system effect.",
    );
    rep.assume("confine: expired sessions cannot be produced through the public API (with_clock is cfg(test), TTL and clock are fixed); a never-issued token stands in for an expired-and-pruned one");
    rep.assume("confine: reads are observed through returned data and, where the file system maintains them, access times; stat-like probes of outside entries are invisible");
    rep.assume("confine: browse_directory/set_active_project (documented project picker) are only required not to write");
    rep.assume("confine: needs root (chroot + setuid 65534); if the jail cannot be entered the part fails with a machinery error instead of running un-jailed");
    Ok(())
}
