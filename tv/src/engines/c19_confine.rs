//! C19 (part 1) — web IDE path confinement. Not implemented yet.

use crate::fw::*;
use serde_json::Value;

/// Adds the confinement family's coverage counters and violations to `rep`.
pub fn run_part(_ctx: &Ctx, _rep: &mut Report) -> Result<(), Machinery> {
    Ok(())
}

pub fn check_case(_case: &Value) -> Vec<Violation> {
    Vec::new()
}
