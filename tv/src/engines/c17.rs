//! C17 — debugger is transparent and never wedges the runtime.
//! Core X3: a real cycle thread (two scan cycles with the statement hook of `DebugControl`)
//! against a controller thread that runs a reactive command script; every interleaving at
//! lock/condvar granularity within a deviation bound, for every script of a bounded alphabet.

use crate::fw::*;
use crate::iso::{self, PoolCfg, WorkerFn};
use crate::sched::Sched;
use crate::x3;
use serde_json::{json, Value};
use std::sync::Arc;
use std::time::{Duration, Instant};
use trust_runtime::debug::{ControlAction, DebugBreakpoint, DebugControl, DebugStop, DebugStopReason, LogFragment, SourceLocation};
use trust_runtime::harness::TestHarness;
use trust_runtime::value::Duration as StDuration;
use trust_runtime::verif_sync;
use trust_runtime::Runtime;

const HORIZON: u64 = 6000;
const CYCLES: usize = 2;

/// Two variants of the scenario program: in variant 0 the task program ends with a plain
/// statement (call depth 0) and the background program ends inside a call; in variant 1 it is the
/// other way round. (Per-thread call-depth bookkeeping can go stale across a task switch only when
/// the previous thread ended at depth 0 and the stepped thread ended inside a call.)
pub const PROGRAMS: [&str; 2] = [
    r#"FUNCTION Inner : DINT
VAR_INPUT v : DINT; END_VAR
    Inner := v + 1;
END_FUNCTION

FUNCTION Outer : DINT
VAR_INPUT v : DINT; END_VAR
    Outer := Inner(v) * 2;
    Outer := Outer + 1;
END_FUNCTION

FUNCTION_BLOCK Acc
VAR_INPUT d : DINT; END_VAR
VAR_OUTPUT total : DINT; END_VAR
    total := total + d;
END_FUNCTION_BLOCK

CONFIGURATION Conf
VAR_GLOBAL
    g : DINT := 0; h : DINT := 0;
END_VAR
TASK T1 (INTERVAL := T#1ms, PRIORITY := 0);
PROGRAM P1 WITH T1 : Main;
PROGRAM P2 : Bg;
END_CONFIGURATION

PROGRAM Main
VAR
    i : DINT; acc : Acc; r : DINT;
END_VAR
    r := Outer(g);
    FOR i := 1 TO 2 DO
        g := g + i;
    END_FOR;
    acc(d := r);
    h := Inner(h);
    h := acc.total;
END_PROGRAM

PROGRAM Bg
    g := g + 100;
    g := Inner(g);
END_PROGRAM
"#,
    r#"FUNCTION Inner : DINT
VAR_INPUT v : DINT; END_VAR
    Inner := v + 1;
END_FUNCTION

FUNCTION Outer : DINT
VAR_INPUT v : DINT; END_VAR
    Outer := Inner(v) * 2;
    Outer := Outer + 1;
END_FUNCTION

FUNCTION_BLOCK Acc
VAR_INPUT d : DINT; END_VAR
VAR_OUTPUT total : DINT; END_VAR
    total := total + d;
END_FUNCTION_BLOCK

CONFIGURATION Conf
VAR_GLOBAL
    g : DINT := 0; h : DINT := 0;
END_VAR
TASK T1 (INTERVAL := T#1ms, PRIORITY := 0);
PROGRAM P1 WITH T1 : Main;
PROGRAM P2 : Bg;
END_CONFIGURATION

PROGRAM Main
VAR
    i : DINT; acc : Acc; r : DINT;
END_VAR
    r := Outer(g);
    FOR i := 1 TO 2 DO
        g := g + i;
    END_FOR;
    acc(d := r);
    h := acc.total;
    h := Inner(h);
END_PROGRAM

PROGRAM Bg
    g := Inner(g);
    g := g + 100;
END_PROGRAM
"#,
];

/// breakpoint needles per variant: B0 first statement of Main, B1 in Inner, B2 loop body, B3 FB body,
/// B4 first statement of Bg, B5 last statement of Main, B6 last statement of Bg
const BP_NEEDLES: [[&str; 7]; 2] = [
    ["r := Outer(g);", "Inner := v + 1;", "g := g + i;", "total := total + d;", "g := g + 100;", "h := acc.total;", "g := Inner(g);"],
    ["r := Outer(g);", "Inner := v + 1;", "g := g + i;", "total := total + d;", "g := Inner(g);", "h := Inner(h);", "g := g + 100;"],
];

fn build(variant: usize) -> Runtime {
    TestHarness::from_source(PROGRAMS[variant]).expect("C17 scenario program must compile").into_runtime()
}

fn bp_location(rt: &Runtime, variant: usize, k: usize) -> SourceLocation {
    // the last line containing the needle (the needles of the program bodies also occur earlier)
    let line = PROGRAMS[variant]
        .lines()
        .enumerate()
        .filter(|(_, l)| l.contains(BP_NEEDLES[variant][k]))
        .map(|(i, _)| i)
        .last()
        .expect("needle") as u32;
    rt.resolve_breakpoint_location(PROGRAMS[variant], 0, line, 0).expect("breakpoint location resolves")
}

fn run_cycles(rt: &mut Runtime) -> Vec<String> {
    let mut res = Vec::new();
    for c in 0..CYCLES {
        rt.set_current_time(StDuration::from_millis(10 * (c as i64 + 1)));
        res.push(match rt.execute_cycle() {
            Ok(()) => "ok".to_string(),
            Err(e) => format!("{e:?}"),
        });
    }
    res
}

/// Reference observations of an undebugged (logpoint-only) sequential run:
/// (final dump, cycle results, executed statement sequence as [start,end]).
pub fn reference(variant: usize) -> Result<Value, String> {
    // plain run without any debugger attached
    let mut plain = build(variant);
    let plain_res = run_cycles(&mut plain);
    let plain_dump = crate::dump::dump_runtime(&plain);
    // run with a logpoint on every statement: yields the statement order without stopping
    let mut rt = build(variant);
    let locs: Vec<SourceLocation> = rt.statement_locations(0).map(|l| l.to_vec()).unwrap_or_default();
    if locs.is_empty() {
        return Err("no statement locations registered for file 0".into());
    }
    let control = rt.enable_debug();
    let bps: Vec<DebugBreakpoint> = locs
        .iter()
        .map(|l| {
            let mut bp = DebugBreakpoint::new(*l);
            bp.log_message = Some(vec![LogFragment::Text("s".into())]);
            bp
        })
        .collect();
    control.set_breakpoints_for_file(0, bps);
    let res = run_cycles(&mut rt);
    let logs = control.drain_logs();
    // each hook call at location L logs once per logpoint overlapping L
    let overlap = |l: &SourceLocation| locs.iter().filter(|b| l.start < b.end && b.start < l.end).count();
    let mut seq: Vec<(u32, u32)> = Vec::new();
    let mut i = 0;
    while i < logs.len() {
        let Some(l) = logs[i].location else { return Err("log without location".into()) };
        let k = overlap(&l).max(1);
        seq.push((l.start, l.end));
        i += k;
    }
    let dump = crate::dump::dump_runtime(&rt);
    if dump != plain_dump || res != plain_res {
        return Err("logpoint run differs from plain run; cannot establish a reference".into());
    }
    if seq.len() < 10 {
        return Err(format!("reference statement sequence too short: {}", seq.len()));
    }
    Ok(json!({"dump": dump, "results": res, "seq": seq}))
}

fn action_of(a: &str) -> Option<ControlAction> {
    Some(match a {
        "P" => ControlAction::Pause(None),
        "P1" => ControlAction::Pause(Some(1)),
        "P2" => ControlAction::Pause(Some(2)),
        "C" => ControlAction::Continue,
        "SI" => ControlAction::StepIn(None),
        "SO" => ControlAction::StepOver(None),
        "SU" => ControlAction::StepOut(None),
        "SI1" => ControlAction::StepIn(Some(1)),
        "SO1" => ControlAction::StepOver(Some(1)),
        "SU1" => ControlAction::StepOut(Some(1)),
        "SI2" => ControlAction::StepIn(Some(2)),
        "SO2" => ControlAction::StepOver(Some(2)),
        "SU2" => ControlAction::StepOut(Some(2)),
        _ => return None,
    })
}

struct Ctl<'a> {
    sched: &'a Arc<Sched>,
    control: DebugControl,
    ct: usize,
    stops: Vec<DebugStop>,
    problems: Vec<(String, String)>,
    /// pending step issued while parked: (kind, origin depth, origin location)
    expect: Option<(String, u32, Option<(u32, u32)>, Option<u32>)>,
    ref_seq: Vec<(u32, u32)>,
    variant: usize,
    steps_while_running: u64,
    resume_points: Option<u64>,
    parks_seen: u64,
    resumes_while_parked: u64,
    step_checks: u64,
}

impl Ctl<'_> {
    fn problem(&mut self, clause: &str, what: String) {
        if !self.problems.iter().any(|p| p.0 == clause) {
            self.problems.push((clause.to_string(), what));
        }
    }

    fn parked(&self) -> bool {
        self.sched.is_blocked_on_cond(self.ct)
    }

    fn done(&self) -> bool {
        self.sched.is_done(self.ct)
    }

    fn observe(&mut self) {
        let new = self.control.drain_stops();
        let parks = self.sched.cond_blocks(self.ct);
        let first_new = new.first().cloned();
        self.stops.extend(new);
        if self.stops.len() as u64 != parks {
            self.problem(
                "stop-count",
                format!("{} stop notifications for {} stops of the cycle thread", self.stops.len(), parks),
            );
        }
        // the thread is parked at the statement whose stop was announced last (a stop that is
        // announced at one statement while the thread parks at another keeps the counts equal)
        if self.parked() && self.stops.len() as u64 == parks {
            let at = self.control.last_location();
            if let (Some(s), Some(at)) = (self.stops.last(), at) {
                if let Some(l) = s.location {
                    if (l.start, l.end) != (at.start, at.end) && self.parked() {
                        self.problem(
                            "stop-park-location",
                            format!("the last stop was announced at {:?} but the cycle thread is parked at {:?}", (l.start, l.end), (at.start, at.end)),
                        );
                    }
                }
            }
        }
        if let Some(s) = self.stops.iter().find(|s| s.location.is_none()) {
            self.problem("stop-location", format!("stop notification without location: reason {:?}", s.reason));
        }
        self.parks_seen = self.parks_seen.max(parks);
        if let (Some(stop), Some((kind, d0, origin, target_thread))) = (first_new, self.expect.clone()) {
            self.expect = None;
            if stop.reason == DebugStopReason::Step && self.parked() {
                self.step_checks += 1;
                let d1 = self.control.last_call_depth();
                let loc = stop.location.map(|l| (l.start, l.end));
                match kind.as_str() {
                    "over" | "out" => {
                        if d1 > d0 {
                            self.problem(
                                &format!("step-{kind}-depth"),
                                format!("step-{kind} issued at call depth {d0} stopped at call depth {d1} (location {loc:?})"),
                            );
                        }
                    }
                    _ => {
                        if let (Some(o), Some(l)) = (origin, loc) {
                            // readings of "the very next statement": the next statement executed at
                            // all, or the next statement executed by the debug thread the step is
                            // addressed to (stepping is thread-scoped: the task program and the
                            // background program are threads 1 and 2; an unaddressed step belongs
                            // to the thread that is stopped)
                            // thread of every executed statement: the task program runs first in a
                            // cycle (thread 1, incl. the functions/FBs it calls), from the first
                            // statement of PROGRAM Bg on it is thread 2, until PROGRAM Main starts again
                            let bg_start = PROGRAMS[self.variant].find("PROGRAM Bg").unwrap_or(usize::MAX) as u32;
                            let main_start = PROGRAMS[self.variant].find("PROGRAM Main").unwrap_or(usize::MAX) as u32;
                            let mut cur = 1u32;
                            let thr: Vec<u32> = self
                                .ref_seq
                                .iter()
                                .map(|x| {
                                    if x.0 >= bg_start {
                                        cur = 2;
                                    } else if x.0 >= main_start {
                                        cur = 1;
                                    }
                                    cur
                                })
                                .collect();
                            let mut ok = self.ref_seq.windows(2).any(|w| w[0] == o && w[1] == l);
                            for (i, x) in self.ref_seq.iter().enumerate() {
                                if *x == o {
                                    let target = target_thread.unwrap_or(thr[i]);
                                    if let Some(j) = (i + 1..self.ref_seq.len()).find(|&j| thr[j] == target) {
                                        ok |= self.ref_seq[j] == l;
                                    }
                                }
                            }
                            if !ok {
                                self.problem(
                                    "step-in-next",
                                    format!("step-in from statement {o:?} stopped at {l:?}, which never directly follows it in the undebugged statement order (neither globally nor within its task)"),
                                );
                            }
                        }
                    }
                }
            }
        }
    }

    fn act(&mut self, a: &str, bps: &[SourceLocation]) {
        if a == "W" {
            for _ in 0..80 {
                self.observe();
                if self.parked() || self.done() {
                    break;
                }
                verif_sync::yield_point("ctl.wait_stop");
            }
            return;
        }
        if a == "X" {
            self.control.clear_breakpoints();
            return;
        }
        if let Some(k) = a.strip_prefix('B').and_then(|k| k.parse::<usize>().ok()) {
            self.control.set_breakpoints_for_file(0, vec![DebugBreakpoint::new(bps[k])]);
            return;
        }
        let Some(action) = action_of(a) else { return };
        self.observe();
        let resume = !matches!(action, ControlAction::Pause(_));
        let parked_before = self.parked();
        let points_before = self.sched.points_of(self.ct);
        let origin_depth = self.control.last_call_depth();
        let origin_loc = self.stops.last().and_then(|s| s.location).map(|l| (l.start, l.end));
        let _ = self.control.apply_action(action);
        if resume && parked_before {
            self.resumes_while_parked += 1;
            // a parked thread passes no scheduling point; waking up re-acquires the mutex, which is one
            self.resume_points = Some(points_before);
            if self.parked() {
                self.problem("resume-lost", format!("{a} was issued while the cycle thread was stopped, but it stayed blocked"));
            }
            let kind = match action {
                ControlAction::StepIn(_) => Some("in"),
                ControlAction::StepOver(_) => Some("over"),
                ControlAction::StepOut(_) => Some("out"),
                _ => None,
            };
            let target_thread = match action {
                ControlAction::StepIn(t) | ControlAction::StepOver(t) | ControlAction::StepOut(t) => t,
                _ => None,
            };
            self.expect = kind.map(|k| (k.to_string(), origin_depth, origin_loc, target_thread));
        } else if resume {
            // a step requested while the thread is RUNNING (continue immediately followed by next):
            // if the cycle thread passed no scheduling point between the depth read and the end of
            // the request, `origin_depth` is exactly the depth the step was issued from
            self.expect = None;
            let kind = match action {
                ControlAction::StepOver(_) => Some("over"),
                ControlAction::StepOut(_) => Some("out"),
                _ => None,
            };
            let target_thread = match action {
                ControlAction::StepOver(t) | ControlAction::StepOut(t) => t,
                _ => None,
            };
            // a step addressed to a task that is not executing right now starts from wherever
            // that task last was, which the controller cannot observe: no expectation then
            let addressed_elsewhere = target_thread.is_some() && target_thread != self.control.current_thread();
            // ... and only when the cycle thread has not passed a single scheduling point since it
            // was resumed from a stop (continue immediately followed by a step): then it still sits
            // in the hook it was parked in, and the depth read above is the depth of that stop for
            // the task the step binds to. For a step that reaches a free-running thread the depth
            // it binds to (the last one REPORTED by the current task, possibly in an earlier cycle)
            // cannot be observed through the public API (thorough tier, bound 2: ["SO"] issued
            // between the start of a task activation and its first statement).
            let still_in_stop_hook = self.resume_points == Some(points_before);
            if let (Some(k), true) = (kind, !addressed_elsewhere && still_in_stop_hook && self.sched.points_of(self.ct) == points_before && !self.done()) {
                self.steps_while_running += 1;
                self.expect = Some((k.to_string(), origin_depth, None, target_thread));
            }
        }
    }
}

pub fn worker_exec(case: &Value) -> Value {
    let script: Vec<String> = case["script"]
        .as_array()
        .map(|a| a.iter().map(|s| s.as_str().unwrap_or("").to_string()).collect())
        .unwrap_or_default();
    let variant = case["variant"].as_u64().unwrap_or(0) as usize;
    // hand-written replay cases may omit the reference statement sequence
    let computed;
    let ref_src = if case["ref_seq"].is_array() {
        &case["ref_seq"]
    } else {
        computed = reference(variant).map(|r| r["seq"].clone()).unwrap_or(Value::Null);
        &computed
    };
    let ref_seq: Vec<(u32, u32)> = ref_src
        .as_array()
        .map(|a| a.iter().map(|p| (p[0].as_u64().unwrap_or(0) as u32, p[1].as_u64().unwrap_or(0) as u32)).collect())
        .unwrap_or_default();
    x3::run_controlled(case, HORIZON, move |sched| {
        let mut rt = build(variant);
        let bps: Vec<SourceLocation> = (0..BP_NEEDLES[variant].len()).map(|k| bp_location(&rt, variant, k)).collect();
        let control = rt.enable_debug();
        let handle = verif_sync::thread::spawn(move || {
            let res = run_cycles(&mut rt);
            (rt, res)
        });
        let mut ctl = Ctl {
            sched,
            control: control.clone(),
            ct: 1,
            stops: Vec::new(),
            problems: Vec::new(),
            expect: None,
            ref_seq,
            variant,
            steps_while_running: 0,
            resume_points: None,
            parks_seen: 0,
            resumes_while_parked: 0,
            step_checks: 0,
        };
        for a in &script {
            ctl.act(a, &bps);
            ctl.observe();
        }
        // drain phase: make sure the execution terminates
        let mut finished = false;
        for poll in 0..600 {
            ctl.observe();
            if ctl.done() {
                finished = true;
                break;
            }
            if poll == 0 {
                control.clear_breakpoints();
            }
            if ctl.parked() {
                ctl.act("C", &bps);
            }
            verif_sync::yield_point("ctl.drain");
        }
        if !finished {
            ctl.problem(
                "wedged",
                format!(
                    "cycle thread did not finish although breakpoints were cleared and Continue was issued at every stop (parked now: {})",
                    ctl.parked()
                ),
            );
            // cannot join a wedged thread: report from here
            return json!({
                "problems": ctl.problems, "finished": false, "stops": ctl.stops.len(), "parks": ctl.parks_seen,
                "resumes_while_parked": ctl.resumes_while_parked, "step_checks": ctl.step_checks, "steps_while_running": ctl.steps_while_running,
            });
        }
        let (rt, res) = handle.join().expect("cycle thread panicked");
        ctl.observe();
        let dump = crate::dump::dump_runtime(&rt);
        json!({
            "problems": ctl.problems,
            "finished": true,
            "dump": dump,
            "results": res,
            "stops": ctl.stops.len(),
            "stop_reasons": ctl.stops.iter().map(|s| format!("{:?}", s.reason)).collect::<Vec<_>>(),
            "parks": ctl.parks_seen,
            "resumes_while_parked": ctl.resumes_while_parked,
            "step_checks": ctl.step_checks,
        })
    })
}

fn judge(reference: &Value, script: &[String], rec: &Value) -> Vec<Violation> {
    let obs = &rec["obs"];
    let mut out = Vec::new();
    let tag = script_class(script);
    for p in obs["problems"].as_array().cloned().unwrap_or_default() {
        out.push(Violation {
            signature: format!("C17/{}/{}", p[0].as_str().unwrap_or("?"), tag),
            what: format!("script {:?}: {}", script, p[1].as_str().unwrap_or("")),
            case: json!({"clause": p[0]}),
        });
    }
    if obs["finished"].as_bool() == Some(true) {
        if obs["results"] != reference["results"] {
            out.push(Violation {
                signature: format!("C17/transparency-result/{tag}"),
                what: format!("script {:?}: cycle results {} differ from the undebugged run {}", script, obs["results"], reference["results"]),
                case: json!({"clause": "transparency-result"}),
            });
        } else if obs["dump"] != reference["dump"] {
            let a = obs["dump"].as_object().cloned().unwrap_or_default();
            let b = reference["dump"].as_object().cloned().unwrap_or_default();
            let diff: Vec<String> = b
                .iter()
                .filter(|(k, v)| a.get(*k) != Some(v))
                .map(|(k, v)| format!("{k}: undebugged {v} vs debugged {}", a.get(k).unwrap_or(&Value::Null)))
                .take(4)
                .collect();
            out.push(Violation {
                signature: format!("C17/transparency-state/{tag}"),
                what: format!("script {:?} (no writes): final state differs from the undebugged run: {}", script, diff.join("; ")),
                case: json!({"clause": "transparency-state"}),
            });
        }
    }
    out
}

/// Signature component: the set of command kinds in the script (not their order or count).
fn script_class(script: &[String]) -> String {
    let mut kinds: Vec<&str> = script
        .iter()
        .map(|a| match a.as_str() {
            "P" | "P1" | "P2" => "pause",
            "C" => "continue",
            "SI" | "SI1" | "SI2" => "step-in",
            "SO" | "SO1" | "SO2" => "step-over",
            "SU" | "SU1" | "SU2" => "step-out",
            "X" => "clear",
            "W" => "wait",
            _ => "breakpoint",
        })
        .collect();
    kinds.sort();
    kinds.dedup();
    kinds.join("+")
}

fn pool(threads: usize, deadline: Option<Instant>) -> PoolCfg {
    PoolCfg {
        worker: "c17_exec",
        procs: threads,
        rlimit_as: 0,
        per_case: Duration::from_secs(60),
        deadline,
        env: vec![],
        stack: 8 << 20,
    }
}

fn scripts(tier: Tier) -> Vec<Vec<String>> {
    let base: Vec<&str> = vec!["P", "P1", "P2", "C", "SI", "SO", "SU", "B0", "B1", "B2", "B3", "B4", "B5", "B6", "X", "W"];
    let steps = ["SI", "SO", "SU"];
    let mut out: Vec<Vec<String>> = Vec::new();
    let mut push = |v: Vec<&str>| {
        let s: Vec<String> = v.iter().map(|x| x.to_string()).collect();
        if !out.contains(&s) {
            out.push(s);
        }
    };
    push(vec![]);
    for a in &base {
        push(vec![a]);
    }
    // stop somewhere, wait for the stop, then each resume kind (and a second one)
    for b in ["B0", "B1", "B2", "B3", "B4", "B5", "B6", "P", "P1", "P2"] {
        for s in steps.iter().chain(["C"].iter()) {
            push(vec![b, "W", s]);
        }
    }
    for b in ["B1", "B3", "B0"] {
        for s1 in &steps {
            for s2 in &steps {
                push(vec![b, "W", s1, "W", s2]);
            }
        }
    }
    // per-thread steps: addressed to the stopped thread and to the OTHER thread (B0/B5 stop the
    // task program = thread 1, B4/B6/P2 the background program = thread 2)
    for b in ["B0", "B5", "B4", "B6", "P1", "P2"] {
        for s in ["SI1", "SO1", "SU1", "SI2", "SO2", "SU2"] {
            push(vec![b, "W", s]);
        }
    }
    // stops in the second cycle (the breakpoint hits again after Continue), then each step kind:
    // the last statement of each program is a call, so a step-over/out must not stop inside it
    for b in ["B5", "B6", "B0", "B4"] {
        for s in ["SI", "SO", "SU", "SO1", "SO2", "SU1", "SU2"] {
            push(vec![b, "W", "C", "W", s]);
        }
    }
    // a step requested while RUNNING: continue immediately followed by a step (no wait), from a
    // stop on a call statement and from other stops; the step is armed inside the callee
    for b in ["B0", "B5", "B6", "B3", "B1"] {
        for s in ["SO", "SU", "SO1", "SO2", "SU1", "SU2"] {
            push(vec![b, "W", "C", s]);
            push(vec![b, "W", "C", s, "W", s]);
        }
    }
    for a in &base {
        for b in &base {
            push(vec![a, b]);
        }
    }
    if tier == Tier::Thorough {
        for a in &base {
            for b in &base {
                for c in &base {
                    push(vec![a, b, c]);
                }
            }
        }
        for b in ["B1", "B3"] {
            for s in ["SI1", "SO1", "SU1"] {
                push(vec![b, "W", s, "W", s]);
            }
        }
    }
    out
}

pub fn run(ctx: &Ctx) -> EngineResult {
    quiet_panics();
    let mut rep = Report::new("model_checking");
    let mut references = Vec::new();
    for v in 0..PROGRAMS.len() {
        references.push(reference(v).map_err(|e| Machinery(format!("cannot establish the undebugged reference run (variant {v}): {e}")))?);
    }
    // every script is explored on every program variant
    let all: Vec<(usize, Vec<String>)> =
        (0..PROGRAMS.len()).flat_map(|v| scripts(ctx.tier).into_iter().map(move |s| (v, s))).collect();
    let budget = ctx.tier.pick(45.0, 850.0);
    let deadline = Instant::now() + Duration::from_secs_f64(budget);
    let mut total_sched = 0u64;
    let mut total_steps = 0u64;
    let mut scripts_done = 0u64;
    let mut scripts_capped = 0u64;
    let mut stops_total = 0u64;
    let mut resumes = 0u64;
    let mut step_checks = 0u64;
    let mut outcomes = std::collections::BTreeSet::new();
    let mut exhaustive = true;
    // run scripts concurrently: each exploration uses a slice of the worker processes
    let lanes = 4usize;
    let per_lane = (ctx.threads / lanes).max(1);
    // phases (scripts, deviation bound): quick = everything at bound 1. Thorough = the short and
    // curated scripts at bound 2 first, then every script at bound 1, then the long scripts at
    // bound 2 as far as the wall budget goes; each phase reports what it completed.
    let short: Vec<(usize, Vec<String>)> = (0..PROGRAMS.len()).flat_map(|v| scripts(Tier::Quick).into_iter().map(move |s| (v, s))).collect();
    let long: Vec<(usize, Vec<String>)> = all.iter().filter(|x| !short.contains(x)).cloned().collect();
    let phases: Vec<(&str, Vec<(usize, Vec<String>)>, usize)> = match ctx.tier {
        Tier::Quick => vec![("all scripts", all.clone(), 1)],
        Tier::Thorough => vec![("short and curated scripts", short.clone(), 2), ("all scripts", all.clone(), 1), ("long scripts", long, 2)],
    };
    let mut phase_report = Vec::new();
    for (phase_name, phase_scripts, bound) in &phases {
    let bound = *bound;
    let all = phase_scripts;
    let mut phase_done = 0u64;
    let results = crate::par::par_map(all, lanes, 1 << 20, Some(deadline), |_, (variant, script)| {
        let reference = &references[*variant];
        let cfg = pool(per_lane, Some(deadline));
        let scenario = json!({"script": script, "variant": variant, "ref_seq": reference["seq"]});
        let counters = std::sync::Mutex::new((0u64, 0u64, 0u64));
        let st = x3::explore(
            &cfg,
            &scenario,
            bound,
            Some(deadline),
            &|rec| {
                let o = &rec["obs"];
                let mut c = counters.lock().unwrap();
                c.0 += o["stops"].as_u64().unwrap_or(0);
                c.1 += o["resumes_while_parked"].as_u64().unwrap_or(0);
                c.2 += o["step_checks"].as_u64().unwrap_or(0);
                judge(reference, script, rec)
            },
            &|rec| format!("stops={} reasons={} finished={}", rec["obs"]["stops"], rec["obs"]["stop_reasons"], rec["obs"]["finished"]),
            &|rec, _| {
                if rec["abort"]["kind"] == "deadlock" {
                    vec![Violation {
                        signature: format!("C17/deadlock/{}", script_class(script)),
                        what: format!("script {:?}: no thread can make progress: {}", script, rec["abort"]["detail"]),
                        case: json!({"clause": "deadlock"}),
                    }]
                } else {
                    Vec::new()
                }
            },
        );
        let c = counters.into_inner().unwrap();
        (st, c)
    });
    for ((_variant, script), r) in all.iter().zip(results) {
        let Some((st, c)) = r else {
            exhaustive = false;
            scripts_capped += 1;
            continue;
        };
        let st = st.map_err(Machinery)?;
        let cfg1 = pool(1, None);
        for v in &st.violations {
            let sc = &v.case["scenario"];
            let r1 = x3::exec_once(&cfg1, sc).map_err(Machinery)?;
            let r2 = x3::exec_once(&cfg1, sc).map_err(Machinery)?;
            if r1["trace_hash"] != r2["trace_hash"] || r1["obs"] != r2["obs"] {
                return machinery(format!("schedule replay is not deterministic for {}", v.signature));
            }
            rep.violation(v.clone());
        }
        total_sched += st.schedules;
        total_steps += st.total_steps;
        stops_total += c.0;
        resumes += c.1;
        step_checks += c.2;
        for k in st.outcomes.keys() {
            outcomes.insert(k.clone());
        }
        if st.capped || st.completed_bound != Some(bound) {
            exhaustive = false;
            scripts_capped += 1;
        } else {
            scripts_done += 1;
            phase_done += 1;
        }
        if st.horizon_hits > 0 {
            rep.cap(format!("script {:?}: {} executions hit the step horizon", script, st.horizon_hits));
        }
        if st.retried_timeouts > 0 {
            rep.assume(&format!("script {:?}: {} executions hit the per-execution wall timeout once and completed when run again", script, st.retried_timeouts));
        }
        if rep.samples.len() < 4 && script.len() >= 3 {
            if let Some(s) = st.samples.first() {
                rep.sample(json!({"script": script, "execution": s}));
            }
        }
    }
    phase_report.push(json!({"phase": phase_name, "scripts": all.len(), "deviation_bound": bound, "fully_explored": phase_done}));
    if (phase_done as usize) < all.len() {
        rep.cap(format!("phase '{phase_name}': {} of {} scripts not fully explored to bound {bound} within the wall budget", all.len() - phase_done as usize, all.len()));
    }
    }
    let bound = phases.iter().map(|p| p.2).max().unwrap_or(1);
    rep.set("phases", json!(phase_report));
    if total_sched < 100 || stops_total == 0 || resumes == 0 || step_checks == 0 {
        return machinery(format!(
            "vacuous exploration: {total_sched} schedules, {stops_total} stops, {resumes} resumes while stopped, {step_checks} step checks"
        ));
    }
    rep.set("states", total_steps);
    rep.set("transitions", total_steps);
    rep.set("traces_validated_against_impl", total_sched);
    rep.set("schedules", total_sched);
    rep.set("scripts", phases.iter().map(|p| p.1.len() as u64).max().unwrap_or(0));
    rep.set("scripts_fully_explored", scripts_done);
    rep.set("script_explorations_capped", scripts_capped);
    rep.set("deviation_bound", bound as u64);
    rep.set("stops_observed", stops_total);
    rep.set("resumes_while_stopped", resumes);
    rep.set("step_depth_or_order_checks", step_checks);
    rep.set("distinct_outcomes", outcomes.len() as u64);
    rep.set("program_variants", PROGRAMS.len() as u64);
    rep.set("reference_statement_sequence_length", references[0]["seq"].as_array().map(|a| a.len()).unwrap_or(0) as u64);
    rep.set("exhaustive", exhaustive);
    rep.set("explanation", "states/transitions = scheduling points executed over all schedules (stateless exploration of the real DebugControl + Runtime; no state merging); traces_validated_against_impl = complete schedules whose observations were compared with the undebugged reference run");
    rep.assume("interleavings at Mutex/Condvar operation granularity (every statement hook, controller call and event push), sequentially consistent, no spurious wake-ups; deviation-bounded");
    rep.assume("scripts contain no writes; one program in two variants (nested functions, loop, FB, one task + one background program; the task program or the background program ends inside a call), two cycles");
    Ok(rep)
}

pub fn check_case(case: &Value) -> Vec<Violation> {
    let sc = &case["scenario"];
    let script: Vec<String> = sc["script"].as_array().map(|a| a.iter().map(|s| s.as_str().unwrap_or("").to_string()).collect()).unwrap_or_default();
    let Ok(reference) = reference(sc["variant"].as_u64().unwrap_or(0) as usize) else { return Vec::new() };
    let cfg = pool(1, None);
    let Ok(rec) = x3::exec_once(&cfg, sc) else { return Vec::new() };
    if rec["abort"].is_null() {
        judge(&reference, &script, &rec)
    } else if rec["abort"]["kind"] == "deadlock" {
        vec![Violation {
            signature: format!("C17/deadlock/{}", script_class(&script)),
            what: format!("no thread can make progress: {}", rec["abort"]["detail"]),
            case: case.clone(),
        }]
    } else {
        Vec::new()
    }
}

pub fn workers() -> Vec<(&'static str, WorkerFn)> {
    vec![("c17_exec", worker_exec as iso::WorkerFn)]
}
