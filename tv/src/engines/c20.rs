//! C20 — resource threads: consistent shared globals; pause/resume/stop always work.
//! Core X3: every interleaving (at synchronisation-operation granularity, preemption-bounded) of
//! real `ResourceRunner` threads sharing `SharedGlobals`, driven by a controller thread.

use crate::fw::*;
use crate::iso::{self, PoolCfg, WorkerFn};
use crate::x3;
use serde_json::{json, Value};
use std::sync::{Arc, Mutex as StdMutex};
use std::time::{Duration, Instant};
use trust_runtime::error::RuntimeError;
use trust_runtime::harness::TestHarness;
use trust_runtime::retain::RetainStore;
use trust_runtime::scheduler::{ManualClock, ResourceRunner, ResourceState, SharedGlobals, StartGate};
use trust_runtime::value::{Duration as StDuration, Value as StValue};
use trust_runtime::verif_sync;
use trust_runtime::RetainSnapshot;

const HORIZON: u64 = 6000;

fn program(i: usize, fault_at: Option<i64>) -> String {
    let fault = match fault_at {
        Some(k) => format!("IF c = {k} THEN x := 1 / z; END_IF;\n"),
        None => String::new(),
    };
    format!(
        r#"
CONFIGURATION Conf
VAR_GLOBAL
    n : DINT := 0; m : DINT := 0; bad : BOOL := FALSE; p0 : DINT := 0; p1 : DINT := 0; p2 : DINT := 0;
    z : DINT := 0; x : DINT := 0;
END_VAR
VAR_GLOBAL RETAIN
    c : DINT := 0;
END_VAR
PROGRAM P1 : Main;
END_CONFIGURATION

PROGRAM Main
c := c + 1;
{fault}n := n + 1;
m := m + 1;
bad := bad OR (n <> m);
p{i} := p{i} + 1;
END_PROGRAM
"#
    )
}

/// Retain store that records every snapshot it is asked to save (un-instrumented std mutex:
/// never held across a scheduling point).
#[derive(Clone)]
struct CountingStore {
    saved: Arc<StdMutex<Vec<i64>>>,
}

impl RetainStore for CountingStore {
    fn load(&self) -> Result<RetainSnapshot, RuntimeError> {
        Ok(RetainSnapshot::default())
    }
    fn store(&self, snapshot: &RetainSnapshot) -> Result<(), RuntimeError> {
        let c = snapshot.values().get("c").map(as_i64).unwrap_or(-1);
        self.saved.lock().unwrap().push(c);
        Ok(())
    }
}

fn as_i64(v: &StValue) -> i64 {
    match v {
        StValue::SInt(x) => i64::from(*x),
        StValue::Int(x) => i64::from(*x),
        StValue::DInt(x) => i64::from(*x),
        StValue::LInt(x) => *x,
        StValue::USInt(x) => i64::from(*x),
        StValue::UInt(x) => i64::from(*x),
        StValue::UDInt(x) => i64::from(*x),
        StValue::ULInt(x) => *x as i64,
        _ => -1,
    }
}

fn state_name(s: ResourceState) -> &'static str {
    match s {
        ResourceState::Boot => "Boot",
        ResourceState::Ready => "Ready",
        ResourceState::Running => "Running",
        ResourceState::Paused => "Paused",
        ResourceState::Faulted => "Faulted",
        ResourceState::Stopped => "Stopped",
    }
}

/// One complete execution of a scenario under the controlled scheduler (worker side).
pub fn worker_exec(case: &Value) -> Value {
    let family = case["family"].as_str().unwrap_or("lost").to_string();
    let nres = case["resources"].as_u64().unwrap_or(2) as usize;
    let advances = case["advances"].as_u64().unwrap_or(1) as usize;
    x3::run_controlled(case, HORIZON, move |_sched| scenario(&family, nres, advances))
}

fn scenario(family: &str, nres: usize, advances: usize) -> Value {
    let interval = StDuration::from_millis(100);
    let mut runtimes = Vec::new();
    let mut stores = Vec::new();
    for i in 0..nres {
        let fault_at = if family == "fault" && i == 0 { Some(2) } else { None };
        let mut rt = TestHarness::from_source(&program(i, fault_at))
            .expect("C20 scenario program must compile")
            .into_runtime();
        let store = CountingStore {
            saved: Arc::new(StdMutex::new(Vec::new())),
        };
        rt.set_retain_store(Some(Box::new(store.clone())), None);
        stores.push(store);
        runtimes.push(rt);
    }
    let names: Vec<smol_str::SmolStr> = ["n", "m", "bad", "p0", "p1", "p2"].iter().map(|s| (*s).into()).collect();
    let shared = SharedGlobals::from_runtime(names, &runtimes[0]).expect("shared globals");
    // family shared-clock: every resource sleeps on a clone of ONE clock, so a wake-up meant for
    // one resource is seen by all sleepers
    let shared_clock = ManualClock::new();
    let clocks: Vec<ManualClock> = (0..nres).map(|_| if family == "shared-clock" { shared_clock.clone() } else { ManualClock::new() }).collect();
    let gate = Arc::new(StartGate::new());
    let mut handles = Vec::new();
    for (i, rt) in runtimes.into_iter().enumerate() {
        let mut runner = ResourceRunner::new(rt, clocks[i].clone(), interval);
        if family == "gated" && i == 0 {
            runner = runner.with_start_gate(gate.clone());
        }
        let h = runner
            .spawn_with_shared(format!("res-{i}"), shared.clone())
            .expect("spawn resource");
        handles.push(h);
    }
    let get = |name: &str| shared.get(name).as_ref().map(as_i64).unwrap_or(-1);
    let mut obs = serde_json::Map::new();

    // poll (visibly, with yields) until resource i has entered its k-th sleep, i.e. finished k cycles
    let wait_sleeps = |i: usize, k: u64| -> bool {
        let mut polls = 0;
        while clocks[i].sleep_calls() < k {
            polls += 1;
            if polls > 300 {
                return false;
            }
            verif_sync::yield_point("ctl.wait_cycle");
        }
        true
    };
    match family {
        "shared-clock" => {
            // wait (visibly) until every resource sleeps, then stop them one by one without moving time
            for i in 0..nres {
                let mut polls = 0;
                while clocks[i].sleep_calls() < nres as u64 && polls < 300 {
                    polls += 1;
                    verif_sync::yield_point("ctl.wait_all_asleep");
                }
            }
        }
        "stop-advance" | "stop-settime" => {
            // like race-stop; the clocks keep moving after stop() (see below): time that passes
            // after a stop request must not make the resource miss it
            for c in &clocks {
                c.advance(interval);
            }
        }
        "race-stop" => {
            // the controller does not wait for anything: stop arrives at an arbitrary moment
            for _ in 0..advances {
                for c in &clocks {
                    c.advance(interval);
                }
            }
        }
        "lost" => {
            // synchronised rounds: every resource completes exactly advances+1 cycles
            let mut ok = true;
            for round in 0..advances {
                for i in 0..nres {
                    ok &= wait_sleeps(i, round as u64 + 1);
                }
                for c in &clocks {
                    c.advance(interval);
                }
            }
            for i in 0..nres {
                ok &= wait_sleeps(i, advances as u64 + 1);
            }
            obs.insert("rounds_completed".into(), json!(ok));
        }
        "fault" => {
            // resource 0 faults in its second cycle; resource 1.. must keep cycling
            let mut ok = true;
            for i in 0..nres {
                ok &= wait_sleeps(i, 1);
            }
            for c in &clocks {
                c.advance(interval);
            }
            let mut polls = 0;
            while handles[0].state() != ResourceState::Faulted && polls < 300 {
                polls += 1;
                verif_sync::yield_point("ctl.wait_fault");
            }
            obs.insert("fault_seen".into(), json!(handles[0].state() == ResourceState::Faulted));
            for round in 0..advances {
                for i in 1..nres {
                    ok &= wait_sleeps(i, round as u64 + 2);
                }
                for c in &clocks {
                    c.advance(interval);
                }
            }
            for i in 1..nres {
                ok &= wait_sleeps(i, advances as u64 + 2);
            }
            obs.insert("rounds_completed".into(), json!(ok));
        }
        "pause" | "stop-paused" => {
            let ctl = handles[0].control();
            ctl.pause().expect("pause command");
            let mut polls = 0;
            let mut seen = false;
            while polls < 300 {
                if ctl.state() == ResourceState::Paused {
                    seen = true;
                    break;
                }
                polls += 1;
                verif_sync::yield_point("ctl.wait_paused");
            }
            obs.insert("pause_seen".into(), json!(seen));
            if seen {
                let before = get("p0");
                for _ in 0..advances.max(1) {
                    for c in &clocks {
                        c.advance(interval);
                    }
                    verif_sync::yield_point("ctl.pause_window");
                }
                verif_sync::yield_point("ctl.pause_window");
                let after = get("p0");
                obs.insert("p0_at_paused".into(), json!(before));
                obs.insert("p0_before_resume".into(), json!(after));
                obs.insert("state_before_resume".into(), json!(state_name(ctl.state())));
            }
            if family == "pause" {
                ctl.resume().expect("resume command");
                // give the resumed resource the chance to run again before stopping it
                let mut polls = 0;
                let base = get("p0");
                while polls < 300 && get("p0") == base && seen {
                    polls += 1;
                    verif_sync::yield_point("ctl.wait_resumed");
                }
                obs.insert("progress_after_resume".into(), json!(get("p0") > base || !seen));
            }
        }
        "gated" => {
            // resource 0 waits at a start gate that is never opened; the others run
            for c in &clocks {
                c.advance(interval);
            }
        }
        _ => {}
    }

    for h in &handles {
        h.stop();
    }
    if family == "stop-advance" {
        // a tick that is shorter than what is left of the cycle interval
        for c in &clocks {
            c.advance(StDuration::from_millis(1));
        }
    }
    if family == "stop-settime" {
        for c in &clocks {
            let now = c.current_time();
            c.set_time(StDuration::from_nanos(now.as_nanos() + 1_000_000));
        }
    }
    let mut joins = Vec::new();
    for h in handles.iter_mut() {
        joins.push(h.join().is_ok());
    }
    let states: Vec<&str> = handles.iter().map(|h| state_name(h.state())).collect();
    let saved: Vec<Vec<i64>> = stores.iter().map(|s| s.saved.lock().unwrap().clone()).collect();
    obs.insert("advances".into(), json!(advances));
    obs.insert("n".into(), json!(get("n")));
    obs.insert("m".into(), json!(get("m")));
    obs.insert("bad".into(), json!(matches!(shared.get("bad"), Some(StValue::Bool(true)))));
    obs.insert("p".into(), json!((0..nres).map(|i| get(&format!("p{i}"))).collect::<Vec<_>>()));
    obs.insert("saved".into(), json!(saved));
    obs.insert("states".into(), json!(states));
    obs.insert("joins".into(), json!(joins));
    obs.insert("last_errors".into(), json!(handles.iter().map(|h| h.last_error().map(|e| format!("{e:?}"))).collect::<Vec<_>>()));
    Value::Object(obs)
}

/// Oracle on one complete execution.
fn judge(family: &str, nres: usize, rec: &Value) -> Vec<Violation> {
    let obs = &rec["obs"];
    let mut out = Vec::new();
    let mut v = |clause: &str, what: String| {
        out.push(Violation {
            signature: format!("C20/{clause}/{family}"),
            what,
            case: json!({"clause": clause}),
        });
    };
    let n = obs["n"].as_i64().unwrap_or(-1);
    let m = obs["m"].as_i64().unwrap_or(-1);
    let p: Vec<i64> = obs["p"].as_array().map(|a| a.iter().map(|x| x.as_i64().unwrap_or(-1)).collect()).unwrap_or_default();
    let states: Vec<String> = obs["states"].as_array().map(|a| a.iter().map(|x| x.as_str().unwrap_or("").to_string()).collect()).unwrap_or_default();
    let saved: Vec<Vec<i64>> = obs["saved"]
        .as_array()
        .map(|a| a.iter().map(|s| s.as_array().map(|b| b.iter().map(|x| x.as_i64().unwrap_or(-1)).collect()).unwrap_or_default()).collect())
        .unwrap_or_default();
    // contributions: private cycle counter saved at stop; the faulting resource completes exactly
    // one cycle before the faulting one (which changes no shared variable)
    let mut contrib = Vec::new();
    for i in 0..nres {
        let faulting = family == "fault" && i == 0;
        let gated = family == "gated" && i == 0;
        let expected_state = if faulting { "Faulted" } else { "Stopped" };
        // a faulting resource that was stopped before reaching its second cycle is Stopped
        let st = states.get(i).map(String::as_str).unwrap_or("");
        let state_ok = st == expected_state;
        if !state_ok {
            v("state", format!("resource {i} ended in state {st}, expected {expected_state} after stop+join"));
        }
        if obs["joins"][i].as_bool() != Some(true) {
            v("join", format!("join of resource {i} did not return Ok"));
        }
        let s = saved.get(i).cloned().unwrap_or_default();
        if st == "Stopped" && !gated {
            if s.len() != 1 {
                v("save-count", format!("resource {i} stopped but retained data was saved {} times (expected once)", s.len()));
            }
        } else if s.len() > 1 {
            v("save-count", format!("resource {i} saved retained data {} times", s.len()));
        }
        let c = if st == "Stopped" {
            if gated { 0 } else { s.last().copied().unwrap_or(-1) }
        } else {
            1
        };
        contrib.push(c);
    }
    let sum: i64 = contrib.iter().sum();
    if contrib.iter().all(|c| *c >= 0) {
        if n != sum {
            v("lost-update", format!("shared counter n = {n} but the resources completed {contrib:?} cycles (sum {sum})"));
        }
        for i in 0..nres {
            if p.get(i).copied() != Some(contrib[i]) {
                v("lost-update", format!("shared progress p{i} = {:?} but resource {i} completed {} cycles", p.get(i), contrib[i]));
            }
        }
    }
    if n != m {
        v("torn-pair", format!("paired shared variables differ at the end: n = {n}, m = {m}"));
    }
    if obs["bad"].as_bool() == Some(true) {
        v("torn-pair", "a cycle observed n <> m (half-updated set of shared variables)".to_string());
    }
    if obs.get("rounds_completed").and_then(Value::as_bool) == Some(false) {
        v("no-progress", "a healthy resource did not complete its next cycle within 300 polls of the controller (blocked by another resource?)".to_string());
    }
    if family == "lost" {
        let adv = obs["advances"].as_i64().unwrap_or(0);
        for (i, c) in contrib.iter().enumerate() {
            if *c != adv + 1 {
                v("cycle-count", format!("resource {i} completed {c} cycles in {adv} synchronised rounds (expected {})", adv + 1));
            }
        }
    }
    if family == "fault" {
        if obs["fault_seen"].as_bool() != Some(true) {
            v("fault-state", "resource 0 divided by zero in its second cycle but never reported Faulted".to_string());
        }
        if states.first().map(String::as_str) != Some("Faulted") {
            v("fault-state", format!("faulted resource ended in state {:?}", states.first()));
        }
    }
    if family == "pause" || family == "stop-paused" {
        if obs["pause_seen"].as_bool() != Some(true) {
            v("pause-lost", "pause() was issued but the resource never reported Paused within 300 polls".to_string());
        } else {
            let a = obs["p0_at_paused"].as_i64().unwrap_or(-1);
            let b = obs["p0_before_resume"].as_i64().unwrap_or(-2);
            if a != b {
                v("cycle-while-paused", format!("resource 0 executed cycles while paused: progress {a} -> {b} between observing Paused and resume"));
            }
            if obs["state_before_resume"].as_str() != Some("Paused") {
                v("cycle-while-paused", format!("state left Paused without resume: {}", obs["state_before_resume"]));
            }
        }
        if family == "pause" && obs["progress_after_resume"].as_bool() != Some(true) {
            v("resume-lost", "resume() was issued but the resource made no further progress".to_string());
        }
    }
    out
}

fn pool(ctx_threads: usize, deadline: Option<Instant>) -> PoolCfg {
    PoolCfg {
        worker: "c20_exec",
        procs: ctx_threads,
        rlimit_as: 0,
        per_case: Duration::from_secs(60),
        deadline,
        env: vec![],
        stack: 8 << 20,
    }
}

struct Scn {
    family: &'static str,
    resources: usize,
    advances: usize,
    bound: usize,
}

pub fn run(ctx: &Ctx) -> EngineResult {
    let mut rep = Report::new("model_checking");
    let scns: Vec<Scn> = match ctx.tier {
        Tier::Quick => vec![
            Scn { family: "lost", resources: 2, advances: 1, bound: 2 },
            Scn { family: "race-stop", resources: 2, advances: 1, bound: 2 },
            Scn { family: "stop-advance", resources: 2, advances: 1, bound: 2 },
            Scn { family: "shared-clock", resources: 2, advances: 1, bound: 1 },
            Scn { family: "shared-clock", resources: 3, advances: 1, bound: 1 },
            Scn { family: "stop-settime", resources: 2, advances: 1, bound: 1 },
            Scn { family: "fault", resources: 2, advances: 1, bound: 2 },
            Scn { family: "stop-paused", resources: 2, advances: 1, bound: 2 },
            Scn { family: "gated", resources: 2, advances: 1, bound: 2 },
            Scn { family: "pause", resources: 2, advances: 1, bound: 2 },
        ],
        Tier::Thorough => vec![
            Scn { family: "lost", resources: 2, advances: 2, bound: 3 },
            Scn { family: "lost", resources: 3, advances: 1, bound: 3 },
            Scn { family: "race-stop", resources: 2, advances: 2, bound: 4 },
            Scn { family: "stop-advance", resources: 2, advances: 1, bound: 4 },
            Scn { family: "stop-settime", resources: 2, advances: 1, bound: 3 },
            Scn { family: "stop-advance", resources: 3, advances: 1, bound: 2 },
            Scn { family: "shared-clock", resources: 2, advances: 1, bound: 3 },
            Scn { family: "shared-clock", resources: 3, advances: 1, bound: 2 },
            Scn { family: "fault", resources: 2, advances: 2, bound: 3 },
            Scn { family: "stop-paused", resources: 2, advances: 1, bound: 4 },
            Scn { family: "gated", resources: 2, advances: 1, bound: 4 },
            Scn { family: "pause", resources: 2, advances: 1, bound: 3 },
            Scn { family: "pause", resources: 3, advances: 1, bound: 3 },
        ],
    };
    let total_budget = ctx.tier.pick(45.0, 840.0);
    let per = total_budget / scns.len() as f64;
    let mut total_sched = 0u64;
    let mut total_steps = 0u64;
    let mut all_outcomes = 0usize;
    let mut exhaustive = true;
    let mut scn_reports = Vec::new();
    for s in &scns {
        let scenario = json!({"family": s.family, "resources": s.resources, "advances": s.advances});
        let fam = s.family;
        let nres = s.resources;
        let explore = |seconds: f64| {
        let deadline = Instant::now() + Duration::from_secs_f64(seconds);
        let cfg = pool(ctx.threads, Some(deadline));
        x3::explore(
            &cfg,
            &scenario,
            s.bound,
            Some(deadline),
            &|rec| judge(fam, nres, rec),
            &|rec| {
                let o = &rec["obs"];
                format!("n={} p={} states={} saved={}", o["n"], o["p"], o["states"], o["saved"])
            },
            &|rec, _case| {
                let kind = rec["abort"]["kind"].as_str().unwrap_or("");
                if kind == "deadlock" {
                    vec![Violation {
                        signature: format!("C20/deadlock/{fam}"),
                        what: format!("no thread can make progress: {} ({})", rec["abort"]["detail"], rec["thread_states"]),
                        case: json!({"clause": "deadlock"}),
                    }]
                } else {
                    Vec::new()
                }
            },
        )
        };
        let mut stats = explore(per).map_err(Machinery)?;
        if stats.capped && stats.completed_bound.is_none() && stats.violations.is_empty() {
            // the wall share ran out before even the schedules without a deviation were done (a busy
            // machine: worker start-up alone can take that long): the scenario is explored again
            // with a larger share instead of being reported as (vacuously) covered
            eprintln!("[C20] {} x{}: wall share of {per:.1}s ended before bound 0 was complete, exploring again with {:.1}s", s.family, s.resources, per * 8.0);
            stats = explore(per * 8.0).map_err(Machinery)?;
        }
        // confirm each violation by re-executing its schedule twice
        let cfg1 = pool(1, None);
        for v in stats.violations.iter() {
            let sc = &v.case["scenario"];
            let r1 = x3::exec_once(&cfg1, sc).map_err(Machinery)?;
            let r2 = x3::exec_once(&cfg1, sc).map_err(Machinery)?;
            if r1["trace_hash"] != r2["trace_hash"] || r1["obs"] != r2["obs"] {
                return machinery(format!("schedule replay is not deterministic for {}", v.signature));
            }
            rep.violation(v.clone());
        }
        if stats.schedules < 2 || stats.outcomes.len() < 2 && s.family == "race-stop" {
            return machinery(format!(
                "vacuous exploration in scenario {}: {} schedules, {} outcomes",
                s.family,
                stats.schedules,
                stats.outcomes.len()
            ));
        }
        total_sched += stats.schedules;
        total_steps += stats.total_steps;
        all_outcomes += stats.outcomes.len();
        if stats.capped {
            exhaustive = false;
            rep.cap(format!(
                "scenario {}({} resources): wall cap; preemption bound completed: {:?} of {}",
                s.family, s.resources, stats.completed_bound, s.bound
            ));
        }
        if stats.horizon_hits > 0 {
            rep.cap(format!("scenario {}: {} executions hit the step horizon {HORIZON}", s.family, stats.horizon_hits));
        }
        for smp in stats.samples.iter().take(1) {
            rep.sample(json!({"scenario": scenario, "execution": smp}));
        }
        scn_reports.push(json!({
            "scenario": scenario,
            "max_preemptions": s.bound,
            "completed_bound": stats.completed_bound,
            "schedules": stats.schedules,
            "schedules_per_bound": stats.per_bound,
            "distinct_outcomes": stats.outcomes.len(),
            "outcomes": stats.outcomes.iter().take(12).map(|(k, n)| json!({"outcome": k, "schedules": n})).collect::<Vec<_>>(),
            "max_decisions_per_execution": stats.max_decisions,
            "max_steps_per_execution": stats.max_steps,
            "horizon_hits": stats.horizon_hits,
            "executions_retried_after_wall_timeout": stats.retried_timeouts,
            "deadlocks": stats.deadlocks,
        }));
        eprintln!(
            "[C20] {} x{}: {} schedules (per bound {:?}), {} outcomes, completed bound {:?}, {:.1}s",
            s.family, s.resources, stats.schedules, stats.per_bound, stats.outcomes.len(), stats.completed_bound, ctx.elapsed()
        );
    }
    rep.set("states", total_steps);
    rep.set("transitions", total_steps);
    rep.set("traces_validated_against_impl", total_sched);
    rep.set("schedules", total_sched);
    rep.set("distinct_outcomes", all_outcomes as u64);
    rep.set("scenarios", scn_reports);
    rep.set("exhaustive", exhaustive);
    rep.set(
        "explanation",
        "states/transitions = scheduling points executed over all schedules (stateless exploration: every schedule is a complete execution of the real ResourceRunner threads; no state merging). traces_validated_against_impl = complete schedules executed and judged.",
    );
    rep.assume("interleavings at the granularity of Mutex/Condvar/AtomicBool/spawn/join operations and the explicit loop-head and command-drain points; sequentially consistent; no spurious condvar wake-ups");
    rep.assume("one ManualClock per resource; cycle interval 100 ms; preemption-bounded (see scenarios[].completed_bound)");
    Ok(rep)
}

pub fn check_case(case: &Value) -> Vec<Violation> {
    let sc = &case["scenario"];
    let fam = sc["family"].as_str().unwrap_or("").to_string();
    let nres = sc["resources"].as_u64().unwrap_or(2) as usize;
    let cfg = pool(1, None);
    let Ok(rec) = x3::exec_once(&cfg, sc) else { return Vec::new() };
    if rec["abort"].is_null() {
        judge(&fam, nres, &rec)
    } else if rec["abort"]["kind"] == "deadlock" {
        vec![Violation {
            signature: format!("C20/deadlock/{fam}"),
            what: format!("no thread can make progress: {}", rec["abort"]["detail"]),
            case: case.clone(),
        }]
    } else {
        Vec::new()
    }
}

pub fn workers() -> Vec<(&'static str, WorkerFn)> {
    vec![("c20_exec", worker_exec as iso::WorkerFn)]
}
