//! C15 — formatting never changes the program and is idempotent (core X1: bounded-exhaustive
//! enumeration of texts x formatter configurations x ranges / positions, every one formatted by
//! the REAL code).
//!
//! Seams
//!   * `lsp`: the real `trust-lsp` binary over stdio JSON-RPC (`textDocument/formatting`,
//!     `rangeFormatting`, `onTypeFormatting`); options are supplied the way a client supplies them:
//!     `FormattingOptions` of the request, `workspace/didChangeConfiguration`
//!     (`trust-lsp.format.*`) and a `trust-lsp.toml` with `[project] vendor_profile` in the
//!     workspace folder that owns the document.
//!   * `web`: `trust_runtime::web::ide::WebIdeState::format_source` in-process.
//!
//! Oracle (only what the property statement says), `trust_syntax::lex` on both sides:
//!   tokens     same sequence of non-trivia token texts; two tokens that are both keywords
//!              (`TokenKind::is_keyword`) are compared ASCII-case-insensitively, everything else
//!              byte for byte;
//!   specials   same comments, pragmas and string literals in the same order (comments / pragmas are
//!              compared modulo line-ending style and leading/trailing blanks of each of their
//!              lines: a formatter may re-indent continuation lines and trim line ends);
//!   idempotent format(format(s)) == format(s);
//!   range / ontype  the text obtained by applying the returned edits has the same tokens and
//!              specials as s (an edit that pastes text of other lines or drops non-blank lines
//!              necessarily changes one of the two sequences).
//! Inputs whose lexing contains `Error` tokens (stratum `lexerr`) are required not to crash the
//! formatter, to keep the token-text sequence and to be formatted idempotently ("formatting an
//! already formatted text changes nothing" needs no lexing to be meaningful); no specials claim is
//! made for them (an unterminated comment is one multi-line Error token, "the same comments" has no
//! meaning; the content of that token is not compared either, only that it stays in place).
//!
//! The idempotence pass and the range / on-type checks of a (text, configuration) are evaluated
//! only where the whole-document pass kept the program: a first pass that already changed the
//! tokens is reported by the `tokens` clause, its derived symptoms are not reported again.
//!
//! Signatures: `C15/<clause>/<seam>/<operation>/<input stratum>/<cause feature>`; strata are
//! `valid` (parses without errors), `synerr`, `lexerr`, each `+mlpragma` when a pragma spans lines;
//! the cause feature of a glued token pair is (observed spacing style, left token kind, what the
//! pair became) — the inputs of the formatter's gluing decision; for range / on-type edits it is
//! what whole-document formatting does to the number of lines (`linecount-same|shrank|grew`). A token / comment / pragma /
//! string whose text only gained blanks at one place has the feature `padded:<kind>`, with
//! `@assign-op` when the blanks sit directly in front of the text `:=` / `=>` (the column the
//! text-based assignment alignment pads).
//!
//! Family (v) `align` (added after a missed change: the mask that keeps the text-based alignment
//! pass away from lines with string literals was narrowed): the post passes of the formatter search
//! the *text* of a formatted line for `:=` / `=>` / `,`; what protects literals, comments and
//! pragmas are per-line masks. The family therefore puts assignment-operator text inside every kind
//! of special token (STRING / WSTRING, with comma, multi-byte characters, `$'`, tab; `(* *)`,
//! `/* */`, `//`, pragma) on a "victim" line — before any real operator of the line, after it, on a
//! line without one, on the continuation line of a statement — next to a "neighbour" line whose real
//! operator sits at a larger / smaller column (long name, `=>` call, very long left-hand side, FOR
//! header), in every place where the formatter aligns (statement list, IF body, CASE branch, CASE
//! label lines, multi-line call arguments, VAR declarations with initialisers, multi-line
//! initialiser call inside VAR, STRUCT fields), in both orders, adjacent or separated by a blank /
//! comment / pragma line, with LF / CRLF and with the source already indented by 4 blanks / 2
//! blanks / tab (lines passed through verbatim then share the indentation of their formatted
//! neighbours). Also operator text that only exists across two tokens (`<=` `>` written apart), and
//! `,` (the split text of the wrapping pass, which shares the masks) inside long specials.
//!
//! Family (vi) `blank` (added after a second missed change: the whole-document pass collapsed runs
//! of empty lines while range / on-type formatting cut their lines out of that result by SOURCE
//! line number): constructs for which whole-document formatting may change the NUMBER of lines —
//! runs of 1 / 2 / 3 empty lines, blank-only lines, comments / pragmas / statements continued across
//! empty lines, at the start / end of the file, of a VAR block, between declarations, statements
//! and POUs — swept with every line interval (rangeFormatting) and every line end x trigger
//! (onTypeFormatting), so that requests lie above, inside and below the construct; the same run is
//! also put into texts of every other family whose partial formatting is swept (`crafted+blank`,
//! `corpus+blank`, `mixed+blank`, `align+blank`).
//!
//! Strata of inputs with lexer errors: `lexerr` (stray characters, error-strings = quoted text with
//! an invalid `$` escape, which the lexer returns as ONE Error token), `lexerr+opencomment`
//! (unterminated block comment).
//!
//! Mechanics: requests of a window of texts are pipelined on one connection (the reader thread
//! drains the server continuously; server->client requests are answered at once); a window in which
//! the server panicked / died / hung is re-run one request at a time on fresh servers to attribute
//! the failure. Closed scratch documents are reported as deleted files so that the server's project
//! stays small. A `null` answer to whole-document formatting (= document unknown) is a machinery
//! error. Every configuration switch is followed by an answered probe request (barrier).
//!
//! Left out of the alphabet on purpose: astral-plane characters (column arithmetic of the server is
//! per `char`, that is property C14), lone `\r` line ends (LSP counts them as line breaks, the
//! server does not: C14 as well), form feed / NBSP (lexer Error tokens that `str::trim` removes).

use crate::fw::*;
use crate::iso::WorkerFn;
use crate::par::par_map;
use serde_json::{json, Map, Value};
use std::collections::{HashSet, VecDeque};
use std::io::{BufRead, BufReader, Read, Write};
use std::path::{Path, PathBuf};
use std::process::{Child, ChildStdin, Command, Stdio};
use std::sync::atomic::{AtomicU64, Ordering};
use std::sync::{mpsc, Arc, Mutex};
use std::time::{Duration, Instant};
use trust_runtime::web::ide::{IdeRole, WebIdeState};
use trust_syntax::lexer::{lex, TokenKind};
use trust_syntax::parser::parse;

// ------------------------------------------------------------------------------------------------
// configurations
// ------------------------------------------------------------------------------------------------

const INDENT: &[&str] = &["sp4", "sp2", "tab", "cfg3"];
const CASE: &[&str] = &["unset", "preserve", "upper", "lower"];
const SPACING: &[&str] = &["unset", "spaced", "compact"];
const ENDKW: &[&str] = &["unset", "aligned", "indented"];
const TRI: &[&str] = &["unset", "true", "false"];
const MAXLEN: &[&str] = &["unset", "20", "40"];
const VENDOR: &[&str] = &["none", "codesys", "siemens", "mitsubishi"];
const DIMS: &[(&str, &[&str])] = &[
    ("indent", INDENT),
    ("keywordCase", CASE),
    ("spacingStyle", SPACING),
    ("endKeywordStyle", ENDKW),
    ("alignVarDecls", TRI),
    ("alignAssignments", TRI),
    ("maxLineLength", MAXLEN),
    ("vendor", VENDOR),
];

/// One formatter configuration: index into the menu of every dimension of `DIMS`.
#[derive(Clone, Copy, Debug, PartialEq, Eq, Hash)]
pub struct Cfg(pub [u8; 8]);

impl Cfg {
    fn name(&self, d: usize) -> &'static str {
        DIMS[d].1[self.0[d] as usize]
    }
    fn to_json(self) -> Value {
        let mut m = Map::new();
        for (d, (k, _)) in DIMS.iter().enumerate() {
            m.insert((*k).to_string(), json!(self.name(d)));
        }
        Value::Object(m)
    }
    fn from_json(v: &Value) -> Cfg {
        let mut c = [0u8; 8];
        for (d, (k, menu)) in DIMS.iter().enumerate() {
            if let Some(s) = v.get(*k).and_then(Value::as_str) {
                if let Some(i) = menu.iter().position(|m| *m == s) {
                    c[d] = i as u8;
                }
            }
        }
        Cfg(c)
    }
    /// `settings` of workspace/didChangeConfiguration
    fn settings(&self) -> Value {
        let mut f = Map::new();
        if self.name(0) == "cfg3" {
            f.insert("indentWidth".into(), json!(3));
            f.insert("insertSpaces".into(), json!(true));
        }
        if self.name(1) != "unset" {
            f.insert("keywordCase".into(), json!(self.name(1)));
        }
        if self.name(2) != "unset" {
            f.insert("spacingStyle".into(), json!(self.name(2)));
        }
        if self.name(3) != "unset" {
            f.insert("endKeywordStyle".into(), json!(self.name(3)));
        }
        if self.name(4) != "unset" {
            f.insert("alignVarDecls".into(), json!(self.name(4) == "true"));
        }
        if self.name(5) != "unset" {
            f.insert("alignAssignments".into(), json!(self.name(5) == "true"));
        }
        if self.name(6) != "unset" {
            f.insert("maxLineLength".into(), json!(self.name(6).parse::<u64>().unwrap()));
        }
        json!({ "trust-lsp": { "format": Value::Object(f) } })
    }
    /// `FormattingOptions` of the request
    fn options(&self) -> Value {
        match self.name(0) {
            "sp2" => json!({"tabSize": 2, "insertSpaces": true}),
            "sp4" => json!({"tabSize": 4, "insertSpaces": true}),
            "tab" => json!({"tabSize": 4, "insertSpaces": false}),
            _ => json!({"tabSize": 8, "insertSpaces": false}),
        }
    }
    fn vendor(&self) -> &'static str {
        self.name(7)
    }
    fn short(&self) -> String {
        (0..8).map(|d| self.name(d)).collect::<Vec<_>>().join(",")
    }
}

const DEFAULT_CFG: Cfg = Cfg([0; 8]);

/// Deterministic greedy pairwise covering array over `DIMS` (every pair of option values of two
/// different dimensions occurs in at least one row). Row 0 is the all-default configuration.
fn covering_array() -> Vec<Cfg> {
    let nd = DIMS.len();
    let size = |d: usize| DIMS[d].1.len();
    let mut uncovered: HashSet<(usize, u8, usize, u8)> = HashSet::new();
    for a in 0..nd {
        for b in a + 1..nd {
            for va in 0..size(a) {
                for vb in 0..size(b) {
                    uncovered.insert((a, va as u8, b, vb as u8));
                }
            }
        }
    }
    let cover = |row: &[u8; 8], unc: &mut HashSet<(usize, u8, usize, u8)>| {
        for a in 0..nd {
            for b in a + 1..nd {
                unc.remove(&(a, row[a], b, row[b]));
            }
        }
    };
    let mut rows = vec![DEFAULT_CFG];
    cover(&DEFAULT_CFG.0, &mut uncovered);
    while !uncovered.is_empty() {
        // seed with the smallest uncovered pair, then fill the other dimensions greedily
        let seed = *uncovered.iter().min().unwrap();
        let mut row: [Option<u8>; 8] = [None; 8];
        row[seed.0] = Some(seed.1);
        row[seed.2] = Some(seed.3);
        for d in 0..nd {
            if row[d].is_some() {
                continue;
            }
            let mut best = (0usize, 0u8);
            for v in 0..size(d) as u8 {
                let gain = (0..nd)
                    .filter(|&o| o != d && row[o].is_some())
                    .filter(|&o| {
                        let (a, va, b, vb) = if o < d { (o, row[o].unwrap(), d, v) } else { (d, v, o, row[o].unwrap()) };
                        uncovered.contains(&(a, va, b, vb))
                    })
                    .count();
                if gain > best.0 {
                    best = (gain, v);
                }
            }
            row[d] = Some(best.1);
        }
        let mut r = [0u8; 8];
        for d in 0..nd {
            r[d] = row[d].unwrap();
        }
        cover(&r, &mut uncovered);
        rows.push(Cfg(r));
    }
    rows
}

/// Full product of the *explicit* option values (no "unset"; vendor none/codesys/siemens).
fn full_product() -> Vec<Cfg> {
    let menus: [&[u8]; 8] = [&[0, 1, 2], &[1, 2, 3], &[1, 2], &[1, 2], &[1, 2], &[1, 2], &[0, 1, 2], &[0, 1, 2]];
    let mut out = Vec::new();
    let mut idx = [0usize; 8];
    loop {
        let mut c = [0u8; 8];
        for d in 0..8 {
            c[d] = menus[d][idx[d]];
        }
        out.push(Cfg(c));
        let mut d = 0;
        loop {
            if d == 8 {
                return out;
            }
            idx[d] += 1;
            if idx[d] < menus[d].len() {
                break;
            }
            idx[d] = 0;
            d += 1;
        }
    }
}

// ------------------------------------------------------------------------------------------------
// JSON-RPC client for the real trust-lsp binary
// ------------------------------------------------------------------------------------------------

#[derive(Debug, Clone)]
pub enum LspFail {
    /// the server process died / closed its stdout (stderr tail attached)
    Died(String),
    /// no answer within the per-request limit
    Timeout,
    /// JSON-RPC error response
    Rpc(i64, String),
    /// the harness and the server disagree about the protocol state (machinery error)
    Protocol(String),
}

#[derive(Debug, Clone, PartialEq)]
pub struct Edit {
    sl: u32,
    sc: u32,
    el: u32,
    ec: u32,
    text: String,
}

pub struct Lsp {
    child: Child,
    stdin: ChildStdin,
    rx: mpsc::Receiver<Value>,
    stderr_tail: Arc<Mutex<VecDeque<String>>>,
    /// message of a panic seen on the server's stderr
    panic_msg: Arc<Mutex<Option<String>>>,
    next_id: u64,
    next_doc: u64,
    root: PathBuf,
    root_uri: String,
    settings: Option<String>,
    /// spacing style observed for the current settings + vendor folder
    pub style: &'static str,
    /// closed documents not yet removed from the server's project
    closed: Vec<String>,
    pub triggers: Vec<String>,
    pub requests: u64,
}

fn lsp_bin() -> PathBuf {
    match std::env::var("TV_LSP_BIN") {
        Ok(p) if !p.is_empty() => PathBuf::from(p),
        _ => {
            let repo = std::env::var("TV_REPO_DIR").unwrap_or_else(|_| "/repo".into());
            PathBuf::from(repo).join("target/debug/trust-lsp")
        }
    }
}

fn path_to_uri(p: &Path) -> String {
    let mut s = String::from("file://");
    for b in p.display().to_string().bytes() {
        if b.is_ascii_alphanumeric() || matches!(b, b'/' | b'-' | b'_' | b'.' | b'~') {
            s.push(b as char);
        } else {
            s.push_str(&format!("%{b:02X}"));
        }
    }
    s
}

const REQ_TIMEOUT: Duration = Duration::from_secs(30);

impl Lsp {
    /// Spawns a server whose workspace folders are `root/<vendor>` for every vendor profile.
    pub fn spawn(root: &Path) -> Result<Lsp, String> {
        let bin = lsp_bin();
        if !bin.is_file() {
            return Err(format!("trust-lsp binary not found at {bin:?} (set TV_LSP_BIN)"));
        }
        std::fs::create_dir_all(root).map_err(|e| format!("create {root:?}: {e}"))?;
        for v in VENDOR {
            let dir = root.join(v);
            std::fs::create_dir_all(&dir).map_err(|e| format!("create {dir:?}: {e}"))?;
            if *v != "none" {
                std::fs::write(dir.join("trust-lsp.toml"), format!("[project]\nvendor_profile = \"{v}\"\n"))
                    .map_err(|e| format!("write trust-lsp.toml: {e}"))?;
            }
        }
        let mut child = Command::new(&bin)
            .current_dir(root)
            .env("RUST_LOG", "error")
            .env("NO_COLOR", "1")
            .env("RUST_BACKTRACE", "0")
            // fewer runtime threads per server: 16 servers run side by side
            .env("TOKIO_WORKER_THREADS", "2")
            .stdin(Stdio::piped())
            .stdout(Stdio::piped())
            .stderr(Stdio::piped())
            .spawn()
            .map_err(|e| format!("cannot spawn {bin:?}: {e}"))?;
        let stdin = child.stdin.take().unwrap();
        let stdout = child.stdout.take().unwrap();
        let stderr = child.stderr.take().unwrap();
        let (tx, rx) = mpsc::channel();
        std::thread::spawn(move || {
            let mut r = BufReader::new(stdout);
            loop {
                let mut len: Option<usize> = None;
                loop {
                    let mut line = String::new();
                    match r.read_line(&mut line) {
                        Ok(0) | Err(_) => return,
                        Ok(_) => {}
                    }
                    let l = line.trim_end();
                    if l.is_empty() {
                        break;
                    }
                    if let Some(v) = l.to_ascii_lowercase().strip_prefix("content-length:") {
                        len = v.trim().parse().ok();
                    }
                }
                let Some(n) = len else { return };
                let mut buf = vec![0u8; n];
                if r.read_exact(&mut buf).is_err() {
                    return;
                }
                let Ok(v) = serde_json::from_slice::<Value>(&buf) else { return };
                if tx.send(v).is_err() {
                    return;
                }
            }
        });
        let stderr_tail = Arc::new(Mutex::new(VecDeque::new()));
        let tail2 = Arc::clone(&stderr_tail);
        let panic_msg: Arc<Mutex<Option<String>>> = Arc::new(Mutex::new(None));
        let panic2 = Arc::clone(&panic_msg);
        std::thread::spawn(move || {
            let r = BufReader::new(stderr);
            let mut expect_msg = false;
            for line in r.lines() {
                let Ok(line) = line else { return };
                if expect_msg {
                    expect_msg = false;
                    let mut p = panic2.lock().unwrap();
                    if let Some(m) = p.as_mut() {
                        m.push_str(line.trim());
                    }
                }
                if line.contains("panicked at") {
                    let loc = line.rsplit("panicked at").next().unwrap_or("").trim().trim_end_matches(':');
                    let loc = loc.rsplit('/').next().unwrap_or(loc);
                    let mut p = panic2.lock().unwrap();
                    if p.is_none() {
                        *p = Some(format!("{loc}: "));
                        expect_msg = true;
                    }
                }
                let mut t = tail2.lock().unwrap();
                if t.len() >= 12 {
                    t.pop_front();
                }
                t.push_back(line);
            }
        });
        let mut lsp = Lsp {
            child,
            stdin,
            rx,
            stderr_tail,
            panic_msg,
            next_id: 1,
            next_doc: 0,
            root: root.to_path_buf(),
            root_uri: path_to_uri(root),
            settings: None,
            style: "spaced",
            closed: Vec::new(),
            triggers: Vec::new(),
            requests: 0,
        };
        let folders: Vec<Value> = VENDOR
            .iter()
            .map(|v| json!({"uri": format!("{}/{v}", lsp.root_uri), "name": v}))
            .collect();
        let init = lsp
            .request(
                "initialize",
                json!({
                    "processId": null,
                    "rootUri": null,
                    "capabilities": {
                        // pull diagnostics: didOpen then does not analyse + publish for every document
                        "workspace": {"diagnostic": {"refreshSupport": true}, "configuration": true, "workspaceFolders": true},
                        "textDocument": {"diagnostic": {}}
                    },
                    "workspaceFolders": folders,
                }),
            )
            .map_err(|e| format!("initialize failed: {e:?}"))?;
        let caps = &init["capabilities"];
        if caps["documentFormattingProvider"] != json!(true) || caps["documentRangeFormattingProvider"] != json!(true) {
            return Err(format!("server does not advertise formatting providers: {caps}"));
        }
        let ot = &caps["documentOnTypeFormattingProvider"];
        if let Some(f) = ot["firstTriggerCharacter"].as_str() {
            lsp.triggers.push(f.to_string());
        }
        for m in ot["moreTriggerCharacter"].as_array().cloned().unwrap_or_default() {
            if let Some(s) = m.as_str() {
                lsp.triggers.push(s.to_string());
            }
        }
        if lsp.triggers.is_empty() {
            return Err("server advertises no on-type formatting trigger characters".into());
        }
        lsp.notify("initialized", json!({}))?;
        // the workspace folders (and their trust-lsp.toml) are loaded one after the other by a
        // background task: wait until the profile of EVERY folder is observable (all three vendor
        // profiles upper-case keywords when the client sends no settings)
        let t0 = Instant::now();
        let mut pending: Vec<u8> = (1..VENDOR.len() as u8).collect();
        while !pending.is_empty() {
            let v = pending[0];
            let cfg = Cfg([0, 0, 0, 0, 0, 0, 0, v]);
            let out = lsp.format_text(&cfg, "program p\nend_program\n").map_err(|e| format!("readiness probe: {e:?}"))?;
            if out.starts_with("PROGRAM") {
                pending.remove(0);
                continue;
            }
            if t0.elapsed() > Duration::from_secs(60) {
                return Err(format!("workspace configuration (trust-lsp.toml, vendor profile {}) never became effective", VENDOR[v as usize]));
            }
            std::thread::sleep(Duration::from_millis(20));
        }
        lsp.forget_closed();
        Ok(lsp)
    }

    fn tail(&self) -> String {
        let t = self.stderr_tail.lock().unwrap();
        t.iter().cloned().collect::<Vec<_>>().join(" | ")
    }

    fn send(&mut self, v: &Value) -> Result<(), String> {
        let body = serde_json::to_string(v).unwrap();
        let r = write!(self.stdin, "Content-Length: {}\r\n\r\n{}", body.len(), body).and_then(|_| self.stdin.flush());
        r.map_err(|e| format!("write to server: {e}"))
    }

    pub fn notify(&mut self, method: &str, params: Value) -> Result<(), String> {
        self.send(&json!({"jsonrpc": "2.0", "method": method, "params": params}))
    }

    /// Sends a request without waiting for the answer; returns its id.
    pub fn send_req(&mut self, method: &str, params: Value) -> Result<u64, LspFail> {
        let id = self.next_id;
        self.next_id += 1;
        self.requests += 1;
        if let Err(e) = self.send(&json!({"jsonrpc": "2.0", "id": id, "method": method, "params": params})) {
            return Err(self.dead(&e));
        }
        Ok(id)
    }

    fn dead(&mut self, why: &str) -> LspFail {
        // the stderr reader may lag behind: give it a moment (longer if the exit code says panic)
        let t0 = Instant::now();
        loop {
            if let Some(p) = self.panic_msg.lock().unwrap().clone() {
                if p.ends_with(": ") && t0.elapsed() < Duration::from_millis(500) {
                    std::thread::sleep(Duration::from_millis(10));
                    continue; // message line not read yet
                }
                return LspFail::Died(format!("panic: {p}"));
            }
            let exited_101 = matches!(self.child.try_wait(), Ok(Some(st)) if st.code() == Some(101));
            if t0.elapsed() > Duration::from_millis(if exited_101 { 2000 } else { 150 }) {
                break;
            }
            std::thread::sleep(Duration::from_millis(10));
        }
        LspFail::Died(format!("{why}; exit status {:?}; stderr: {}", self.child.try_wait(), self.tail()))
    }

    /// Waits for the answers to `ids` (sent in this order). Server→client requests arriving
    /// meanwhile are answered so that the server never blocks; notifications are discarded.
    /// The limit is per answer (no progress for REQ_TIMEOUT = hang). Answers received before a
    /// failure are returned in `got`.
    pub fn collect(&mut self, ids: &[u64], got: &mut Vec<Result<Value, (i64, String)>>) -> Result<(), LspFail> {
        let mut slots: Vec<Option<Result<Value, (i64, String)>>> = vec![None; ids.len()];
        let first = ids.first().copied().unwrap_or(0);
        let mut missing = ids.len();
        let mut deadline = Instant::now() + REQ_TIMEOUT;
        let mut panic_seen: Option<Instant> = None;
        let mut fail: Option<LspFail> = None;
        while missing > 0 {
            let left = deadline.saturating_duration_since(Instant::now()).min(Duration::from_millis(100));
            match self.rx.recv_timeout(left) {
                Ok(msg) => {
                    if msg.get("method").is_some() {
                        if let Some(rid) = msg.get("id") {
                            let result = if msg["method"] == "workspace/configuration" {
                                let n = msg["params"]["items"].as_array().map(|a| a.len()).unwrap_or(0);
                                Value::Array(vec![Value::Null; n])
                            } else {
                                Value::Null
                            };
                            let _ = self.send(&json!({"jsonrpc": "2.0", "id": rid, "result": result}));
                        }
                        continue;
                    }
                    let Some(id) = msg.get("id").and_then(Value::as_u64) else { continue };
                    // ids of one collect call are consecutive
                    if id < first || (id - first) as usize >= ids.len() {
                        continue;
                    }
                    let k = (id - first) as usize;
                    if slots[k].is_none() {
                        missing -= 1;
                    }
                    slots[k] = Some(match msg.get("error") {
                        Some(err) => Err((err["code"].as_i64().unwrap_or(0), err["message"].as_str().unwrap_or("").to_string())),
                        None => Ok(msg.get("result").cloned().unwrap_or(Value::Null)),
                    });
                    deadline = Instant::now() + REQ_TIMEOUT;
                }
                Err(mpsc::RecvTimeoutError::Timeout) => {
                    if Instant::now() >= deadline {
                        fail = Some(LspFail::Timeout);
                        break;
                    }
                    // a panic of the request task leaves the process alive but deaf (the runtime
                    // waits for its blocking stdin reader): do not wait the full limit
                    if self.panic_msg.lock().unwrap().is_some() {
                        let t = *panic_seen.get_or_insert_with(Instant::now);
                        if t.elapsed() > Duration::from_millis(250) {
                            fail = Some(self.dead("panic"));
                            break;
                        }
                    }
                }
                Err(mpsc::RecvTimeoutError::Disconnected) => {
                    fail = Some(self.dead("server closed its stdout"));
                    break;
                }
            }
        }
        // answers in request order up to the first missing one
        for sl in slots {
            match sl {
                Some(r) => got.push(r),
                None => break,
            }
        }
        match fail {
            Some(f) => Err(f),
            None => Ok(()),
        }
    }

    /// One request, one answer.
    pub fn request(&mut self, method: &str, params: Value) -> Result<Value, LspFail> {
        let id = self.send_req(method, params)?;
        let mut got = Vec::new();
        self.collect(&[id], &mut got)?;
        match got.pop() {
            Some(Ok(v)) => Ok(v),
            Some(Err((c, m))) => Err(LspFail::Rpc(c, m)),
            None => Err(LspFail::Timeout),
        }
    }

    fn set_cfg(&mut self, cfg: &Cfg) -> Result<(), String> {
        let s = cfg.settings();
        let key = format!("{s} {}", cfg.vendor());
        if self.settings.as_deref() != Some(key.as_str()) {
            self.notify("workspace/didChangeConfiguration", json!({ "settings": s }))?;
            self.settings = Some(key);
            // barrier + observation: an answered request sent after the notification (messages
            // are taken up in order) — the new settings are in place before any document of the
            // explorer is formatted. The probe also tells which spacing style is in effect for
            // this (settings, vendor folder); the style is part of the cause signature of glued
            // tokens (it is an input of the gluing decision) and is observed, not modelled.
            self.next_doc += 1;
            let uri = format!("{}/{}/probe{}.st", self.root_uri, cfg.vendor(), self.next_doc);
            let probe = "x:=1+2;\n";
            self.notify("textDocument/didOpen", json!({"textDocument": {"uri": uri, "languageId": "structured-text", "version": 1, "text": probe}}))?;
            let r = self.request("textDocument/formatting", json!({"textDocument": {"uri": uri}, "options": cfg.options()}));
            self.close(&uri);
            let out = match r {
                Ok(v) if v.is_null() => return Err("probe document unknown to the server".into()),
                Ok(v) => Self::edits(v).ok().and_then(|e| apply_edits(probe, &e).ok()).unwrap_or_default(),
                Err(e) => return Err(format!("probe request failed: {e:?}")),
            };
            self.style = if out.contains("x := 1 + 2;") {
                "spaced"
            } else if out.contains("x:=1+2;") {
                "compact"
            } else {
                return Err(format!("probe `x:=1+2;` formatted as {out:?}: spacing style not recognisable"));
            };
        }
        Ok(())
    }

    /// Opens a fresh document (fresh URI) in the workspace folder of the configuration's vendor.
    pub fn open(&mut self, cfg: &Cfg, text: &str) -> Result<String, LspFail> {
        self.set_cfg(cfg).map_err(LspFail::Died)?;
        self.next_doc += 1;
        let uri = format!("{}/{}/d{}.st", self.root_uri, cfg.vendor(), self.next_doc);
        self.notify(
            "textDocument/didOpen",
            json!({"textDocument": {"uri": uri, "languageId": "structured-text", "version": 1, "text": text}}),
        )
        .map_err(LspFail::Died)?;
        Ok(uri)
    }

    pub fn close(&mut self, uri: &str) {
        let _ = self.notify("textDocument/didClose", json!({"textDocument": {"uri": uri}}));
        self.closed.push(uri.to_string());
        if self.closed.len() >= 64 {
            self.forget_closed();
        }
    }

    /// The server keeps closed documents in its project (every later didOpen then gets slower and
    /// slower): report the closed scratch documents as deleted files, which removes them. A later
    /// request for such a URI answers `null`.
    pub fn forget_closed(&mut self) {
        if self.closed.is_empty() {
            return;
        }
        let changes: Vec<Value> = self.closed.drain(..).map(|u| json!({"uri": u, "type": 3})).collect();
        let _ = self.notify("workspace/didChangeWatchedFiles", json!({ "changes": changes }));
    }

    fn edits(v: Value) -> Result<Vec<Edit>, LspFail> {
        let Some(arr) = v.as_array() else {
            // `null`: whole-document formatting answers null only for a document the server does
            // not know (callers treat that as a protocol error); range / on-type may answer null
            return if v.is_null() { Ok(Vec::new()) } else { Err(LspFail::Rpc(0, format!("result is not an edit list: {v}"))) };
        };
        let mut out = Vec::new();
        for e in arr {
            let g = |p: &Value| p.as_u64().map(|x| x as u32);
            let (Some(sl), Some(sc), Some(el), Some(ec), Some(t)) = (
                g(&e["range"]["start"]["line"]),
                g(&e["range"]["start"]["character"]),
                g(&e["range"]["end"]["line"]),
                g(&e["range"]["end"]["character"]),
                e["newText"].as_str(),
            ) else {
                return Err(LspFail::Rpc(0, format!("malformed TextEdit: {e}")));
            };
            out.push(Edit { sl, sc, el, ec, text: t.to_string() });
        }
        Ok(out)
    }

    pub fn format(&mut self, uri: &str, cfg: &Cfg) -> Result<Vec<Edit>, LspFail> {
        let r = self.request("textDocument/formatting", json!({"textDocument": {"uri": uri}, "options": cfg.options()}))?;
        if r.is_null() {
            return Err(LspFail::Protocol("formatting answered null: the document is unknown to the server".into()));
        }
        Self::edits(r)
    }

    pub fn range(&mut self, uri: &str, cfg: &Cfg, s: (u32, u32), e: (u32, u32)) -> Result<Vec<Edit>, LspFail> {
        let r = self.request(
            "textDocument/rangeFormatting",
            json!({"textDocument": {"uri": uri}, "options": cfg.options(),
                   "range": {"start": {"line": s.0, "character": s.1}, "end": {"line": e.0, "character": e.1}}}),
        )?;
        Self::edits(r)
    }

    pub fn on_type(&mut self, uri: &str, cfg: &Cfg, pos: (u32, u32), ch: &str) -> Result<Vec<Edit>, LspFail> {
        let r = self.request(
            "textDocument/onTypeFormatting",
            json!({"textDocument": {"uri": uri}, "options": cfg.options(),
                   "position": {"line": pos.0, "character": pos.1}, "ch": ch}),
        )?;
        Self::edits(r)
    }

    /// open + formatting + apply + close
    pub fn format_text(&mut self, cfg: &Cfg, text: &str) -> Result<String, LspFail> {
        let uri = self.open(cfg, text)?;
        let e = self.format(&uri, cfg)?;
        self.close(&uri);
        apply_edits(text, &e).map_err(|m| LspFail::Rpc(0, m))
    }
}

impl Drop for Lsp {
    fn drop(&mut self) {
        let _ = self.child.kill();
        let _ = self.child.wait();
        let _ = std::fs::remove_dir_all(&self.root);
    }
}

/// A pool of long-lived servers (one per worker thread in practice). Replacement servers for
/// crashed ones are spawned ahead of time by background threads.
pub struct Pool {
    base: PathBuf,
    free: Mutex<Vec<Lsp>>,
    spares: Mutex<Vec<Lsp>>,
    n: AtomicU64,
    stop: std::sync::atomic::AtomicBool,
    pub requests: AtomicU64,
    pub spawned: AtomicU64,
    pub crashed: AtomicU64,
}

impl Pool {
    pub fn new(base: PathBuf) -> Arc<Pool> {
        Arc::new(Pool {
            base,
            free: Mutex::new(Vec::new()),
            spares: Mutex::new(Vec::new()),
            n: AtomicU64::new(0),
            stop: std::sync::atomic::AtomicBool::new(false),
            requests: AtomicU64::new(0),
            spawned: AtomicU64::new(0),
            crashed: AtomicU64::new(0),
        })
    }
    fn spawn_one(&self) -> Result<Lsp, String> {
        let k = self.n.fetch_add(1, Ordering::Relaxed);
        self.spawned.fetch_add(1, Ordering::Relaxed);
        Lsp::spawn(&self.base.join(format!("srv{k}")))
    }
    /// Keeps `want` spare servers ready while servers are crashing (started on the first crash).
    pub fn start_spawners(self: &Arc<Pool>, threads: usize, want: usize) -> Vec<std::thread::JoinHandle<()>> {
        (0..threads)
            .map(|_| {
                let p = Arc::clone(self);
                std::thread::spawn(move || {
                    while !p.stop.load(Ordering::Relaxed) {
                        if p.crashed.load(Ordering::Relaxed) > 0 && p.spares.lock().unwrap().len() < want {
                            if let Ok(l) = p.spawn_one() {
                                p.spares.lock().unwrap().push(l);
                            }
                        } else {
                            std::thread::sleep(Duration::from_millis(10));
                        }
                    }
                })
            })
            .collect()
    }
    pub fn shutdown(&self, handles: Vec<std::thread::JoinHandle<()>>) {
        self.stop.store(true, Ordering::Relaxed);
        for h in handles {
            let _ = h.join();
        }
        self.spares.lock().unwrap().clear();
    }
    pub fn take(&self) -> Result<Lsp, String> {
        if let Some(l) = self.free.lock().unwrap().pop() {
            return Ok(l);
        }
        if let Some(l) = self.spares.lock().unwrap().pop() {
            return Ok(l);
        }
        self.spawn_one()
    }
    pub fn give(&self, mut l: Lsp) {
        self.requests.fetch_add(l.requests, Ordering::Relaxed);
        l.requests = 0;
        self.free.lock().unwrap().push(l);
    }
    pub fn discard(&self, l: Lsp) {
        self.requests.fetch_add(l.requests, Ordering::Relaxed);
        self.crashed.fetch_add(1, Ordering::Relaxed);
        drop(l);
    }
}

// ------------------------------------------------------------------------------------------------
// text helpers: LSP positions (UTF-16), edits
// ------------------------------------------------------------------------------------------------

/// (start, end-without-line-terminator) of every line; lines are separated by `\n`.
fn line_spans(text: &str) -> Vec<(usize, usize)> {
    let mut out = Vec::new();
    let mut start = 0;
    for (i, b) in text.bytes().enumerate() {
        if b == b'\n' {
            let mut end = i;
            if end > start && text.as_bytes()[end - 1] == b'\r' {
                end -= 1;
            }
            out.push((start, end));
            start = i + 1;
        }
    }
    out.push((start, text.len()));
    out
}

fn utf16_len(s: &str) -> u32 {
    s.chars().map(|c| c.len_utf16() as u32).sum()
}

/// LSP position → byte offset; a character beyond the line end means the line end, a line beyond
/// the last line means the end of the text (LSP 3.17 §Position).
fn pos_to_offset(text: &str, spans: &[(usize, usize)], line: u32, ch: u32) -> usize {
    let Some(&(s, e)) = spans.get(line as usize) else { return text.len() };
    let mut units = 0u32;
    for (i, c) in text[s..e].char_indices() {
        if units >= ch {
            return s + i;
        }
        units += c.len_utf16() as u32;
    }
    e
}

pub fn apply_edits(text: &str, edits: &[Edit]) -> Result<String, String> {
    let spans = line_spans(text);
    let mut v: Vec<(usize, usize, &str)> = edits
        .iter()
        .map(|e| (pos_to_offset(text, &spans, e.sl, e.sc), pos_to_offset(text, &spans, e.el, e.ec), e.text.as_str()))
        .collect();
    v.sort_by_key(|x| (x.0, x.1));
    let mut out = String::with_capacity(text.len() + 64);
    let mut pos = 0usize;
    for (s, e, t) in v {
        if s > e || s < pos {
            return Err(format!("overlapping or inverted edits at byte {s}..{e}"));
        }
        out.push_str(&text[pos..s]);
        out.push_str(t);
        pos = e;
    }
    out.push_str(&text[pos..]);
    Ok(out)
}

pub fn hash64(s: &str) -> u64 {
    let mut h: u64 = 0xcbf29ce484222325;
    for b in s.bytes() {
        h ^= b as u64;
        h = h.wrapping_mul(0x100000001b3);
    }
    h
}

fn clip(s: &str, n: usize) -> String {
    let mut out: String = s.chars().take(n).collect();
    if s.chars().count() > n {
        out.push('…');
    }
    out
}

// ------------------------------------------------------------------------------------------------
// oracle
// ------------------------------------------------------------------------------------------------

#[derive(Clone, Debug)]
pub struct View {
    /// non-trivia tokens
    toks: Vec<(TokenKind, String)>,
    /// comments, pragmas, string literals in order: (kind, normalised text)
    specials: Vec<(TokenKind, String)>,
    has_error: bool,
    /// an Error token that spans lines: an unterminated block comment (runs to the end of the text)
    open_comment: bool,
}

fn norm_multiline(s: &str) -> String {
    s.split('\n').map(|l| l.trim()).collect::<Vec<_>>().join("\n")
}

pub fn view(text: &str) -> View {
    let mut v = View { toks: Vec::new(), specials: Vec::new(), has_error: false, open_comment: false };
    for t in lex(text) {
        let s = &text[usize::from(t.range.start())..usize::from(t.range.end())];
        match t.kind {
            TokenKind::Whitespace => {}
            TokenKind::LineComment => v.specials.push((t.kind, s.trim_end().to_string())),
            TokenKind::BlockComment | TokenKind::Pragma => v.specials.push((t.kind, norm_multiline(s))),
            k => {
                if k == TokenKind::Error {
                    v.has_error = true;
                    // (`(*` / `/*` always open a block comment: an Error token that starts with one
                    // of them is an unterminated comment and runs to the end of the text)
                    if s.contains('\n') || s.starts_with("(*") || s.starts_with("/*") {
                        v.open_comment = true;
                        // an unterminated comment: one Error token up to the end of the text; what
                        // "the same token" means for it is not derivable from the statement, its
                        // content is not compared (only that it is still there, in place)
                        v.toks.push((k, "<unterminated comment>".to_string()));
                        continue;
                    }
                }
                if matches!(k, TokenKind::StringLiteral | TokenKind::WideStringLiteral) {
                    v.specials.push((k, s.to_string()));
                }
                v.toks.push((k, s.to_string()));
            }
        }
    }
    v
}

fn tok_eq(a: &(TokenKind, String), b: &(TokenKind, String)) -> bool {
    if a.1 == b.1 {
        return true;
    }
    a.0.is_keyword() && b.0.is_keyword() && a.1.eq_ignore_ascii_case(&b.1)
}

fn kind_name(k: TokenKind) -> String {
    if k.is_keyword() {
        "Kw".to_string()
    } else {
        format!("{k:?}")
    }
}

/// A difference between the original and the produced text: (clause, cause feature, description)
pub struct Diff {
    clause: &'static str,
    feature: String,
    what: String,
}

/// `y` is `x` with blanks inserted at exactly one place: the cause-feature suffix saying where
/// (`@assign-op`: directly in front of the text `:=` / `=>`, else empty).
fn padded_where(x: &str, y: &str) -> Option<&'static str> {
    if y.len() <= x.len() {
        return None;
    }
    let p = x.char_indices().zip(y.chars()).find(|((_, a), b)| a != b).map(|((i, _), _)| i).unwrap_or(x.len());
    let rest = &x[p..];
    if !y.is_char_boundary(p) || !y.ends_with(rest) || y.len() - rest.len() < p {
        return None;
    }
    let mid = &y[p..y.len() - rest.len()];
    if mid.is_empty() || !mid.chars().all(|c| c == ' ' || c == '\t') {
        return None;
    }
    Some(if rest.starts_with(":=") || rest.starts_with("=>") { "@assign-op" } else { "" })
}

/// tokens clause; `None` = same sequence
fn diff_tokens(a: &View, b: &View) -> Option<Diff> {
    let n = a.toks.len().min(b.toks.len());
    let mut i = 0;
    while i < n && tok_eq(&a.toks[i], &b.toks[i]) {
        i += 1;
    }
    if i == a.toks.len() && i == b.toks.len() {
        return None;
    }
    let ctx = |v: &View| {
        let lo = i.saturating_sub(2);
        let hi = (i + 3).min(v.toks.len());
        v.toks[lo..hi].iter().map(|t| clip(&t.1, 24)).collect::<Vec<_>>().join(" ")
    };
    // cause feature: what happened to the first differing token
    let lower = |s: &str| s.to_ascii_lowercase();
    let feature = match (a.toks.get(i), b.toks.get(i)) {
        (Some(x), y) => {
            let cat = a.toks.get(i + 1).map(|n| lower(&format!("{}{}", x.1, n.1)));
            let opener = cat.as_ref().is_some_and(|c| c.starts_with("//") || c.starts_with("(*") || c.starts_with("/*"));
            match y {
                // cause tuple of a glued pair: (left token kind, what the pair turned into); the
                // spacing style in effect is added by the caller
                _ if opener => format!("glue:{}->comment", kind_name(x.0)),
                // same token, blanks inserted inside its text (a text-based post pass acted inside it)
                Some(y) if x.0 == y.0 && a.toks.len() == b.toks.len() && padded_where(&x.1, &y.1).is_some() => {
                    format!("padded:{}{}", kind_name(x.0), padded_where(&x.1, &y.1).unwrap_or(""))
                }
                Some(y) if cat.as_ref().is_some_and(|c| y.1.len() > x.1.len() && lower(&y.1).starts_with(&lower(&x.1)) && (lower(&y.1).starts_with(c.as_str()) || c.starts_with(&lower(&y.1)))) => {
                    format!("glue:{}->{}", kind_name(x.0), kind_name(y.0))
                }
                Some(y) if x.1.len() > y.1.len() && lower(&x.1).starts_with(&lower(&y.1)) => format!("split:{}", kind_name(x.0)),
                Some(y) if a.toks.len() == b.toks.len() => format!("changed:{}->{}", kind_name(x.0), kind_name(y.0)),
                Some(_) if a.toks.len() < b.toks.len() => "added".to_string(),
                _ => format!("lost:{}", kind_name(x.0)),
            }
        }
        (None, Some(y)) => format!("added:{}", kind_name(y.0)),
        (None, None) => unreachable!(),
    };
    Some(Diff {
        clause: "tokens",
        feature,
        what: format!(
            "token sequence differs at token #{i}: original [… {} …] ({} tokens) vs produced [… {} …] ({} tokens)",
            ctx(a),
            a.toks.len(),
            ctx(b),
            b.toks.len()
        ),
    })
}

fn diff_specials(a: &View, b: &View) -> Option<Diff> {
    if a.specials == b.specials {
        return None;
    }
    let n = a.specials.len().min(b.specials.len());
    let mut i = 0;
    while i < n && a.specials[i] == b.specials[i] {
        i += 1;
    }
    let (feature, what) = match (a.specials.get(i), b.specials.get(i)) {
        (Some(x), Some(y)) if a.specials.len() == b.specials.len() && x.0 == y.0 && padded_where(&x.1, &y.1).is_some() => (
            format!("padded:{:?}{}", x.0, padded_where(&x.1, &y.1).unwrap_or("")),
            format!("blanks were inserted inside {:?} {:?}: {:?}", x.0, clip(&x.1, 60), clip(&y.1, 60)),
        ),
        (Some(x), Some(y)) if a.specials.len() == b.specials.len() => (
            format!("changed:{:?}", x.0),
            format!("{:?} {:?} became {:?} {:?}", x.0, clip(&x.1, 60), y.0, clip(&y.1, 60)),
        ),
        (Some(x), _) if a.specials.len() > b.specials.len() => {
            (format!("lost:{:?}", x.0), format!("{:?} {:?} is missing from the produced text", x.0, clip(&x.1, 60)))
        }
        (_, Some(y)) => (format!("added:{:?}", y.0), format!("produced text has an extra {:?} {:?}", y.0, clip(&y.1, 60))),
        _ => ("changed".to_string(), "comment/pragma/string sequence differs".to_string()),
    };
    Some(Diff { clause: "specials", feature, what: format!("comments/pragmas/strings differ at #{i}: {what}") })
}

/// All clauses that compare an original text with a produced text.
fn compare(orig: &View, produced: &str) -> Vec<Diff> {
    let p = view(produced);
    let mut out = Vec::new();
    let td = diff_tokens(orig, &p);
    let tokens_ok = td.is_none();
    out.extend(td);
    // the specials clause is only meaningful when the token clause holds and the input lexes
    // without Error tokens (an Error token can be an unterminated comment / string)
    if tokens_ok && !orig.has_error {
        out.extend(diff_specials(orig, &p));
    }
    out
}

fn ws_class(a: &str, b: &str) -> &'static str {
    let la: Vec<&str> = a.split('\n').collect();
    let lb: Vec<&str> = b.split('\n').collect();
    if la.len() != lb.len() {
        return "linecount";
    }
    let strip = |s: &str| s.chars().filter(|c| !c.is_whitespace()).collect::<String>();
    for (x, y) in la.iter().zip(&lb) {
        if x != y {
            if x.trim_start() == y.trim_start() {
                return "indent";
            }
            if strip(x) == strip(y) {
                return "spacing";
            }
            return "content";
        }
    }
    "same"
}

/// `valid`: parses without errors; `synerr`: lexes cleanly but has parse errors; `lexerr`: Error tokens.
/// Inputs with a pragma that spans lines are a stratum of their own (`+mlpragma`), and so are
/// inputs with an unterminated block comment (`lexerr+opencomment`: one Error token up to the end
/// of the text; the formatter's line bookkeeping meets a non-trivia token that spans lines).
fn stratum(text: &str, v: &View) -> &'static str {
    let ml = v.specials.iter().any(|(k, s)| *k == TokenKind::Pragma && s.contains('\n'));
    if v.has_error {
        if v.open_comment { "lexerr+opencomment" } else if ml { "lexerr+mlpragma" } else { "lexerr" }
    } else if parse(text).ok() {
        if ml { "valid+mlpragma" } else { "valid" }
    } else if ml {
        "synerr+mlpragma"
    } else {
        "synerr"
    }
}

fn fail_violation(seam: &str, op: &str, f: &LspFail, case: Value) -> Violation {
    let (kind, detail) = match f {
        LspFail::Died(m) if m.starts_with("panic: ") => {
            // message only (the location is inside std for allocation failures and differs by path)
            let msg = m["panic: ".len()..].splitn(2, ": ").nth(1).unwrap_or(m);
            let norm: String = msg.chars().map(|c| if c.is_ascii_digit() { '#' } else { c }).collect();
            return Violation {
                signature: format!("C15/crash/{seam}/{op}/panic:{}", clip(&norm, 80)),
                what: format!("the language server panicked while answering {op}: {}", clip(m, 300)),
                case,
            };
        }
        LspFail::Died(m) => ("died", m.clone()),
        LspFail::Protocol(m) => ("protocol", m.clone()),
        LspFail::Timeout => ("hang", format!("no answer within {} s", REQ_TIMEOUT.as_secs())),
        LspFail::Rpc(c, m) => ("rpc-error", format!("code {c}: {m}")),
    };
    Violation {
        signature: format!("C15/crash/{seam}/{op}/{kind}"),
        what: format!("{op} did not produce a result ({kind}): {}", clip(&detail, 300)),
        case,
    }
}

// ------------------------------------------------------------------------------------------------
// one bundle = one text under one configuration
// ------------------------------------------------------------------------------------------------

#[derive(Clone, Copy, PartialEq, Eq, Debug)]
pub enum Extra {
    None,
    /// every line interval [a,b] + every line end x trigger character
    RangesAndOnType { alt_range_form: bool },
    /// only on-type positions
    OnType,
}

#[derive(Default)]
pub struct Stats {
    bundles: u64,
    changed: u64,
    wrapped: u64,
    range_reqs: u64,
    range_nonempty: u64,
    range_expanded: u64,
    ontype_reqs: u64,
    ontype_nonempty: u64,
    idem_checks: u64,
    lexerr: u64,
    valid: u64,
    errors: u64,
    /// family (v): bundles / bundles in whose result an operator was moved right by alignment
    align_bundles: u64,
    align_padded: u64,
    /// family (vi) and the blank-run injections: range / on-type requests, those answered with an edit
    blank_partial: u64,
    blank_partial_nonempty: u64,
    hashes: Vec<u64>,
}

impl Stats {
    fn merge(&mut self, o: Stats) {
        self.bundles += o.bundles;
        self.changed += o.changed;
        self.wrapped += o.wrapped;
        self.range_reqs += o.range_reqs;
        self.range_nonempty += o.range_nonempty;
        self.range_expanded += o.range_expanded;
        self.ontype_reqs += o.ontype_reqs;
        self.ontype_nonempty += o.ontype_nonempty;
        self.idem_checks += o.idem_checks;
        self.lexerr += o.lexerr;
        self.valid += o.valid;
        self.errors += o.errors;
        self.align_bundles += o.align_bundles;
        self.align_padded += o.align_padded;
        self.blank_partial += o.blank_partial;
        self.blank_partial_nonempty += o.blank_partial_nonempty;
        self.hashes.extend(o.hashes);
    }
}

pub struct TextInfo {
    text: String,
    view: View,
    stratum: &'static str,
}

impl TextInfo {
    fn new(text: String) -> TextInfo {
        let v = view(&text);
        let s = stratum(&text, &v);
        TextInfo { text, view: v, stratum: s }
    }
}

fn mk_case(seam: &str, op: &str, family: &str, text: &str, cfg: &Cfg, extra: Value) -> Value {
    let mut c = json!({"seam": seam, "op": op, "family": family, "text": text, "cfg": cfg.to_json()});
    if let Some(m) = extra.as_object() {
        for (k, v) in m {
            c[k] = v.clone();
        }
    }
    c
}

/// Oracle for a formatting result `f1` of `text` (tokens + specials), with signature.
fn check_produced(seam: &str, op: &str, family: &str, ti: &TextInfo, produced: &str, style: &str, case: &Value, out: &mut Vec<Violation>) {
    for mut d in compare(&ti.view, produced) {
        if d.feature.starts_with("glue:") && !style.is_empty() {
            d.feature = format!("{style}/{}", d.feature);
        }
        out.push(Violation {
            // in the multi-line-pragma stratum the symptom depends on what follows the pragma
            signature: format!("C15/{}/{seam}/{op}/{}/{}", d.clause, ti.stratum, if ti.stratum.ends_with("+mlpragma") { "*" } else { d.feature.as_str() }),
            what: format!("{op} ({seam}, family {family}, input stratum {}): {}", ti.stratum, d.what),
            case: case.clone(),
        });
    }
}

#[derive(Clone, Debug)]
enum Kind {
    Format,
    Range { s: (u32, u32), e: (u32, u32), a: u32, b: u32 },
    OnType { pos: (u32, u32), ch: String },
    Idem,
}

struct Pend {
    ti: usize,
    kind: Kind,
}

fn pend_case(family: &str, ti: &TextInfo, cfg: &Cfg, kind: &Kind) -> (Value, &'static str) {
    match kind {
        Kind::Format => (mk_case("lsp", "format", family, &ti.text, cfg, json!({})), "format"),
        Kind::Idem => (mk_case("lsp", "idem", family, &ti.text, cfg, json!({})), "idem"),
        Kind::Range { s, e, .. } => (mk_case("lsp", "range", family, &ti.text, cfg, json!({"range": [s.0, s.1, e.0, e.1]})), "range"),
        Kind::OnType { pos, ch } => (mk_case("lsp", "ontype", family, &ti.text, cfg, json!({"position": [pos.0, pos.1], "ch": ch})), "ontype"),
    }
}

fn request_count(ti: &TextInfo, extra: Extra, triggers: usize) -> usize {
    let n = ti.text.matches('\n').count() + 1;
    match extra {
        Extra::None => 2,
        Extra::OnType => 2 + n * triggers,
        Extra::RangesAndOnType { alt_range_form } => 2 + n * triggers + n * (n + 1) / 2 * if alt_range_form { 2 } else { 1 },
    }
}

/// Failure of a window: the server is unusable afterwards.
struct WinErr {
    fail: LspFail,
    /// strict mode: the request that was not answered
    culprit: Option<(Value, &'static str)>,
    /// index (in the window) of the first text with an unanswered request
    first: usize,
}

#[derive(Default, Clone)]
struct TextState {
    f1: Option<String>,
    changed: bool,
    wrapped: bool,
    /// lines(whole-document result) - lines(text)
    delta: i64,
    clean: bool,
}

/// Runs every LSP check of a window of texts under one configuration. Requests of a window are
/// pipelined (`strict` = false) or sent one at a time (`strict` = true, used to attribute a crash
/// and by replay). `Err((failure, culprit))`: the server is unusable afterwards; in strict mode
/// `culprit` is the request that was not answered.
#[allow(clippy::too_many_arguments)]
fn eval_window(
    lsp: &mut Lsp,
    family: &str,
    texts: &[TextInfo],
    cfg: &Cfg,
    extra: Extra,
    strict: bool,
    st: &mut Stats,
    out: &mut Vec<Violation>,
) -> Result<(), WinErr> {
    let mut lst = Stats::default();
    let mut lout: Vec<Violation> = Vec::new();
    let mut pend: Vec<Pend> = Vec::new();
    let mut ids: Vec<u64> = Vec::new();
    let mut answers: Vec<Result<Value, (i64, String)>> = Vec::new();
    let triggers = lsp.triggers.clone();
    lsp.set_cfg(cfg).map_err(|e| WinErr { fail: LspFail::Protocol(e), culprit: None, first: 0 })?;
    let style = lsp.style;

    // one request: send (and in strict mode wait for) it
    fn fire(
        lsp: &mut Lsp,
        strict: bool,
        method: &str,
        params: Value,
        p: Pend,
        family: &str,
        texts: &[TextInfo],
        cfg: &Cfg,
        pend: &mut Vec<Pend>,
        ids: &mut Vec<u64>,
        answers: &mut Vec<Result<Value, (i64, String)>>,
    ) -> Result<(), WinErr> {
        let culprit = |p: &Pend| Some(pend_case(family, &texts[p.ti], cfg, &p.kind));
        let id = match lsp.send_req(method, params) {
            Ok(id) => id,
            Err(f) => return Err(WinErr { fail: f, culprit: if strict { culprit(&p) } else { None }, first: p.ti }),
        };
        ids.push(id);
        if strict {
            if let Err(f) = lsp.collect(&[id], answers) {
                return Err(WinErr { fail: f, culprit: culprit(&p), first: p.ti });
            }
        }
        pend.push(p);
        Ok(())
    }

    // ---- phase A: formatting (+ every range, + every on-type position) of every text
    for (k, ti) in texts.iter().enumerate() {
        let text = ti.text.as_str();
        let uri = lsp.open(cfg, text).map_err(|f| WinErr { fail: f, culprit: None, first: k })?;
        let opts = cfg.options();
        fire(lsp, strict, "textDocument/formatting", json!({"textDocument": {"uri": uri}, "options": opts}), Pend { ti: k, kind: Kind::Format }, family, texts, cfg, &mut pend, &mut ids, &mut answers)?;
        if extra != Extra::None {
            let spans = line_spans(text);
            let nlines = spans.len() as u32;
            let len16 = |l: u32| utf16_len(&text[spans[l as usize].0..spans[l as usize].1]);
            if let Extra::RangesAndOnType { alt_range_form } = extra {
                for a in 0..nlines {
                    for b in a..nlines {
                        let mut forms = vec![((a, 0), (b, len16(b)))];
                        if alt_range_form && b + 1 < nlines {
                            forms.push(((a, 0), (b + 1, 0)));
                        }
                        for (s, e) in forms {
                            fire(
                                lsp,
                                strict,
                                "textDocument/rangeFormatting",
                                json!({"textDocument": {"uri": uri}, "options": opts,
                                       "range": {"start": {"line": s.0, "character": s.1}, "end": {"line": e.0, "character": e.1}}}),
                                Pend { ti: k, kind: Kind::Range { s, e, a, b } },
                                family, texts, cfg, &mut pend, &mut ids, &mut answers,
                            )?;
                        }
                    }
                }
            }
            for l in 0..nlines {
                for ch in &triggers {
                    let pos = (l, len16(l));
                    fire(
                        lsp,
                        strict,
                        "textDocument/onTypeFormatting",
                        json!({"textDocument": {"uri": uri}, "options": opts, "position": {"line": pos.0, "character": pos.1}, "ch": ch}),
                        Pend { ti: k, kind: Kind::OnType { pos, ch: ch.clone() } },
                        family, texts, cfg, &mut pend, &mut ids, &mut answers,
                    )?;
                }
            }
        }
        lsp.close(&uri);
    }
    if !strict {
        if let Err(f) = lsp.collect(&ids, &mut answers) {
            let first = pend.get(answers.len()).map(|p| p.ti).unwrap_or(0);
            return Err(WinErr { fail: f, culprit: None, first });
        }
    }

    let mut state: Vec<TextState> = vec![TextState::default(); texts.len()];
    for (p, ans) in pend.iter().zip(answers.drain(..)) {
        let ti = &texts[p.ti];
        let (case, op) = pend_case(family, ti, cfg, &p.kind);
        let v = match ans {
            Ok(v) => v,
            Err((c, m)) => {
                lout.push(fail_violation("lsp", op, &LspFail::Rpc(c, m), case));
                continue;
            }
        };
        if v.is_null() && matches!(p.kind, Kind::Format) {
            return Err(WinErr { fail: LspFail::Protocol("formatting answered null: a document sent with didOpen is unknown to the server".into()), culprit: None, first: 0 });
        }
        let edits = match Lsp::edits(v) {
            Ok(e) => e,
            Err(f) => {
                lout.push(fail_violation("lsp", op, &f, case));
                continue;
            }
        };
        match &p.kind {
            Kind::Format => {
                lst.bundles += 1;
                match ti.stratum {
                    _ if ti.view.has_error => lst.lexerr += 1,
                    "valid" | "valid+mlpragma" => lst.valid += 1,
                    _ => {}
                }
                match apply_edits(&ti.text, &edits) {
                    Ok(f1) => {
                        if family.starts_with("align") {
                            lst.align_bundles += 1;
                            if f1.contains("  :=") || f1.contains("  =>") {
                                lst.align_padded += 1;
                            }
                        }
                        let s = &mut state[p.ti];
                        s.changed = f1 != ti.text;
                        s.delta = f1.matches('\n').count() as i64 - ti.text.matches('\n').count() as i64;
                        s.wrapped = s.delta != 0;
                        s.clean = true;
                        if s.changed {
                            lst.changed += 1;
                            lst.hashes.push(hash64(&f1) ^ hash64(&cfg.short()).rotate_left(17));
                            let before = lout.len();
                            check_produced("lsp", "format", family, ti, &f1, style, &case, &mut lout);
                            s.clean = lout.len() == before;
                        }
                        if s.wrapped {
                            lst.wrapped += 1;
                        }
                        s.f1 = Some(f1);
                    }
                    Err(m) => lout.push(Violation { signature: "C15/edits/lsp/format/malformed".into(), what: m, case }),
                }
            }
            Kind::Range { a, b, .. } => {
                lst.range_reqs += 1;
                if family.contains("blank") {
                    lst.blank_partial += 1;
                    lst.blank_partial_nonempty += !edits.is_empty() as u64;
                }
                if !edits.is_empty() {
                    lst.range_nonempty += 1;
                    if edits.iter().any(|x| x.sl < *a || x.el > *b + 1) {
                        lst.range_expanded += 1;
                    }
                }
                // a (text, cfg) whose whole-document pass already breaks the program is reported by
                // the format clause; the partial edits are cut out of that same result
                if state[p.ti].clean {
                    let lc = linecount_label(state[p.ti].delta);
                    check_partial("range", family, ti, &edits, lc, &case, &mut lout);
                }
            }
            Kind::OnType { .. } => {
                lst.ontype_reqs += 1;
                if family.contains("blank") {
                    lst.blank_partial += 1;
                    lst.blank_partial_nonempty += !edits.is_empty() as u64;
                }
                if !edits.is_empty() {
                    lst.ontype_nonempty += 1;
                }
                if state[p.ti].clean {
                    let lc = linecount_label(state[p.ti].delta);
                    check_partial("ontype", family, ti, &edits, lc, &case, &mut lout);
                }
            }
            Kind::Idem => {}
        }
    }

    // ---- phase B: idempotence. Only where the first pass kept the program (a first pass that
    // already changed the tokens is reported by the tokens clause; its second pass says nothing
    // new). Inputs with lexer Error tokens included: "formatting an already formatted text changes
    // nothing" is claimed for every source text.
    pend.clear();
    ids.clear();
    for k in 0..texts.len() {
        let s = &state[k];
        if !(s.changed && s.clean) {
            continue;
        }
        let f1 = s.f1.as_deref().unwrap();
        let uri = lsp.open(cfg, f1).map_err(|f| WinErr { fail: f, culprit: None, first: k })?;
        fire(lsp, strict, "textDocument/formatting", json!({"textDocument": {"uri": uri}, "options": cfg.options()}), Pend { ti: k, kind: Kind::Idem }, family, texts, cfg, &mut pend, &mut ids, &mut answers)?;
        lsp.close(&uri);
    }
    if !strict {
        if let Err(f) = lsp.collect(&ids, &mut answers) {
            let first = pend.get(answers.len()).map(|p| p.ti).unwrap_or(0);
            return Err(WinErr { fail: f, culprit: None, first });
        }
    }
    for (p, ans) in pend.iter().zip(answers.drain(..)) {
        let ti = &texts[p.ti];
        let (case, op) = pend_case(family, ti, cfg, &p.kind);
        lst.idem_checks += 1;
        let f1 = state[p.ti].f1.as_deref().unwrap();
        let v = match ans {
            Ok(v) => v,
            Err((c, m)) => {
                lout.push(fail_violation("lsp", op, &LspFail::Rpc(c, m), case));
                continue;
            }
        };
        if v.is_null() {
            return Err(WinErr { fail: LspFail::Protocol("formatting answered null: a document sent with didOpen is unknown to the server".into()), culprit: None, first: 0 });
        }
        match Lsp::edits(v).map_err(|_| "malformed edit list".to_string()).and_then(|e| apply_edits(f1, &e)) {
            Ok(f2) => {
                if f2 != f1 {
                    lout.push(idem_violation("lsp", family, ti, f1, &f2, state[p.ti].wrapped, case));
                }
            }
            Err(m) => lout.push(Violation { signature: "C15/edits/lsp/idem/malformed".into(), what: m, case }),
        }
    }
    lsp.forget_closed();
    st.merge(lst);
    out.extend(lout);
    Ok(())
}

/// Runs all texts of a job. Windows are pipelined; when the server crashes or hangs inside a
/// window, the texts answered so far are re-run (their idempotence pass is still missing), the
/// next few texts are run one at a time with one request in flight on a fresh server (the culprit
/// is the first unanswered request or one of the three after it: the server polls up to four
/// requests before it writes an answer), and the rest continues pipelined. After two crashes a job
/// continues one text at a time (one server lost per crash instead of two).
fn eval_job(pool: &Pool, lsp: &mut Option<Lsp>, job: &Job, st: &mut Stats, out: &mut Vec<Violation>) -> Result<(), String> {
    fn server<'l>(pool: &Pool, lsp: &'l mut Option<Lsp>) -> Result<&'l mut Lsp, String> {
        if lsp.is_none() {
            *lsp = Some(pool.take()?);
        }
        Ok(lsp.as_mut().unwrap())
    }
    fn kill(pool: &Pool, lsp: &mut Option<Lsp>) {
        if let Some(l) = lsp.take() {
            pool.discard(l);
        }
    }
    fn single(pool: &Pool, lsp: &mut Option<Lsp>, job: &Job, ti: &[TextInfo], crashes: &mut u32, st: &mut Stats, out: &mut Vec<Violation>) -> Result<(), String> {
        match eval_window(server(pool, lsp)?, job.family, ti, &job.cfg, job.extra, true, st, out) {
            Ok(()) => Ok(()),
            Err(WinErr { fail: LspFail::Protocol(m), .. }) => Err(m),
            Err(e) => {
                *crashes += 1;
                let (case, op) = e.culprit.unwrap_or_else(|| (mk_case("lsp", "open", job.family, &ti[0].text, &job.cfg, json!({})), "open"));
                out.push(fail_violation("lsp", op, &e.fail, case));
                kill(pool, lsp);
                Ok(())
            }
        }
    }
    fn many(pool: &Pool, lsp: &mut Option<Lsp>, job: &Job, texts: &[TextInfo], crashes: &mut u32, st: &mut Stats, out: &mut Vec<Violation>) -> Result<(), String> {
        if texts.is_empty() {
            return Ok(());
        }
        if *crashes >= 2 || texts.len() == 1 {
            for k in 0..texts.len() {
                single(pool, lsp, job, &texts[k..k + 1], crashes, st, out)?;
            }
            return Ok(());
        }
        match eval_window(server(pool, lsp)?, job.family, texts, &job.cfg, job.extra, false, st, out) {
            Ok(()) => Ok(()),
            Err(WinErr { fail: LspFail::Protocol(m), .. }) => Err(m),
            Err(e) => {
                kill(pool, lsp);
                let u = e.first.min(texts.len() - 1);
                many(pool, lsp, job, &texts[..u], crashes, st, out)?;
                let v = (u + 4).min(texts.len());
                for k in u..v {
                    single(pool, lsp, job, &texts[k..k + 1], crashes, st, out)?;
                }
                many(pool, lsp, job, &texts[v..], crashes, st, out)
            }
        }
    }
    let mut crashes = 0u32;
    let mut i = 0;
    while i < job.texts.len() {
        let triggers = server(pool, lsp)?.triggers.len();
        let mut j = i;
        let mut reqs = 0;
        while j < job.texts.len() && (j == i || (reqs < 96 && j - i < 64)) {
            reqs += request_count(&job.texts[j], job.extra, triggers);
            j += 1;
        }
        many(pool, lsp, job, &job.texts[i..j], &mut crashes, st, out)?;
        i = j;
    }
    Ok(())
}

fn idem_violation(seam: &str, family: &str, ti: &TextInfo, f1: &str, f2: &str, wrapped: bool, case: Value) -> Violation {
    let cls = ws_class(f1, f2);
    let first = f1.split('\n').zip(f2.split('\n')).find(|(x, y)| x != y);
    let (n1, n2) = (f1.split('\n').count(), f2.split('\n').count());
    Violation {
        signature: format!("C15/idempotent/{seam}/{}/{cls}{}", ti.stratum, if wrapped { "+linecount-changed" } else { "" }),
        what: format!(
            "format(format(s)) != format(s) ({seam}, family {family}); difference class {cls}; {n1} lines vs {n2} lines; first differing line: {:?} vs {:?}",
            first.map(|p| clip(p.0, 70)),
            first.map(|p| clip(p.1, 70))
        ),
        case,
    }
}

/// Cause feature of a broken range / on-type edit: what whole-document formatting (which partial
/// formatting cuts its lines out of, by source line number) does to the number of lines.
fn linecount_label(delta: i64) -> &'static str {
    match delta {
        0 => "linecount-same",
        d if d < 0 => "linecount-shrank",
        _ => "linecount-grew",
    }
}

/// range / on-type: applying the edits must preserve tokens + specials of the whole text
fn check_partial(op: &str, family: &str, ti: &TextInfo, edits: &[Edit], lc: &str, case: &Value, out: &mut Vec<Violation>) {
    if edits.is_empty() {
        return;
    }
    match apply_edits(&ti.text, edits) {
        Ok(t) => {
            // cause feature for partial edits: clause + whether whole-document formatting changes
            // the number of lines (which token gets lost / duplicated depends on the range only)
            for d in compare(&ti.view, &t) {
                let e = &edits[0];
                out.push(Violation {
                    signature: format!("C15/{}/lsp/{op}/{}/{lc}", d.clause, ti.stratum),
                    what: format!(
                        "applying the {op} edit (lines {}..{} replaced by {:?}) (family {family}): {}",
                        e.sl,
                        e.el,
                        clip(&e.text, 80),
                        d.what
                    ),
                    case: case.clone(),
                });
            }
        }
        Err(m) => out.push(Violation { signature: format!("C15/edits/lsp/{op}/malformed"), what: m, case: case.clone() }),
    }
}

// ------------------------------------------------------------------------------------------------
// web IDE seam
// ------------------------------------------------------------------------------------------------

pub struct Web {
    ide: WebIdeState,
    token: String,
    dir: PathBuf,
}

impl Web {
    pub fn new(dir: PathBuf) -> Result<Web, String> {
        std::fs::create_dir_all(&dir).map_err(|e| format!("create {dir:?}: {e}"))?;
        let ide = WebIdeState::new(Some(dir.clone()));
        let token = ide.create_session(IdeRole::Editor).map_err(|e| format!("web ide session: {e:?}"))?.token;
        Ok(Web { ide, token, dir })
    }
    fn format(&self, text: &str) -> Result<String, String> {
        match catch(|| self.ide.format_source(&self.token, "main.st", Some(text.to_string()))) {
            Ok(Ok(r)) => Ok(r.content),
            Ok(Err(e)) => Err(format!("error {e:?}")),
            Err(p) => Err(format!("panic: {p}")),
        }
    }
    /// same, but through the file on disk (content = None)
    fn format_disk(&self, text: &str) -> Result<String, String> {
        std::fs::write(self.dir.join("main.st"), text).map_err(|e| format!("write main.st: {e}"))?;
        match catch(|| self.ide.format_source(&self.token, "main.st", None)) {
            Ok(Ok(r)) => Ok(r.content),
            Ok(Err(e)) => Err(format!("error {e:?}")),
            Err(p) => Err(format!("panic: {p}")),
        }
    }
}

pub fn web_bundle(web: &Web, family: &str, ti: &TextInfo, st: &mut Stats, out: &mut Vec<Violation>) {
    st.bundles += 1;
    let cfg = DEFAULT_CFG;
    let case = mk_case("web", "format", family, &ti.text, &cfg, json!({}));
    let f1 = match web.format(&ti.text) {
        Ok(f) => f,
        Err(m) => {
            if m.starts_with("panic") {
                let norm: String = m.chars().map(|c| if c.is_ascii_digit() { '#' } else { c }).collect();
                out.push(Violation {
                    signature: format!("C15/crash/web/format/{}", clip(&norm, 80)),
                    what: format!("WebIdeState::format_source panicked on a {}-byte text: {}", ti.text.len(), clip(&m, 200)),
                    case,
                });
            } else {
                // an error answer is not a property violation, but the text was not checked
                st.errors += 1;
            }
            return;
        }
    };
    let mut clean = true;
    if f1 != ti.text {
        st.changed += 1;
        st.hashes.push(hash64(&f1) ^ 0x5eb);
        let before = out.len();
        check_produced("web", "format", family, ti, &f1, "", &case, out);
        clean = out.len() == before;
    }
    // idempotence: same rule as on the LSP seam (clean first pass)
    if clean {
        st.idem_checks += 1;
        match web.format(&f1) {
            Ok(f2) => {
                if f2 != f1 {
                    let case = mk_case("web", "idem", family, &ti.text, &cfg, json!({}));
                    out.push(idem_violation("web", family, ti, &f1, &f2, false, case));
                }
            }
            Err(m) if m.starts_with("panic") => out.push(Violation {
                signature: "C15/crash/web/idem/panic".into(),
                what: format!("format_source panicked on its own output: {}", clip(&m, 200)),
                case,
            }),
            Err(_) => st.errors += 1,
        }
    }
}

// ------------------------------------------------------------------------------------------------
// replay
// ------------------------------------------------------------------------------------------------

fn scratch_dir(tag: &str) -> PathBuf {
    static N: AtomicU64 = AtomicU64::new(0);
    let base = std::env::var("TV_VERIF_DIR").map(PathBuf::from).unwrap_or_else(|_| std::env::temp_dir());
    base.join(".work").join(format!("C15-{tag}-{}-{}", std::process::id(), N.fetch_add(1, Ordering::Relaxed)))
}

pub fn check_case(case: &Value) -> Vec<Violation> {
    let mut out = Vec::new();
    let family = case["family"].as_str().unwrap_or("?").to_string();
    let text = case["text"].as_str().unwrap_or("").to_string();
    let cfg = Cfg::from_json(&case["cfg"]);
    let op = case["op"].as_str().unwrap_or("format");
    let ti = TextInfo::new(text);
    let mut st = Stats::default();
    if op == "parse" {
        // diagnostic aid: how the harness classifies a text
        let p = parse(&ti.text);
        eprintln!("stratum {} ; parse errors: {:?}", ti.stratum, p.errors().iter().map(|e| e.message.clone()).collect::<Vec<_>>());
        return out;
    }
    if case["seam"].as_str() == Some("web") {
        let dir = scratch_dir("web");
        if let Ok(web) = Web::new(dir.clone()) {
            let mut all = Vec::new();
            web_bundle(&web, &family, &ti, &mut st, &mut all);
            out = all;
        }
        let _ = std::fs::remove_dir_all(dir);
    } else {
        let dir = scratch_dir("lsp");
        let mut lsp = match Lsp::spawn(&dir) {
            Ok(l) => l,
            Err(e) => {
                eprintln!("C15 replay: cannot start the language server: {e}");
                return out;
            }
        };
        let mut all = Vec::new();
        match op {
            "range" | "ontype" => {
                let full = lsp.format_text(&cfg, &ti.text);
                if let Ok(f) = &full {
                    if !compare(&ti.view, f).is_empty() {
                        return out; // reported by the format clause, see eval_window
                    }
                }
                let lc = linecount_label(full.map(|f| f.matches('\n').count() as i64 - ti.text.matches('\n').count() as i64).unwrap_or(0));
                if let Ok(uri) = lsp.open(&cfg, &ti.text) {
                    let g = |i: usize, key: &str| case[key][i].as_u64().unwrap_or(0) as u32;
                    let r = if op == "range" {
                        lsp.range(&uri, &cfg, (g(0, "range"), g(1, "range")), (g(2, "range"), g(3, "range")))
                    } else {
                        lsp.on_type(&uri, &cfg, (g(0, "position"), g(1, "position")), case["ch"].as_str().unwrap_or(";"))
                    };
                    match r {
                        Ok(ed) => check_partial(op, &family, &ti, &ed, lc, case, &mut all),
                        Err(f) => all.push(fail_violation("lsp", op, &f, case.clone())),
                    }
                }
            }
            _ => {
                let one = [ti];
                if let Err(e) = eval_window(&mut lsp, &family, &one, &cfg, Extra::None, true, &mut st, &mut all) {
                    match (e.fail, e.culprit) {
                        (LspFail::Protocol(m), _) => eprintln!("C15 replay: protocol error: {m}"),
                        (f, Some((c, op))) => all.push(fail_violation("lsp", op, &f, c)),
                        (f, None) => all.push(fail_violation("lsp", "open", &f, case.clone())),
                    }
                }
                out = all;
                out.retain(|v| v.case["op"] == case["op"]);
                return out;
            }
        }
        out = all;
    }
    // keep only violations of the recorded operation (a bundle checks format + idem together)
    out.retain(|v| v.case["op"] == case["op"] || v.signature.contains("/crash/"));
    out
}

// ------------------------------------------------------------------------------------------------
// alphabets
// ------------------------------------------------------------------------------------------------

/// Representative tokens for family (i): identifiers, keywords (both cases), every operator and
/// punctuation token of the lexer, plain / based / real / typed / time / date literals, strings
/// containing comment openers and separators, direct addresses.
pub const TOKENS: &[&str] = &[
    "x", "abc", "e", "_y", "x1", "IF", "THEN", "END_IF", "NOT", "AND", "OR", "MOD", "TRUE", "INT", "if", "Then",
    "+", "-", "*", "/", "**", ":=", "=>", "?=", "=", "<>", "<", "<=", ">", ">=", "&", "..", ".", "#", "^", "@",
    "(", ")", "[", "]", ",", ";", ":",
    "5", "1_000", "16#FF", "2#1010", "1.5", "1.5e3", "1.", "INT#5", "T#1s", "t#1h30m", "D#2020-01-01", "TOD#12:00:00",
    "'s'", "\"w\"", "'a b'", "'a  b'", "';'", "':='", "'a:b'", "'(*'", "'//'", "'it$'s'", "%IX0.0", "%MW10", "%Q*",
];

fn wrap_program(var_lines: &[&str], body_lines: &[String], eol: &str) -> String {
    let mut v: Vec<String> = vec!["PROGRAM p".into(), "VAR".into(), "x : INT;".into()];
    v.extend(var_lines.iter().map(|s| s.to_string()));
    v.push("END_VAR".into());
    v.extend(body_lines.iter().cloned());
    v.push("END_PROGRAM".into());
    let mut s = v.join(eol);
    s.push_str(eol);
    s
}

/// Contexts of the token-pair family.
pub const PAIR_CTX: &[&str] = &["line", "glued", "expr", "tail", "var", "call"];

pub fn pair_text(ctx: &str, a: &str, b: &str) -> String {
    match ctx {
        // the two tokens alone on a statement line
        "line" => wrap_program(&[], &[format!("{a} {b}")], "\n"),
        // same, written without a blank between them (the lexer decides what the tokens are)
        "glued" => wrap_program(&[], &[format!("{a}{b}")], "\n"),
        // in the middle of an assignment (valid for operator / unary-operator pairs)
        "expr" => wrap_program(&[], &[format!("x := y {a} {b} z;"), "yy := 2;".to_string()], "\n"),
        // at the end of an assignment (valid for operator + operand pairs)
        "tail" => wrap_program(&[], &[format!("x := y {a} {b};"), "yy := 2;".to_string()], "\n"),
        // on a line of a VAR block between two declarations (colon alignment acts here)
        "var" => {
            let l = format!("{a} {b}");
            let mut v: Vec<String> = vec!["PROGRAM p".into(), "VAR".into(), "x : INT;".into(), l, "longer_name : INT;".into(), "END_VAR".into(), "END_PROGRAM".into()];
            v.push(String::new());
            v.join("\n")
        }
        // inside a long call (wrapping at commas acts here when a maximum line length is set)
        _ => wrap_program(&[], &[format!("result_value_long := function_name(y {a} {b} z, second_argument, third);")], "\n"),
    }
}

/// Segments of the mixed-line family (iii).
pub const SEGMENTS: &[&str] = &[
    "x := 1;", "y:=x+2 ;", "IF x=1 THEN", "END_IF;", "(* c *)", "(* a; b := 'q' // z *)", "// c", "//c (* d *) {e}", "/* c */",
    "{p}", "{attribute 'x;y'}", "'a(*b'", "'//n'", "';'", "\"w;(*\"", "s := 'it$'s (* x *)';", "(* l1\n   l2 *)", "{m1\n   m2}",
    "(* a (* nested *) b *)", "f(x, 'a,b', y);", "s := 'two  blanks';  (* two  blanks *)",
];

pub fn mixed_text(segs: &[usize], sep: &str, eol: &str, trailing_newline: bool) -> String {
    let line = segs.iter().map(|&i| SEGMENTS[i]).collect::<Vec<_>>().join(sep);
    let lines: Vec<String> = line.split('\n').map(|s| s.to_string()).collect();
    let mut body = vec!["s := 'q';".to_string()];
    body.extend(lines);
    body.push("x := 2;".to_string());
    let mut t = wrap_program(&["s : STRING;"], &body, eol);
    if !trailing_newline {
        let n = t.len() - eol.len();
        t.truncate(n);
    }
    t
}

/// Hand-written programs (family iv): long comma lines (wrapping x range / on-type formatting),
/// and valid programs built around the constructs the other families showed to be fragile, so
/// that every defect is also looked for on a syntactically valid program.
pub const CRAFTED: &[&str] = &[
    "PROGRAM p\nVAR\na, b, c : INT;\nEND_VAR\na := f(a, b, c, 1, 2, 3, 4, 5, 6, 7);\nb := 2;\nc := g('p,q', a, b, c, 1, 2, 3, 4, 5);\nEND_PROGRAM\n",
    "PROGRAM p\nVAR\narr : ARRAY[0..3] OF INT;\nlong_name_one, long_name_two, long_name_three : INT;\nEND_VAR\nIF a = 1 THEN\nfb(in1 := a, in2 := b, out1 => c, out2 => d);\nELSE\na := 1;\nEND_IF;\nEND_PROGRAM\n",
    "FUNCTION_BLOCK fb\nVAR_INPUT\na : INT;\nEND_VAR\nCASE a OF\n1, 2, 3, 4, 5, 6, 7, 8, 9, 10, 11, 12: a := 0;\n13: a := MAX(a, 1, 2, 3, 4, 5, 6, 7, 8);\nEND_CASE;\nfirst := 1;\nsecond_longer := 2;\nEND_FUNCTION_BLOCK\n",
    "PROGRAM p\r\nVAR\r\na : INT;\r\nEND_VAR\r\na := g(a, a, a, a, a, a, a, a, a, a, a);\r\nb := h(a, 'x,y', a, a, a, a, a, a, a); // c\r\nlast := 9;\r\nEND_PROGRAM\r\n",
    "PROGRAM p\n\tx := f(1, 2,\n\t\t3, 4, 5, 6, 7, 8, 9, 10, 11, 12);\n\ty := 1;\n\n\tz := x;\nEND_PROGRAM",
    "TYPE t : STRUCT\na : INT;\nEND_STRUCT\nEND_TYPE\nPROGRAM p\nVAR\ns : t;\nEND_VAR\nfoo(1, 2, 3, 4, 5, 6, 7, 8, 9, 10, 11);\nbar(1,\n2);\nx := 1;\nEND_PROGRAM\n",
    // typed literals after keyword operators
    "PROGRAM p\nVAR\na, b : INT;\nc : BOOL;\nEND_VAR\na := b MOD INT#3;\nc := c AND BOOL#TRUE;\nc := NOT BOOL#FALSE OR c XOR BOOL#1;\nIF a = INT#5 THEN\na := -INT#1;\nEND_IF;\nEND_PROGRAM\n",
    // literals containing ':' on continuation lines of a VAR block
    "PROGRAM p\nVAR\nt1 : TOD :=\nTOD#12:00:00;\nmsg : STRING :=\n'a:b';\nn : INT;\nEND_VAR\nn := 1;\nEND_PROGRAM\n",
    // pragmas that span lines
    "{attribute 'qualified_only'\n 'x'}\nPROGRAM p\nVAR\n{info\n  more}\nx : INT;\nEND_VAR\nx := 1; {note\n continues} x := 2;\nEND_PROGRAM\n",
    // densely written valid code: every operator, literal kind, statement kind
    "PROGRAM p\nVAR\na,b:INT;p1:REF_TO INT;r:REAL;t:TIME;d:DATE;s:WSTRING;q:BOOL;\nEND_VAR\na:=16#FF+2#1010-b;r:=1.5E-3*r**-2.0;r:=r**2;a:=-(-a);a:=- -a;\nt:=T#1h30m-T#-5s;d:=D#2020-01-01;s:=\"w$\"q\";\nq:=a<>b;q:=a<=b AND b>=a OR a<b XOR a>b;q:=NOT q&q;\np1:=REF(a);p1^:=1;a:=p1^+1;\nIF a=1 THEN a:=2;ELSIF a=2 THEN a:=3;ELSE a:=4;END_IF;\nCASE a OF 1..3:a:=0;4,5:a:=1;ELSE a:=2;END_CASE;\nFOR a:=1 TO 10 BY 2 DO b:=b+a;END_FOR;\nf(x:=1,y=>a);\nEND_PROGRAM\n",
    // the same, written with blanks around everything
    "PROGRAM p\nVAR\na , b : INT ; r : REAL ; q : BOOL ;\nEND_VAR\na := 16#FF + 2#1010 - b ; r := 1.5E-3 * r ** - 2.0 ; a := - ( - a ) ; a := - - a ;\nq := a <> b ; q := a <= b AND b >= a OR a < b XOR a > b ; q := NOT q & q ;\nCASE a OF 1 .. 3 : a := 0 ; 4 , 5 : a := 1 ; END_CASE ;\nf ( x := 1 , y => a ) ; a := arr [ 1 ] . fld ^ ;\nEND_PROGRAM\n",
    // nested blocks, lower-case keywords, end keywords (indentation styles)
    "function_block fb\nvar_input\nen : bool;\nend_var\nvar\ni : int;\nend_var\nif en then\nfor i := 0 to 3 do\nwhile i < 2 do\ni := i + 1;\nend_while;\nrepeat\ni := i - 1;\nuntil i = 0\nend_repeat;\nend_for;\nelse\ni := 0;\nend_if;\nend_function_block\n",
];

// ------------------------------------------------------------------------------------------------
// family (v): alignment-sensitive line groups (see module comment)
// ------------------------------------------------------------------------------------------------

/// (nesting level relative to the first line, text)
type Lines = Vec<(u8, String)>;

fn one(s: String) -> Lines {
    vec![(0, s)]
}

/// The places where the formatter's alignment passes act. `head` / `foot`: (absolute nesting
/// level, text); the group of victim + neighbour lines is put between them at level `slot`.
pub struct AlignCtx {
    name: &'static str,
    head: &'static [(u8, &'static str)],
    slot: u8,
    foot: &'static [(u8, &'static str)],
    /// statement / element terminator of the group lines
    term: &'static str,
    /// whole statements (IF / FOR blocks allowed) rather than list elements
    stmt: bool,
    /// lines are declarations (own menus)
    decl: bool,
    /// the first line of victim and neighbour gets a CASE label
    label: bool,
}

const HEAD_P: &[(u8, &str)] = &[(0, "PROGRAM p"), (1, "VAR"), (2, "x : INT;"), (2, "s : STRING;"), (1, "END_VAR")];
pub const ALIGN_CTX: &[AlignCtx] = &[
    AlignCtx { name: "body", head: HEAD_P, slot: 1, foot: &[(0, "END_PROGRAM")], term: ";", stmt: true, decl: false, label: false },
    AlignCtx {
        name: "if",
        head: &[(0, "PROGRAM p"), (1, "VAR"), (2, "x : INT;"), (2, "s : STRING;"), (1, "END_VAR"), (1, "IF x = 1 THEN")],
        slot: 2,
        foot: &[(1, "END_IF;"), (0, "END_PROGRAM")],
        term: ";",
        stmt: true,
        decl: false,
        label: false,
    },
    AlignCtx {
        name: "case",
        head: &[(0, "PROGRAM p"), (1, "VAR"), (2, "x : INT;"), (2, "s : STRING;"), (1, "END_VAR"), (1, "CASE x OF"), (2, "1:")],
        slot: 2,
        foot: &[(1, "END_CASE;"), (0, "END_PROGRAM")],
        term: ";",
        stmt: true,
        decl: false,
        label: false,
    },
    AlignCtx {
        name: "caselabel",
        head: &[(0, "PROGRAM p"), (1, "VAR"), (2, "x : INT;"), (2, "s : STRING;"), (1, "END_VAR"), (1, "CASE x OF")],
        slot: 2,
        foot: &[(1, "END_CASE;"), (0, "END_PROGRAM")],
        term: ";",
        stmt: true,
        decl: false,
        label: true,
    },
    // multi-line call: positional / named arguments one per line
    AlignCtx { name: "callargs", head: &[(0, "PROGRAM p"), (1, "VAR"), (2, "x : INT;"), (2, "s : STRING;"), (1, "END_VAR"), (1, "fb(")], slot: 1, foot: &[(1, "last := 1);"), (0, "END_PROGRAM")], term: ",", stmt: false, decl: false, label: false },
    // multi-line initialiser inside a VAR block (colon alignment acts on the block as well); the
    // parser knows no `(a := 1, b := 2)` struct initialiser, the valid spelling is a call
    AlignCtx { name: "structinit", head: &[(0, "PROGRAM p"), (1, "VAR"), (2, "x : INT;"), (2, "st : t := mk(")], slot: 2, foot: &[(2, "last := 1);"), (1, "END_VAR"), (0, "END_PROGRAM")], term: ",", stmt: false, decl: false, label: false },
    // declarations with initialisers
    AlignCtx { name: "var", head: &[(0, "PROGRAM p"), (1, "VAR"), (2, "x : INT;")], slot: 2, foot: &[(1, "END_VAR"), (1, "x := 1;"), (0, "END_PROGRAM")], term: ";", stmt: false, decl: true, label: false },
    AlignCtx { name: "struct", head: &[(0, "TYPE t :"), (1, "STRUCT"), (2, "x : INT;")], slot: 2, foot: &[(1, "END_STRUCT"), (0, "END_TYPE")], term: ";", stmt: false, decl: true, label: false },
];

/// The two texts the alignment pass searches for.
const ALIGN_OPS: &[&str] = &[":=", "=>"];

/// Victim lines of the statement / list contexts (`t` = terminator).
fn align_victims(t: &str, stmt: bool) -> Vec<Lines> {
    let mut v: Vec<Lines> = Vec::new();
    for x in ALIGN_OPS {
        // string literals: operator text before any real operator of the line / on a line without one
        v.push(one(format!("Log('in{x}out'){t}")));
        v.push(one(format!("Log(\"in{x}out\"){t}")));
        v.push(one(format!("Log('{x}'){t}")));
        v.push(one(format!("m['k{x}v'] := 1{t}")));
        v.push(one(format!("Log('a,b{x}c'){t}")));
        // 2- and 3-byte characters (one UTF-16 unit each) left of the operator text
        v.push(one(format!("Log('\u{e4}\u{20ac}{x}b'){t}")));
        v.push(one(format!("Log('it$'s{x}'){t}")));
        v.push(one(format!("Log('a\t{x}b'){t}")));
        // after the real operator; on the continuation line of a statement
        v.push(one(format!("s := 'a{x}b'{t}")));
        v.push(vec![(0, "s :=".to_string()), (0, format!("'a{x}b'{t}"))]);
        if stmt {
            v.push(vec![(0, format!("IF s = '{x}' THEN")), (1, "x := 1;".to_string()), (0, "END_IF;".to_string())]);
        }
        // comments and pragmas: before a real operator, on a line without one, behind the code, alone
        for c in [format!("(* a {x} b *)"), format!("{{attr 'a {x} b'}}")] {
            v.push(one(format!("{c} y := 1{t}")));
            v.push(one(format!("{c} Log(1){t}")));
            v.push(one(format!("Log(1){t} {c}")));
            v.push(one(c.clone()));
        }
        v.push(one(format!("/* \u{e4}\u{20ac}{x}b */ Log(1){t}")));
        v.push(one(format!("Log(1){t} // a {x} b")));
        v.push(one(format!("// a {x} b")));
        // tab in front of the real operator on a line that is passed through verbatim
        v.push(one(format!("y\t:= 1{t} // a {x} b")));
        // error-string: quoted text with an invalid `$` escape is ONE Error token of the lexer
        v.push(one(format!("Log('a$x{x}b'){t}")));
    }
    // operator text that only exists across two tokens (never valid code: stratum synerr)
    v.push(one(format!("y <= > z{t}")));
    v.push(one(format!("y >= > z{t}")));
    v.push(one(format!("p ?= > q{t}")));
    // typed literal with ':' behind the real operator
    v.push(one(format!("w := TOD#12:00:00{t}")));
    // the wrapping pass shares the masks of the alignment pass: its split text `,` inside a
    // string / comment / pragma on a line longer than every maximum line length of the menu
    v.push(one(format!("Log('a, b, c, d, e, f, g, h, i, j, k, l'){t}")));
    v.push(one(format!("Log(1){t} // a, b, c, d, e, f, g, h, i, j, k, l")));
    v.push(one(format!("(* a, b, c, d, e, f, g, h, i, j, k, l *) Log(1){t}")));
    v.push(one(format!("{{attr 'a, b, c, d, e, f, g, h, i, j'}} Log(1){t}")));
    // the same inside error-strings (`$,` / `$5` are no escapes: one Error token each, stratum lexerr)
    v.push(one(format!("Log('a$, b, c, d, e, f, g, h, i, j, k, l'){t}")));
    v.push(one(format!("Log(\"cost $5, tax $1, total $6, and more\"){t}")));
    if stmt {
        // `:=` of a FOR header
        v.push(vec![(0, "FOR i := 1 TO 3 DO".to_string()), (1, "x := x + i;".to_string()), (0, "END_FOR;".to_string())]);
    }
    v
}

/// Neighbour lines: a real operator right of / left of every victim's operator text.
fn align_neighbours(t: &str, stmt: bool) -> Vec<Lines> {
    let mut v = vec![
        one(format!("neighbour_with_long_name := 2{t}")),
        one(format!("z := 2{t}")),
        one(format!("fb_call_with_long_name(o => z){t}")),
        one(format!("{}x := 3{t}", "a_very_long_left_hand_side_".repeat(5))),
    ];
    if stmt {
        v.push(vec![(0, "FOR long_loop_index_name := 1 TO 3 DO".to_string()), (1, "x := 1;".to_string()), (0, "END_FOR;".to_string())]);
    }
    v
}

fn align_decl_victims() -> Vec<Lines> {
    let mut v: Vec<Lines> = Vec::new();
    for x in ALIGN_OPS {
        v.push(one(format!("s1 : STRING := 'a{x}b';")));
        v.push(vec![(0, "s2 : STRING :=".to_string()), (0, format!("'a{x}b';"))]);
        v.push(one(format!("s3 : STRING := CONCAT('a{x}b', 'c');")));
        v.push(one(format!("s4 : WSTRING[20] := \"w{x}\";")));
        v.push(one(format!("'k{x}v' : INT;")));
        for c in [format!("(* a {x} b *)"), format!("{{attribute 'k {x} v'}}")] {
            v.push(one(c.clone()));
            v.push(one(format!("{c} y : INT;")));
            v.push(one(format!("{c} y : INT := 1;")));
            v.push(one(format!("y : INT; {c}")));
        }
        v.push(one(format!("y : INT; // a {x} b")));
    }
    v.push(one("t1 : TOD := TOD#12:00:00;".to_string()));
    v.push(one("s5 : STRING := 'cost $5, tax $1, total $6, and more text';".to_string()));
    v.push(one("d1 : DT := DT#2020-01-01-12:00:00;".to_string()));
    v
}

fn align_decl_neighbours() -> Vec<Lines> {
    vec![one("neighbour_with_long_name : INT := 2;".to_string()), one("z : INT := 2;".to_string())]
}

/// Order of victim (V) and neighbour (N) lines.
pub const ALIGN_ORDER: &[&str] = &["NV", "VN", "NVN"];
/// What stands between them: nothing (`-`), or one line that interrupts the alignment group.
pub const ALIGN_SEP: &[&str] = &["-", "", "// sep", "{sep}", "(* sep *)"];
/// (indentation unit the source is written with, line ending)
pub const ALIGN_LAYOUT: &[(&str, &str)] = &[("", "\n"), ("", "\r\n"), ("    ", "\n"), ("  ", "\r\n"), ("\t", "\n")];

pub fn align_text(c: &AlignCtx, victim: &Lines, neighbour: &Lines, second: &Lines, order: &str, sep: &str, layout: (&str, &str)) -> String {
    let mut lines: Vec<(u8, String)> = c.head.iter().map(|(l, t)| (*l, t.to_string())).collect();
    let mut label = 0usize;
    let mut n_seen = 0;
    for (k, part) in order.chars().enumerate() {
        if k > 0 && sep != "-" {
            lines.push((c.slot, sep.to_string()));
        }
        let src = match part {
            'V' => victim,
            _ => {
                n_seen += 1;
                if n_seen == 1 { neighbour } else { second }
            }
        };
        for (i, (l, t)) in src.iter().enumerate() {
            let mut t = t.clone();
            if c.label && i == 0 {
                label += 1;
                t = format!("{}: {t}", ["1", "22", "333"][label - 1]);
            }
            lines.push((c.slot + l, t));
        }
    }
    lines.extend(c.foot.iter().map(|(l, t)| (*l, t.to_string())));
    let mut s = String::new();
    for (l, t) in lines {
        if !t.is_empty() {
            s.push_str(&layout.0.repeat(l as usize));
            s.push_str(&t);
        }
        s.push_str(layout.1);
    }
    s
}

/// The texts of family (v), in three disjoint sets. Centre = every context x every victim with the
/// long-name neighbour in front, adjacent, flush-left LF source: (1) the centre texts of the
/// statement-list and VAR contexts, (2) those of the other contexts, (3) everything off the centre:
/// quick = a star around the centre of the statement-list / VAR contexts (every other dimension
/// varied alone against every victim), thorough = the product in every context.
pub fn align_texts(quick: bool) -> (Vec<String>, Vec<String>, Vec<String>) {
    let mut seen: HashSet<String> = HashSet::new();
    // centre texts of the two star contexts / of the other contexts / everything off the centre
    let mut core_star = Vec::new();
    let mut core = Vec::new();
    let mut all = Vec::new();
    let base = ALIGN_LAYOUT[0];
    for c in ALIGN_CTX {
        let (vs, ns) = if c.decl { (align_decl_victims(), align_decl_neighbours()) } else { (align_victims(c.term, c.stmt), align_neighbours(c.term, c.stmt)) };
        let second = &ns[1];
        let star = c.name == "body" || c.name == "var";
        let mut add = |t: String, is_core: bool| {
            if seen.insert(t.clone()) {
                if !is_core {
                    all.push(t);
                } else if star {
                    core_star.push(t);
                } else {
                    core.push(t);
                }
            }
        };
        for v in &vs {
            add(align_text(c, v, &ns[0], second, "NV", "-", base), true);
        }
        for v in &vs {
            for (ni, n) in ns.iter().enumerate() {
                for order in ALIGN_ORDER {
                    for sep in ALIGN_SEP {
                        for layout in ALIGN_LAYOUT {
                            let off_centre = [ni != 0, *order != "NV", *sep != "-", *layout != base].iter().filter(|b| **b).count();
                            let wanted = if quick {
                                // star: one dimension off the centre at a time; in addition the
                                // multi-line FOR neighbour behind the victim (its header line only
                                // touches the victim when it comes second). The three-part order, the
                                // pragma / block-comment separators and the 2-blank layout are left
                                // to the thorough tier.
                                star && *order != "NVN"
                                    && !matches!(*sep, "{sep}" | "(* sep *)")
                                    && *layout != ALIGN_LAYOUT[3]
                                    && (off_centre <= 1 || (off_centre == 2 && n.len() > 1 && *order == "VN"))
                            } else {
                                // product of victim x neighbour x order x (separator | layout); the
                                // three-part order only adjacent in the base layout
                                if *order == "NVN" { *sep == "-" && *layout == base } else { *sep == "-" || *layout == base }
                            };
                            if wanted {
                                add(align_text(c, v, n, second, order, sep, *layout), false);
                            }
                        }
                    }
                }
            }
        }
    }
    (core_star, core, all)
}

// ------------------------------------------------------------------------------------------------
// family (vi): constructs for which whole-document formatting may change the NUMBER of lines,
// with range / on-type requests above, inside and below them
// ------------------------------------------------------------------------------------------------
// Added after a missed change: the whole-document pass collapsed runs of empty lines while range /
// on-type formatting cut "their" lines out of that result by SOURCE line number. Whatever changes
// the number of lines above a requested line (a blank-line policy: collapse runs, trim the start /
// end of the file or of a block, separate POUs; wrapping; joining / splitting statements) shifts
// every later line of the result. The sweeps (every line interval, every line end x trigger) put
// requests above, inside and below each construct.

/// Two POUs, a VAR block, a statement list with a nested block.
pub const BLANK_BASE: &[&str] = &[
    "FUNCTION f : INT",
    "VAR_INPUT",
    "a : INT;",
    "b : INT;",
    "END_VAR",
    "f := a;",
    "END_FUNCTION",
    "PROGRAM p",
    "x := 1;",
    "IF x = 1 THEN",
    "x := f(x, 2);",
    "END_IF;",
    "END_PROGRAM",
];
/// Where a run is put: (name, index of the base line it is put in front of).
pub const BLANK_SLOT: &[(&str, usize)] = &[("start", 0), ("var-start", 2), ("decl", 3), ("var-end", 4), ("pou", 7), ("stmt", 9), ("block", 10), ("eof", 13)];
/// The runs: 1 / 2 / 3 empty lines, blank-only lines (blanks, tab), mixed; a block comment, a pragma
/// and a statement that continue across two empty lines.
pub const BLANK_RUN: &[(&str, &[&str])] = &[
    ("e2", &["", ""]),
    ("e3", &["", "", ""]),
    ("b2", &["  ", "\t"]),
    ("e1", &[""]),
    ("m3", &["", " \t", ""]),
    ("c2", &["(* c1", "", "", "c2 *)"]),
    ("p2", &["{p1", "", "", "p2}"]),
    ("k2", &["y := f(x,", "", "", "2);"]),
];

/// `text` with the lines `run` put in front of its line `at` (line ending taken from the text).
pub fn inject_lines(text: &str, at: usize, run: &[&str]) -> Option<String> {
    let eol = if text.contains("\r\n") { "\r\n" } else { "\n" };
    let lines: Vec<&str> = text.split_inclusive('\n').collect();
    if at > lines.len() {
        return None;
    }
    let mut out = String::with_capacity(text.len() + 16);
    for (i, l) in lines.iter().enumerate() {
        if i == at {
            for r in run {
                out.push_str(r);
                out.push_str(eol);
            }
        }
        out.push_str(l);
    }
    if at == lines.len() {
        if !out.is_empty() && !out.ends_with('\n') {
            out.push_str(eol);
        }
        for r in run {
            out.push_str(r);
            out.push_str(eol);
        }
    }
    Some(out)
}

/// quick: every slot x {2 empty, 3 empty, blank-only} + every run in the statement list + CRLF at
/// two slots; thorough: slots x runs x {LF, CRLF}.
pub fn blank_texts(quick: bool) -> Vec<String> {
    let mut out = Vec::new();
    for (ei, eol) in ["\n", "\r\n"].iter().enumerate() {
        let base: String = BLANK_BASE.iter().map(|l| format!("{l}{eol}")).collect();
        for (slot, at) in BLANK_SLOT {
            for (ri, (_, run)) in BLANK_RUN.iter().enumerate() {
                let wanted = if !quick {
                    true
                } else if ei == 0 {
                    ri < 3 || *slot == "stmt"
                } else {
                    ri == 0 && matches!(*slot, "decl" | "pou")
                };
                if wanted {
                    out.extend(inject_lines(&base, *at, run));
                }
            }
        }
    }
    out
}

// ------------------------------------------------------------------------------------------------
// the explorer
// ------------------------------------------------------------------------------------------------

struct Job<'a> {
    family: &'static str,
    texts: &'a [TextInfo],
    cfg: Cfg,
    extra: Extra,
}

fn push<'a>(jobs: &mut Vec<Job<'a>>, family: &'static str, texts: &'a [TextInfo], cfgs: &[Cfg], extra: Extra, chunk: usize) {
    for c in cfgs {
        for part in texts.chunks(chunk) {
            jobs.push(Job { family, texts: part, cfg: *c, extra });
        }
    }
}

fn option_effect_selftest(pool: &Pool) -> Result<Vec<u64>, String> {
    // every value of every option dimension must be observable in the output of the real server,
    // otherwise the configuration path of the harness is broken and the product would be vacuous
    let probe = "program p\nvar\na : int;\nlongname : int;\nend_var\nif a=1 then\na:=f(a,2,3,4,5,6,7,8,9,10,11,12,13,14,15,16,17,18,19,20);\nbb:=g(1,2,3,4,5);\nEnd_If\nend_program\n";
    let need = [4usize, 3, 2, 2, 2, 2, 3, 3];
    let mut lsp = pool.take()?;
    let mut seen = Vec::new();
    for (d, (name, menu)) in DIMS.iter().enumerate() {
        let mut outs = HashSet::new();
        for v in 0..menu.len() {
            let mut c = DEFAULT_CFG;
            c.0[d] = v as u8;
            let o = lsp.format_text(&c, probe).map_err(|e| format!("self-test request failed: {e:?}"))?;
            outs.insert(o);
        }
        if outs.len() < need[d] {
            return Err(format!("option {name}: only {} distinct outputs over {} values — the configuration does not reach the formatter", outs.len(), menu.len()));
        }
        seen.push(outs.len() as u64);
    }
    pool.give(lsp);
    Ok(seen)
}

pub fn run(ctx: &Ctx) -> EngineResult {
    quiet_panics();
    let mut rep = Report::new("exploration");
    let quick = ctx.tier == Tier::Quick;
    // wall cap of the LSP seam (TV_C15_CAP_S overrides it, for experiments on a loaded machine)
    let cap_s = std::env::var("TV_C15_CAP_S").ok().and_then(|s| s.parse().ok()).unwrap_or(ctx.tier.pick(38u64, 830u64));
    let deadline = Instant::now() + Duration::from_secs(cap_s);
    let work = ctx.work_dir();
    let pool = Pool::new(work.join("lsp"));
    let spawners = pool.start_spawners(3, 8);
    let stack = 8 << 20;

    let effects = option_effect_selftest(&pool).map_err(Machinery)?;
    rep.set("option_values_observable", json!(effects));

    let cover = covering_array();
    let product = full_product();
    rep.set("configs_covering_array", cover.len() as u64);
    rep.set("configs_full_product", product.len() as u64);
    // a handful of configurations for the expensive range / on-type sweeps: default, and rows that
    // make wrapping act (max line length 20 / 40) under both spacing styles and CRLF-safe indents
    let wrap_cfgs: Vec<Cfg> = {
        let mut v = vec![DEFAULT_CFG];
        for &m in &[1u8, 2] {
            for &sp in &[1u8, 2] {
                for &ind in &[0u8, 2] {
                    v.push(Cfg([ind, 2, sp, if ind == 0 { 1 } else { 2 }, 1, 1, m, 0]));
                }
            }
        }
        v.push(Cfg([1, 0, 0, 0, 0, 0, 1, 2])); // siemens profile + maxlen 20
        v.push(Cfg([0, 0, 0, 0, 2, 2, 2, 1])); // codesys profile, no alignment, maxlen 40
        v
    };

    // ---------------- texts
    let files = crate::corpus::st_files(&ctx.repo_dir);
    if files.len() < 10 {
        return machinery(format!("only {} .st corpus files found under {:?}", files.len(), ctx.repo_dir));
    }
    let astral = |t: &str| t.chars().any(|c| c as u32 > 0xFFFF);
    let lone_cr = |t: &str| {
        let b = t.as_bytes();
        (0..b.len()).any(|i| b[i] == b'\r' && b.get(i + 1) != Some(&b'\n'))
    };
    let mut skipped_files = 0u64;
    let mut corpus_whole: Vec<TextInfo> = Vec::new();
    let mut corpus_small: Vec<TextInfo> = Vec::new();
    let mut corpus_mut: Vec<TextInfo> = Vec::new();
    for (_, text) in &files {
        if astral(text) || lone_cr(text) {
            skipped_files += 1;
            continue;
        }
        corpus_whole.push(TextInfo::new(text.clone()));
        let nl = text.split('\n').count();
        if nl <= 41 {
            corpus_small.push(TextInfo::new(text.clone()));
        }
        let lines: Vec<&str> = text.split_inclusive('\n').collect();
        for i in 0..lines.len() {
            let mut del = String::with_capacity(text.len());
            let mut dup = String::with_capacity(text.len() + lines[i].len());
            for (j, l) in lines.iter().enumerate() {
                if j != i {
                    del.push_str(l);
                }
                dup.push_str(l);
                if j == i {
                    if !l.ends_with('\n') {
                        dup.push('\n');
                    }
                    dup.push_str(l);
                }
            }
            corpus_mut.push(TextInfo::new(del));
            corpus_mut.push(TextInfo::new(dup));
        }
    }
    rep.set("corpus_files", corpus_whole.len() as u64);
    rep.set("corpus_files_skipped_astral_or_lone_cr", skipped_files);
    rep.set("corpus_files_le_40_lines", corpus_small.len() as u64);
    rep.set("corpus_line_mutations", corpus_mut.len() as u64);

    let mut pair_texts: Vec<Vec<TextInfo>> = Vec::new();
    for ctxname in PAIR_CTX {
        let mut v = Vec::with_capacity(TOKENS.len() * TOKENS.len());
        for a in TOKENS {
            for b in TOKENS {
                v.push(TextInfo::new(pair_text(ctxname, a, b)));
            }
        }
        pair_texts.push(v);
    }
    let max_seg = ctx.tier.pick(2usize, 3usize);
    let mut mixed: Vec<TextInfo> = Vec::new();
    for edge in ["", "\n", "\r\n", "x", "x;", " \t\n", "\n\n", "(* c *)", "// c", "{p}", "'s'"] {
        mixed.push(TextInfo::new(edge.to_string()));
    }
    // unterminated block comments / pragma (one Error token up to the end of the text)
    for edge in [
        "PROGRAM p\nx := 1;\n(* never closed\ny := 2;\nEND_PROGRAM\n",
        "PROGRAM p\r\nx := 1;\r\ny := 2; /* never closed\r\ny := 3;\r\nEND_PROGRAM\r\n",
        "PROGRAM p\nIF x THEN\n(* a (* nested closed *) outer open\nx := 1;\nEND_IF;\nEND_PROGRAM",
        "x := 1; (* open",
        "PROGRAM p\n{ never closed\nx := 1;\nEND_PROGRAM\n",
        "(* open at the start\n\nPROGRAM p\nEND_PROGRAM\n",
    ] {
        mixed.push(TextInfo::new(edge.to_string()));
    }
    for len in 1..=max_seg {
        let n = SEGMENTS.len();
        for idx in 0..n.pow(len as u32) {
            let mut segs = Vec::new();
            let mut k = idx;
            for _ in 0..len {
                segs.push(k % n);
                k /= n;
            }
            for sep in [" ", "", "\t"] {
                // length 1: the separator does not occur; length 3 (thorough only) and the quick
                // tier: no tab separator; length 3: blank separator only
                if (len == 1 && sep != " ") || (quick && sep == "\t") || (len == 3 && sep != " ") {
                    continue;
                }
                for (eol, tn) in [("\n", true), ("\r\n", true), ("\n", false)] {
                    if len == 3 && !tn {
                        continue;
                    }
                    mixed.push(TextInfo::new(mixed_text(&segs, sep, eol, tn)));
                }
            }
        }
    }
    let wrap_texts: Vec<TextInfo> = CRAFTED.iter().map(|s| TextInfo::new(s.to_string())).collect();
    let (align_core_star, align_core_rest, align_off) = align_texts(quick);
    let align_core_star: Vec<TextInfo> = align_core_star.into_iter().map(TextInfo::new).collect();
    let align_core: Vec<TextInfo> = align_core_star.iter().map(|t| t.text.clone()).chain(align_core_rest).map(TextInfo::new).collect();
    let align_off: Vec<TextInfo> = align_off.into_iter().map(TextInfo::new).collect();
    let align_all: Vec<&TextInfo> = align_core.iter().chain(align_off.iter()).collect();
    // configurations under which the alignment of assignments is not switched off
    let align_on: Vec<Cfg> = cover.iter().copied().filter(|c| c.name(5) != "false").collect();
    rep.set("align_configs_alignment_on", align_on.len() as u64);
    rep.set("align_texts", align_all.len() as u64);
    rep.set("align_texts_core", align_core.len() as u64);
    rep.set("align_texts_valid_program", align_all.iter().filter(|t| t.stratum == "valid").count() as u64);
    rep.set("align_texts_lexer_error", align_all.iter().filter(|t| t.view.has_error).count() as u64);
    // (vi) line-count family, and the same run of two empty lines put into texts of every family
    // whose range / on-type behaviour is swept
    let blank: Vec<TextInfo> = blank_texts(quick).into_iter().map(TextInfo::new).collect();
    let e2: &[&str] = BLANK_RUN[0].1;
    let mut crafted_blank: Vec<TextInfo> = Vec::new();
    for t in CRAFTED {
        let n = t.split('\n').count();
        crafted_blank.extend(inject_lines(t, n / 2, e2).map(TextInfo::new));
        if !quick {
            crafted_blank.extend(inject_lines(t, 0, e2).map(TextInfo::new));
        }
    }
    let corpus_blank: Vec<TextInfo> = corpus_small
        .iter()
        .filter(|t| !quick || t.text.split('\n').count() <= 26)
        .filter_map(|t| inject_lines(&t.text, t.text.split('\n').count() / 3, e2))
        .map(TextInfo::new)
        .collect();
    // (the degenerate documents at the head of the mixed family are too short to have a line 5)
    let mixed_blank: Vec<TextInfo> = mixed.iter().filter(|t| t.text.split('\n').count() > 6).take(60).filter_map(|t| inject_lines(&t.text, 5, e2)).map(TextInfo::new).collect();
    let align_blank: Vec<TextInfo> = align_core_star.iter().filter_map(|t| inject_lines(&t.text, 5, e2)).map(TextInfo::new).collect();
    rep.set("blank_texts", blank.len() as u64);
    rep.set("blank_injected_texts", (crafted_blank.len() + corpus_blank.len() + mixed_blank.len() + align_blank.len()) as u64);
    rep.set("pair_tokens", TOKENS.len() as u64);
    rep.set("pair_texts", (pair_texts.len() * pair_texts[0].len()) as u64);
    rep.set("mixed_texts", mixed.len() as u64);
    eprintln!("[C15] texts built at {:.1}s: pairs {}x{}, mixed {}, corpus {} (+{} mutations), {} covering configs", ctx.elapsed(), pair_texts.len(), pair_texts[0].len(), mixed.len(), corpus_whole.len(), corpus_mut.len(), cover.len());

    // ---------------- jobs (simplest first)
    let chunk = 256usize;
    let mut jobs: Vec<Job> = Vec::new();
    // three far-apart configurations for the big families of the quick tier (default; 2 blanks,
    // upper case, compact, max 40; tabs, lower case, siemens profile, max 20)
    let few: Vec<Cfg> = vec![DEFAULT_CFG, Cfg([1, 2, 2, 1, 1, 1, 2, 0]), Cfg([2, 3, 0, 0, 0, 0, 1, 2])];
    // (vi) line-count family: every range and on-type position; quick: under the default
    // configuration, on-type positions also under the two other far-apart ones
    push(&mut jobs, "blank", &blank, if quick { &few[..1] } else { &cover }, Extra::RangesAndOnType { alt_range_form: !quick }, 2);
    if quick {
        push(&mut jobs, "blank", &blank, &few[1..], Extra::OnType, 8);
    }
    // (v) alignment-sensitive line groups: the centre texts under all covering configs, the texts
    // off the centre under those that leave the alignment of assignments on (with alignment off
    // they only repeat what the centre texts show); centre texts also with every on-type position
    // (quick: statement-list / VAR contexts) / every range and on-type position under the wrapping
    // configurations (thorough)
    push(&mut jobs, "align", &align_core, &cover, Extra::None, chunk);
    push(&mut jobs, "align", &align_off, if quick { &align_on } else { &cover }, Extra::None, chunk);
    if quick {
        push(&mut jobs, "align", &align_core_star, &wrap_cfgs[..2], Extra::OnType, 32);
    } else {
        push(&mut jobs, "align", &align_core, &wrap_cfgs, Extra::RangesAndOnType { alt_range_form: false }, 4);
    }
    // the run of two empty lines inside texts of the other swept families (default configuration;
    // thorough: for the crafted programs also the configurations that wrap)
    push(&mut jobs, "crafted+blank", &crafted_blank, if quick { &wrap_cfgs[..1] } else { &wrap_cfgs }, Extra::RangesAndOnType { alt_range_form: false }, 1);
    push(&mut jobs, "align+blank", &align_blank, &wrap_cfgs[..1], if quick { Extra::OnType } else { Extra::RangesAndOnType { alt_range_form: false } }, 16);
    push(&mut jobs, "mixed+blank", &mixed_blank, if quick { &wrap_cfgs[..1] } else { &wrap_cfgs[..3] }, Extra::OnType, 16);
    push(&mut jobs, "corpus+blank", &corpus_blank, if quick { &wrap_cfgs[..1] } else { &wrap_cfgs[..3] }, if quick { Extra::OnType } else { Extra::RangesAndOnType { alt_range_form: false } }, 2);
    // (iv) crafted programs: all covering configs, all ranges, all on-type positions
    push(&mut jobs, "crafted", &wrap_texts, &cover, Extra::RangesAndOnType { alt_range_form: false }, 1);
    push(&mut jobs, "crafted", &wrap_texts, if quick { &wrap_cfgs[..5] } else { &wrap_cfgs }, Extra::RangesAndOnType { alt_range_form: true }, 1);
    // (i) token pairs
    for (ci, ctxname) in PAIR_CTX.iter().enumerate() {
        let fam: &'static str = match *ctxname {
            "line" => "pair:line",
            "glued" => "pair:glued",
            "expr" => "pair:expr",
            "tail" => "pair:tail",
            "var" => "pair:var",
            _ => "pair:call",
        };
        let cfgs: &[Cfg] = if quick && *ctxname != "line" { &few } else { &cover };
        push(&mut jobs, fam, &pair_texts[ci], cfgs, Extra::None, chunk);
    }
    // (iii) mixed comment / pragma / string lines, CRLF, tabs
    push(&mut jobs, "mixed", &mixed, &cover, Extra::None, chunk);
    push(&mut jobs, "mixed", &mixed[..mixed.len().min(300)], &wrap_cfgs[..3], Extra::OnType, 32);
    // (ii) corpus
    push(&mut jobs, "corpus", &corpus_whole, &cover, Extra::None, 4);
    push(&mut jobs, "corpus", &corpus_whole, if quick { &wrap_cfgs[..3] } else { &wrap_cfgs }, Extra::OnType, 2);
    push(&mut jobs, "corpus-range", &corpus_small, if quick { &wrap_cfgs[..2] } else { &wrap_cfgs }, Extra::RangesAndOnType { alt_range_form: !quick }, 1);
    if !quick {
        push(&mut jobs, "corpus-range", &corpus_small, &cover, Extra::RangesAndOnType { alt_range_form: false }, 1);
    }
    push(&mut jobs, "corpus-line-mutation", &corpus_mut, if quick { &few } else { &cover }, Extra::None, 64);
    // (i) thorough: the full product of explicit option values for the pair family
    if !quick {
        // (v): the centre texts of the statement-list / VAR contexts under the full product as well
        push(&mut jobs, "align*product", &align_core_star, &product, Extra::None, 1024);
        for (ci, ctxname) in PAIR_CTX.iter().enumerate() {
            let fam: &'static str = match *ctxname {
                "line" => "pair:line*product",
                _ => continue,
            };
            push(&mut jobs, fam, &pair_texts[ci], &product, Extra::None, 1024);
        }
    }

    let machinery_err: Mutex<Option<String>> = Mutex::new(None);
    let res = par_map(&jobs, ctx.threads, stack, Some(deadline), |_, job| {
        let mut st = Stats::default();
        let mut out = Vec::new();
        if machinery_err.lock().unwrap().is_some() {
            return (st, out);
        }
        let mut lsp: Option<Lsp> = None;
        if let Err(e) = eval_job(&pool, &mut lsp, job, &mut st, &mut out) {
            *machinery_err.lock().unwrap() = Some(e);
        }
        if let Some(l) = lsp {
            pool.give(l);
        }
        (st, out)
    });
    if let Some(e) = machinery_err.into_inner().unwrap() {
        return machinery(format!("language server seam: {e}"));
    }
    let mut total = Stats::default();
    let mut exhaustive = true;
    let mut done_jobs = 0u64;
    let mut fam_done: std::collections::BTreeMap<&str, (u64, u64)> = Default::default();
    for (job, r) in jobs.iter().zip(res) {
        let e = fam_done.entry(job.family).or_insert((0, 0));
        e.1 += 1;
        match r {
            Some((st, v)) => {
                done_jobs += 1;
                e.0 += 1;
                total.merge(st);
                rep.violations_from(v);
            }
            None => exhaustive = false,
        }
    }
    if !quick {
        // completed bound of the full product: configurations whose every job was executed
        let (done, all) = fam_done.get("pair:line*product").copied().unwrap_or((0, 0));
        let per_cfg = (pair_texts[0].len() as u64).div_ceil(1024);
        rep.set("full_product_configs_completed", done / per_cfg.max(1));
        rep.set("full_product_configs", all / per_cfg.max(1));
    }
    if !exhaustive {
        let detail: Vec<String> = fam_done.iter().filter(|(_, v)| v.0 < v.1).map(|(k, v)| format!("{k}: {}/{} jobs", v.0, v.1)).collect();
        rep.cap(format!("wall cap reached on the LSP seam: {} of {} jobs done ({})", done_jobs, jobs.len(), detail.join(", ")));
    }
    eprintln!("[C15] lsp seam done at {:.1}s ({} jobs)", ctx.elapsed(), jobs.len());
    drop(jobs);
    pool.shutdown(spawners);

    // ---------------- web IDE seam: every text of every family once
    let mut all_texts: Vec<(&'static str, &TextInfo)> = Vec::new();
    for t in &wrap_texts {
        all_texts.push(("crafted", t));
    }
    for t in &align_all {
        all_texts.push(("align", *t));
    }
    for t in blank.iter().chain(&crafted_blank) {
        all_texts.push(("blank", t));
    }
    for v in &pair_texts {
        for t in v {
            all_texts.push(("pair", t));
        }
    }
    for t in &mixed {
        all_texts.push(("mixed", t));
    }
    for t in &corpus_whole {
        all_texts.push(("corpus", t));
    }
    for t in &corpus_mut {
        all_texts.push(("corpus-line-mutation", t));
    }
    let parts: Vec<&[(&'static str, &TextInfo)]> = all_texts.chunks(512).collect();
    let web_err: Mutex<Option<String>> = Mutex::new(None);
    let wres = par_map(&parts, ctx.threads, stack, None, |i, part| {
        let mut st = Stats::default();
        let mut out = Vec::new();
        let web = match Web::new(work.join(format!("web{i}"))) {
            Ok(w) => w,
            Err(e) => {
                *web_err.lock().unwrap() = Some(e);
                return (st, out);
            }
        };
        if i == 0 {
            // once: the on-disk path (content = None) gives the same result as the in-memory path
            let t = part[0].1;
            if web.format_disk(&t.text) != web.format(&t.text) {
                *web_err.lock().unwrap() = Some("format_source(None) differs from format_source(Some(content))".into());
            }
        }
        for (fam, ti) in part.iter() {
            web_bundle(&web, fam, ti, &mut st, &mut out);
        }
        (st, out)
    });
    if let Some(e) = web_err.into_inner().unwrap() {
        return machinery(format!("web IDE seam: {e}"));
    }
    let mut wtotal = Stats::default();
    for r in wres.into_iter().flatten() {
        wtotal.merge(r.0);
        rep.violations_from(r.1);
    }
    eprintln!("[C15] web seam done at {:.1}s", ctx.elapsed());

    // ---------------- report
    let lsp_requests = pool.requests.load(Ordering::Relaxed) + pool.free.lock().unwrap().iter().map(|l| l.requests).sum::<u64>();
    if total.bundles == 0 || total.changed == 0 {
        return machinery("LSP seam vacuous: no text was changed by the formatter");
    }
    if total.range_nonempty == 0 || total.ontype_nonempty == 0 {
        return machinery("range / on-type formatting never returned an edit: family vacuous");
    }
    if wtotal.changed == 0 {
        return machinery("web seam vacuous: format_source never changed a text");
    }
    if fam_done.get("blank").map(|v| v.0).unwrap_or(0) > 0 && total.blank_partial_nonempty == 0 {
        return machinery("blank-run family vacuous: no range / on-type request was answered with an edit");
    }
    // family (v) is only worth something if the alignment pass acts at all on its texts (on a
    // correct formatter most victim lines are masked out of alignment, so the share is small: the
    // unmasked victims - operator text across tokens, typed literal, FOR header, continuation
    // line - and the 'z := 2' neighbour are the ones that get padded)
    let align_done = fam_done.get("align").map(|v| v.0).unwrap_or(0);
    if align_done > 0 && total.align_padded == 0 {
        return machinery(format!("align family vacuous: alignment never moved an operator in {} results", total.align_bundles));
    }
    if wtotal.errors > 0 {
        return machinery(format!("web seam: format_source answered an error for {} texts (not checked)", wtotal.errors));
    }
    let mut distinct: HashSet<u64> = HashSet::new();
    distinct.extend(total.hashes.iter().copied());
    distinct.extend(wtotal.hashes.iter().copied());
    rep.set("evaluations", lsp_requests + wtotal.bundles + wtotal.idem_checks);
    rep.set("distinct_nontrivial", distinct.len() as u64);
    rep.set("rule", "every (text, configuration) of: (i) every ordered pair of the token menu (identifiers, keywords in both cases, every operator / punctuation token, plain / based / real / typed / time / date literals, strings containing comment openers and separators, direct addresses) in 6 line contexts (alone, written without a blank, inside an assignment, at the end of an assignment, inside a VAR block, inside a long call); (ii) every .st file of the repository and every single-line deletion / duplication of it; (iii) every sequence of <= L segments (code, block / line / C comments, nested comments, pragmas incl. multi-line, strings containing comment openers and separators) x separator {blank, none, tab} x {LF, CRLF, no final newline} (L = 2 quick, 3 thorough) plus degenerate documents; (iv) hand-written valid programs (long comma lines, typed literals after keyword operators, literals with ':' in VAR blocks, multi-line pragmas, dense / blank-separated operators, nested blocks in lower case); (v) alignment groups: a victim line carrying the text ':=' / '=>' inside a STRING / WSTRING literal (plain, with comma, multi-byte, $', tab), block / C / line comment or pragma (before a real operator, behind it, on a line without one, on a continuation line, alone) or across two tokens (also: ',' inside a long string / comment / pragma, the split text of the wrapping pass), next to a neighbour line whose real operator is further right / left (long name, '=>' call, very long left-hand side, FOR header), in 8 alignment contexts (statement list, IF body, CASE branch, CASE label lines, multi-line call arguments, VAR declarations with initialisers, multi-line initialiser call in VAR, STRUCT fields) x order {NV, VN, NVN} x separator {adjacent, blank, //, pragma, (* *) line} x source layout {flush LF, flush CRLF, 4 blanks, 2 blanks CRLF, tab} (quick: every context with the centre values, and in the statement-list / VAR contexts one dimension off the centre at a time, the off-centre texts under the covering rows that do not switch the alignment of assignments off; thorough: victim x neighbour x order x (separator | layout)). (vi) line-count constructs: a two-POU program with a run put at the start of the file / start of a VAR block / between declarations / end of the VAR block / between POUs / inside a statement list / at the start of a nested block / at the end of the file, the run being 1, 2 or 3 empty lines, blank-only lines (blanks, tab), a mix, or a block comment / pragma / statement continued across two empty lines, LF and CRLF; and two empty lines put into the hand-written programs (iv), the small repository files, mixed-line texts and the statement-list / VAR centre texts of (v); all of these with every line interval by rangeFormatting and / or every line end x trigger by onTypeFormatting, i.e. requests above, inside and below the construct. Configurations: a pairwise covering array over the 8 option dimensions incl. 'unset' (indent via FormattingOptions or settings, keyword case, spacing style, end-keyword style, two alignment flags, max line length, vendor profile via trust-lsp.toml); quick uses 3 far-apart configurations for the larger families; thorough adds the full product of the explicit option values for the 'alone' context of (i) and the statement-list / VAR centre texts of (v). Per (text, cfg): textDocument/formatting and re-formatting of the result; for (ii, files <= 40 lines), (iv) and the centre texts of (v) every line interval by rangeFormatting (v: thorough only) and every line end x advertised trigger character by onTypeFormatting. Web IDE: every text once through WebIdeState::format_source (+ re-formatting). distinct_nontrivial = distinct (configuration, formatted text) results in which the formatter changed its input.");
    rep.set("lsp_requests", lsp_requests);
    rep.set("lsp_servers_spawned", pool.spawned.load(Ordering::Relaxed));
    rep.set("lsp_servers_lost_to_crashes", pool.crashed.load(Ordering::Relaxed));
    rep.set("lsp_bundles", total.bundles);
    rep.set("lsp_bundles_changed_by_formatter", total.changed);
    rep.set("lsp_bundles_line_count_changed", total.wrapped);
    rep.set("lsp_bundles_valid_program", total.valid);
    rep.set("lsp_bundles_lexer_error_input", total.lexerr);
    rep.set("lsp_idempotence_checks", total.idem_checks);
    rep.set("range_requests", total.range_reqs);
    rep.set("range_requests_with_edit", total.range_nonempty);
    rep.set("range_requests_expanded_to_block", total.range_expanded);
    rep.set("ontype_requests", total.ontype_reqs);
    rep.set("ontype_requests_with_edit", total.ontype_nonempty);
    rep.set("blank_partial_requests", total.blank_partial);
    rep.set("blank_partial_requests_with_edit", total.blank_partial_nonempty);
    rep.set("align_bundles", total.align_bundles);
    rep.set("align_bundles_operator_moved_by_alignment", total.align_padded);
    rep.set("web_texts", wtotal.bundles);
    rep.set("web_texts_changed", wtotal.changed);
    rep.set("exhaustive", exhaustive);
    rep.sample(json!({"family": "pair:line", "text": pair_text("line", "*", "*"), "cfg": cover[1].to_json()}));
    rep.sample(json!({"family": "mixed", "text": mixed_text(&[0, 16], " ", "\r\n", true)}));
    rep.sample(json!({"family": "crafted", "text": CRAFTED[0], "cfg": wrap_cfgs[1].to_json()}));
    rep.assume("positions are exchanged in UTF-16 units; texts with astral-plane characters or lone CR line ends are left out (property C14)");
    rep.assume("inputs whose lexing contains Error tokens are required to keep the token-text sequence, not to crash the formatter and to be formatted idempotently; the content of an unterminated block comment and the comment / pragma / string sequence are not compared for them");
    rep.assume("comments and pragmas are compared modulo line-ending style and leading/trailing blanks of each of their lines");
    Ok(rep)
}

pub fn workers() -> Vec<(&'static str, WorkerFn)> {
    Vec::new()
}
