//! Engine registry: one engine per property.

use crate::fw::{Ctx, EngineResult, Violation};
use crate::iso::WorkerFn;
use serde_json::Value;

pub mod c12;

pub struct Engine {
    pub prop: &'static str,
    pub run: fn(&Ctx) -> EngineResult,
    /// re-executes one recorded case without the explorer
    pub replay: fn(&Value) -> Vec<Violation>,
}

pub fn engines() -> Vec<Engine> {
    vec![Engine { prop: "C12", run: c12::run, replay: c12::check_case }]
}

pub fn workers() -> Vec<(&'static str, WorkerFn)> {
    vec![("c12_nest", c12::worker_nest as WorkerFn)]
}
