//! Engine registry: one engine per property (file `cNN.rs`). This file never needs editing when
//! an engine changes: each engine exports `run`, `check_case` (replay of one case) and `workers`.

use crate::fw::{Ctx, EngineResult, Violation};
use crate::iso::WorkerFn;
use serde_json::Value;

pub mod c01;
pub mod c02;
pub mod c03;
pub mod c04;
pub mod c05;
pub mod c06;
pub mod c07;
pub mod c08;
pub mod c09;
pub mod c10;
pub mod c11;
pub mod c12;
pub mod c13;
pub mod c14;
pub mod c15;
pub mod c16;
pub mod c17;
pub mod c18;
pub mod c19;
pub mod c20;

pub struct Engine {
    pub prop: &'static str,
    pub run: fn(&Ctx) -> EngineResult,
    /// re-executes one recorded case without the explorer
    pub replay: fn(&Value) -> Vec<Violation>,
}

pub fn engines() -> Vec<Engine> {
    vec![
        Engine { prop: "C01", run: c01::run, replay: c01::check_case },
        Engine { prop: "C02", run: c02::run, replay: c02::check_case },
        Engine { prop: "C03", run: c03::run, replay: c03::check_case },
        Engine { prop: "C04", run: c04::run, replay: c04::check_case },
        Engine { prop: "C05", run: c05::run, replay: c05::check_case },
        Engine { prop: "C06", run: c06::run, replay: c06::check_case },
        Engine { prop: "C07", run: c07::run, replay: c07::check_case },
        Engine { prop: "C08", run: c08::run, replay: c08::check_case },
        Engine { prop: "C09", run: c09::run, replay: c09::check_case },
        Engine { prop: "C10", run: c10::run, replay: c10::check_case },
        Engine { prop: "C11", run: c11::run, replay: c11::check_case },
        Engine { prop: "C12", run: c12::run, replay: c12::check_case },
        Engine { prop: "C13", run: c13::run, replay: c13::check_case },
        Engine { prop: "C14", run: c14::run, replay: c14::check_case },
        Engine { prop: "C15", run: c15::run, replay: c15::check_case },
        Engine { prop: "C16", run: c16::run, replay: c16::check_case },
        Engine { prop: "C17", run: c17::run, replay: c17::check_case },
        Engine { prop: "C18", run: c18::run, replay: c18::check_case },
        Engine { prop: "C19", run: c19::run, replay: c19::check_case },
        Engine { prop: "C20", run: c20::run, replay: c20::check_case },
    ]
}

pub fn workers() -> Vec<(&'static str, WorkerFn)> {
    let mut v = Vec::new();
    v.extend(c01::workers());
    v.extend(c02::workers());
    v.extend(c03::workers());
    v.extend(c04::workers());
    v.extend(c05::workers());
    v.extend(c06::workers());
    v.extend(c07::workers());
    v.extend(c08::workers());
    v.extend(c09::workers());
    v.extend(c10::workers());
    v.extend(c11::workers());
    v.extend(c12::workers());
    v.extend(c13::workers());
    v.extend(c14::workers());
    v.extend(c15::workers());
    v.extend(c16::workers());
    v.extend(c17::workers());
    v.extend(c18::workers());
    v.extend(c19::workers());
    v.extend(c20::workers());
    v
}

/// Part of the C19 engine (path confinement), driven from `c19::run`.
pub mod c19_confine;
/// Part of the C19 engine (multi-step histories), driven from `c19::run`.
pub mod c19_hist;
