//! C05 — execution and compilation are deterministic and reproducible.
//! (a) order exploration: every order-exposing traversal of a hash collection in the bytecode
//!     encoder (hooked through `verif_map`) is a choice point; all alternative orders are
//!     explored depth-first as deviations from std order (bound 2) and the emitted container must
//!     not change;
//! (b) cross-process / cross-thread sweep: the same programs are compiled and run in several
//!     independent OS processes and threads (each has its own hash seeds, address-space layout
//!     and environment size); container bytes, per-cycle states, faults and runtime events must
//!     be identical.

use crate::fw::*;
use crate::iso::{self, Outcome, PoolCfg, WorkerFn};
use serde_json::{json, Value};
use std::cell::RefCell;
use std::rc::Rc;
use std::time::{Duration, Instant};
use trust_runtime::harness::{bytecode_bytes_from_source, TestHarness};
use trust_runtime::value::Duration as StDuration;
use trust_runtime::verif_map::{install_policy, OrderPolicy};

fn hash_bytes(b: &[u8]) -> u64 {
    let mut h: u64 = 0xcbf29ce484222325;
    for x in b {
        h ^= *x as u64;
        h = h.wrapping_mul(0x100000001b3);
    }
    h
}

/// A program with `k` of everything the encoder keeps hash maps for.
pub fn wide_program_pub(k: usize) -> String {
    wide_program(k)
}

fn wide_program(k: usize) -> String {
    let mut s = String::new();
    for i in 0..k {
        s.push_str(&format!("TYPE S{i} :\nSTRUCT\n    a : INT;\n    b : ARRAY[0..{i}] OF DINT;\nEND_STRUCT\nEND_TYPE\n\n"));
        s.push_str(&format!("TYPE E{i} : (Red{i}, Green{i}, Blue{i});\nEND_TYPE\n\n"));
        s.push_str(&format!("INTERFACE I{i}\nMETHOD Get{i} : INT\nEND_METHOD\nEND_INTERFACE\n\n"));
        s.push_str(&format!(
            "FUNCTION F{i} : DINT\nVAR_INPUT x : DINT; y : DINT; END_VAR\nVAR t : DINT; END_VAR\n    FOR t := 0 TO 2 DO\n        F{i} := F{i} + x * {} + y;\n    END_FOR;\nEND_FUNCTION\n\n",
            i + 1
        ));
        s.push_str(&format!(
            "FUNCTION_BLOCK FB{i} IMPLEMENTS I{i}\nVAR_INPUT d : INT; END_VAR\nVAR_OUTPUT total : INT; END_VAR\nVAR s : S{i}; e : E{i}; END_VAR\nMETHOD PUBLIC Get{i} : INT\n    Get{i} := total;\nEND_METHOD\nMETHOD PUBLIC Bump{i} : INT\nVAR_INPUT amt : INT; END_VAR\n    total := total + amt;\n    Bump{i} := total;\nEND_METHOD\n    total := total + d;\n    s.a := total;\nEND_FUNCTION_BLOCK\n\n"
        ));
    }
    for i in 0..k {
        s.push_str(&format!(
            "CLASS K{i}\nVAR PUBLIC\n    kv : DINT := DINT#{i};\nEND_VAR\nMETHOD PUBLIC Step{i} : DINT\nVAR_INPUT amt : DINT; END_VAR\n    kv := kv + amt;\n    Step{i} := kv;\nEND_METHOD\nEND_CLASS\n\n"
        ));
    }
    // overlapping output / memory bindings whose variables disagree on the shared bits: the
    // published image depends on the order in which the bindings are written
    s.push_str("CONFIGURATION Conf\nVAR_GLOBAL\n    trail : DINT := 0;\n    ow AT %QW0 : WORD := 16#0100;\n    ob AT %QX0.0 : BOOL := TRUE;\n    oc AT %QB1 : BYTE := 16#7E;\n    od AT %QW0 : WORD := 16#8000;\n    mw AT %MW4 : WORD := 16#00FF;\n    mb AT %MB4 : BYTE := 16#11;\n");
    for i in 0..k {
        s.push_str(&format!("    g{i} : DINT := {i};\n"));
    }
    s.push_str("END_VAR\n");
    for i in 0..k.min(3) {
        s.push_str(&format!("TASK T{i} (INTERVAL := T#{}ms, PRIORITY := {});\n", 10 * (i + 1), i % 2));
    }
    for i in 0..k {
        if i < 3 {
            s.push_str(&format!("PROGRAM P{i} WITH T{i} : Main{i};\n"));
        } else {
            s.push_str(&format!("PROGRAM P{i} : Main{i};\n"));
        }
    }
    s.push_str("END_CONFIGURATION\n\n");
    for i in 0..k {
        s.push_str(&format!("PROGRAM Main{i}\nVAR\n    fb : FB{i};\n    ko : K{i};\n    r : DINT;\n    q : INT;\n    w : DINT;\nEND_VAR\n"));
        // `trail` makes the programs order-sensitive on shared state
        s.push_str(&format!(
            "    fb(d := {});\n    q := fb.Bump{i}(amt := 2);\n    r := F{i}(x := g{i}, y := r);\n    w := ko.Step{i}(amt := DINT#3);\n    g{i} := g{i} + 1;\n    trail := (trail * DINT#10 + DINT#{}) MOD DINT#100000007;\nEND_PROGRAM\n\n",
            i + 1,
            i + 1
        ));
    }
    s
}

fn corpus(ctx: &Ctx) -> Vec<(String, String)> {
    let mut out: Vec<(String, String)> = Vec::new();
    for k in [1usize, 3, 5] {
        out.push((format!("wide{k}"), wide_program(k)));
    }
    out.push(("c17-program".into(), super::c17::PROGRAMS[0].to_string()));
    // every repository file that compiles on its own
    for (name, text) in crate::corpus::st_files(&ctx.repo_dir) {
        out.push((name, text));
    }
    // a slice of the ST-core corpus: the first case of every feature
    // quick: the first case of every feature; thorough: the first four cases of every feature of
    // the thorough corpus
    let thorough = ctx.tier == Tier::Thorough;
    let per_feature = if thorough { 4usize } else { 1 };
    let mut seen: std::collections::HashMap<(&'static str, String), usize> = std::collections::HashMap::new();
    for c in crate::stcore::families::corpus(thorough) {
        // programs that are meant not to terminate (F14) need a wall-clock budget to end: not here
        if c.prog.budget_ms.is_some() {
            continue;
        }
        let n = seen.entry((c.family, c.feature.clone())).or_insert(0);
        *n += 1;
        if *n <= per_feature {
            out.push((format!("stcore:{}:{}#{}", c.family, c.feature, *n), c.text()));
        }
    }
    out
}

/// Compile + run observation of one program in this process/thread.
fn observe(text: &str) -> Value {
    let r = catch(|| {
        let bytes = match bytecode_bytes_from_source(text) {
            Ok(b) => b,
            Err(e) => return json!({"compile_error": e.to_string()}),
        };
        let mut trace = Vec::new();
        if let Ok(mut h) = TestHarness::from_source(text) {
            let control = h.runtime_mut().enable_debug();
            for _ in 0..3 {
                h.advance_time(StDuration::from_millis(10));
                let res = h.cycle();
                let events = control.drain_runtime_events();
                trace.push(json!({
                    "errors": res.errors.iter().map(|e| format!("{e:?}")).collect::<Vec<_>>(),
                    "state": hash_bytes(format!("{:?}", crate::dump::dump_runtime(h.runtime())).as_bytes()),
                    "outputs": hash_bytes(h.runtime().io().outputs()),
                    "events": hash_bytes(format!("{events:?}").as_bytes()),
                    "n_events": events.len(),
                }));
                if !res.errors.is_empty() {
                    break;
                }
            }
        }
        json!({"bytes": hash_bytes(&bytes), "len": bytes.len(), "trace": trace})
    });
    match r {
        Ok(v) => v,
        Err(m) => json!({"panic": m}),
    }
}

pub fn worker_proc(case: &Value) -> Value {
    let texts = case["texts"].as_array().cloned().unwrap_or_default();
    let mut out = Vec::new();
    for t in texts {
        let text = t.as_str().unwrap_or("").to_string();
        // main worker thread and a fresh thread: std's RandomState keys are per thread
        let a = observe(&text);
        let text2 = text.clone();
        let b = std::thread::spawn(move || observe(&text2)).join().unwrap_or(json!({"panic": "thread"}));
        out.push(json!([a, b]));
    }
    json!(out)
}

// ---------------------------------------------------------------------------------------------
// (a) order exploration
// ---------------------------------------------------------------------------------------------

#[derive(Default)]
struct Rec {
    prefix: Vec<usize>,
    /// (chosen alternative, number of alternatives, len, site)
    points: Vec<(usize, usize, usize, &'static str)>,
}

struct Policy(Rc<RefCell<Rec>>);

fn n_alternatives(len: usize) -> usize {
    match len {
        0 | 1 => 1,
        2 => 2,
        3 => 6,
        4 => 24,
        n => n + 1, // identity, reversed, rotations 1..n-1
    }
}

fn nth_perm(len: usize, mut k: usize) -> Vec<usize> {
    // k-th permutation in lexicographic order (k = 0: identity)
    let mut items: Vec<usize> = (0..len).collect();
    let mut fact: Vec<usize> = vec![1; len + 1];
    for i in 1..=len {
        fact[i] = fact[i - 1] * i;
    }
    let mut out = Vec::with_capacity(len);
    for i in (0..len).rev() {
        let f = fact[i];
        let idx = k / f;
        k %= f;
        out.push(items.remove(idx));
    }
    out
}

fn alternative(len: usize, alt: usize) -> Vec<usize> {
    if len <= 4 {
        return nth_perm(len, alt);
    }
    match alt {
        0 => (0..len).collect(),
        1 => (0..len).rev().collect(),
        r => (0..len).map(|i| (i + r - 1) % len).collect(),
    }
}

impl OrderPolicy for Policy {
    fn order(&mut self, site: &'static str, len: usize) -> Vec<usize> {
        let mut rec = self.0.borrow_mut();
        let n = n_alternatives(len);
        if n <= 1 {
            return (0..len).collect();
        }
        let k = rec.points.len();
        let alt = rec.prefix.get(k).copied().unwrap_or(0).min(n - 1);
        rec.points.push((alt, n, len, site));
        alternative(len, alt)
    }
}

struct OrderStats {
    executions: u64,
    traversals: u64,
    max_points: usize,
    sites: std::collections::BTreeMap<String, u64>,
    violation: Option<(Vec<usize>, String)>,
    capped: bool,
}

fn explore_orders(text: &str, bound: usize, deadline: Instant) -> Result<OrderStats, String> {
    let baseline = match catch(|| bytecode_bytes_from_source(text)) {
        Ok(Ok(b)) => b,
        Ok(Err(_)) => return Err("does not compile".into()),
        Err(m) => return Err(format!("panic: {m}")),
    };
    let mut st = OrderStats { executions: 0, traversals: 0, max_points: 0, sites: Default::default(), violation: None, capped: false };
    // work items: (prefix, deviations used)
    let mut stack: Vec<(Vec<usize>, usize)> = vec![(Vec::new(), 0)];
    while let Some((prefix, used)) = stack.pop() {
        if Instant::now() >= deadline {
            st.capped = true;
            break;
        }
        let rec = Rc::new(RefCell::new(Rec { prefix: prefix.clone(), points: Vec::new() }));
        let prev = install_policy(Some(Box::new(Policy(rec.clone()))));
        let res = catch(|| bytecode_bytes_from_source(text));
        install_policy(prev);
        st.executions += 1;
        let rec = rec.borrow();
        st.max_points = st.max_points.max(rec.points.len());
        if prefix.is_empty() {
            st.traversals = rec.points.len() as u64;
            for p in &rec.points {
                *st.sites.entry(p.3.to_string()).or_insert(0) += 1;
            }
        }
        let same = matches!(&res, Ok(Ok(b)) if *b == baseline);
        if !same && prefix.is_empty() {
            // differs already under std order: two compilations in the same thread disagree
            st.violation = Some((Vec::new(), "RECOMPILE".into()));
            break;
        }
        if !same && st.violation.is_none() {
            let what = match res {
                Ok(Ok(b)) => format!("container differs from the std-order container ({} vs {} bytes, first difference at byte {})", b.len(), baseline.len(), b.iter().zip(&baseline).position(|(x, y)| x != y).unwrap_or(b.len().min(baseline.len()))),
                Ok(Err(e)) => format!("compilation fails under this order: {e}"),
                Err(m) => format!("panic under this order: {m}"),
            };
            let choices: Vec<usize> = rec.points.iter().map(|p| p.0).collect();
            st.violation = Some((choices, what));
            break;
        }
        if used < bound {
            for i in prefix.len()..rec.points.len() {
                let n = rec.points[i].1;
                for alt in 1..n {
                    let mut p: Vec<usize> = rec.points[..i].iter().map(|x| x.0).collect();
                    p.push(alt);
                    stack.push((p, used + 1));
                }
            }
        }
    }
    Ok(st)
}

fn pool(threads: usize, pad: usize) -> PoolCfg {
    PoolCfg {
        worker: "c05_proc",
        procs: threads,
        rlimit_as: 0,
        per_case: Duration::from_secs(300),
        deadline: None,
        // different environment sizes shift the initial stack / heap layout
        env: vec![("TV_C05_PAD".into(), "x".repeat(pad))],
        stack: 8 << 20,
    }
}

pub fn run(ctx: &Ctx) -> EngineResult {
    quiet_panics();
    let mut rep = Report::new("exploration");
    let progs = corpus(ctx);
    let deadline = Instant::now() + Duration::from_secs(ctx.tier.pick(25, 300));

    // (a) order exploration, in-process, parallel over programs
    let bound = ctx.tier.pick(2usize, 3usize);
    let results = crate::par::par_map(&progs, ctx.threads, 8 << 20, Some(deadline), |_, (name, text)| (name.clone(), explore_orders(text, bound, deadline)));
    let mut order_execs = 0u64;
    let mut traversals = 0u64;
    let mut compiled = 0u64;
    let mut max_points = 0usize;
    let mut sites: std::collections::BTreeMap<String, u64> = Default::default();
    let mut exhaustive = true;
    for (r, (_, text)) in results.into_iter().zip(&progs) {
        let Some((name, r)) = r else {
            exhaustive = false;
            continue;
        };
        let Ok(st) = r else { continue };
        compiled += 1;
        order_execs += st.executions;
        traversals += st.traversals;
        max_points = max_points.max(st.max_points);
        for (k, v) in st.sites {
            *sites.entry(k).or_insert(0) += v;
        }
        if st.capped {
            exhaustive = false;
        }
        if let Some((choices, what)) = st.violation {
            if what == "RECOMPILE" {
                rep.violation(Violation {
                    signature: "C05/container-differs/same-thread-recompile".into(),
                    what: format!("program {name}: compiling the same source twice in one thread yields different containers"),
                    case: json!({"kind": "sweep", "name": name, "text": text}),
                });
                continue;
            }
            rep.violation(Violation {
                signature: "C05/order-dependent-container/encoder-hash-iteration".into(),
                what: format!("program {name}: {what}"),
                case: json!({"kind": "order", "name": name, "text": text, "choices": choices}),
            });
        }
    }
    if compiled < 20 {
        return machinery(format!("only {compiled} corpus programs compile"));
    }
    for k in [1usize, 3, 5] {
        if bytecode_bytes_from_source(&wide_program(k)).is_err() {
            return machinery(format!("generated wide program k={k} does not compile"));
        }
    }

    // (b) cross-process / cross-thread sweep
    let texts: Vec<Value> = progs.iter().map(|p| json!(p.1)).collect();
    let nproc = ctx.tier.pick(4usize, 8usize);
    let mut per_proc: Vec<Vec<Value>> = Vec::new();
    let chunks: Vec<Value> = texts.chunks(40).map(|c| json!({"texts": c})).collect();
    std::thread::scope(|s| -> Result<(), Machinery> {
        let handles: Vec<_> = (0..nproc)
            .map(|p| {
                let chunks = &chunks;
                s.spawn(move || iso::run_pool(&pool(2, 1 + 977 * p), chunks))
            })
            .collect();
        for h in handles {
            let outs = h.join().map_err(|_| Machinery("sweep thread panicked".into()))?.map_err(Machinery)?;
            let mut flat = Vec::new();
            for o in outs {
                match o {
                    Some(Outcome::Ok(v)) => flat.extend(v.as_array().cloned().unwrap_or_default()),
                    other => return Err(Machinery(format!("sweep worker failed: {other:?}"))),
                }
            }
            per_proc.push(flat);
        }
        Ok(())
    })?;
    let mut compared = 0u64;
    let mut observations = 0u64;
    let mut distinct_programs = std::collections::HashSet::new();
    for (i, (name, text)) in progs.iter().enumerate() {
        let reference = &per_proc[0][i][0];
        if reference.get("compile_error").is_some() {
            continue;
        }
        distinct_programs.insert(hash_bytes(text.as_bytes()));
        compared += 1;
        for (p, proc_obs) in per_proc.iter().enumerate() {
            for (t, obs) in proc_obs[i].as_array().cloned().unwrap_or_default().iter().enumerate() {
                observations += 1;
                if obs != reference {
                    let clause = if obs.get("panic").is_some() || reference.get("panic").is_some() {
                        "panic"
                    } else if obs["bytes"] != reference["bytes"] || obs["len"] != reference["len"] {
                        "container-differs"
                    } else {
                        "trace-differs"
                    };
                    rep.violation(Violation {
                        signature: format!("C05/{clause}/across-{}", if p == 0 { "threads" } else { "processes" }),
                        what: format!("program {name}: process {p} thread {t} observed {obs}, process 0 thread 0 observed {reference}"),
                        case: json!({"kind": "sweep", "name": name, "text": text}),
                    });
                }
            }
        }
    }
    rep.sample(json!({"program": progs[0].0, "text_head": progs[0].1.chars().take(300).collect::<String>()}));
    rep.sample(json!({"program": progs[progs.len() - 1].0, "text": progs[progs.len() - 1].1}));
    rep.set("evaluations", order_execs + observations);
    rep.set("distinct_nontrivial", distinct_programs.len() as u64);
    rep.set("rule", "corpus = generated wide programs (k types/interfaces/functions/FBs with methods/programs/tasks, k in {1,3,5}) + every repository .st file that compiles alone + the first case of every ST-core feature. (a) every order-exposing hash-collection traversal in the encoder is a choice point: all permutations for <= 4 entries, identity/reversed/all rotations beyond; explored depth-first to the deviation bound; (b) every program compiled and run for 3 cycles in N processes x 2 threads. Non-trivial = distinct program texts that compile.");
    rep.set("programs_compiling", compiled);
    rep.set("order_executions", order_execs);
    rep.set("order_deviation_bound", bound as u64);
    rep.set("order_exposing_traversals_reached_in_encoder", traversals);
    rep.set("order_exposing_sites", json!(sites));
    rep.set("max_choice_points_per_compile", max_points as u64);
    rep.set("sweep_processes", nproc as u64);
    rep.set("sweep_programs_compared", compared);
    rep.set("sweep_observations", observations);
    rep.set("exhaustive", exhaustive);
    if traversals == 0 {
        rep.assume("the encoder currently performs no order-exposing traversal of its hash collections (0 choice points): the order family holds trivially and exists to catch a change that starts iterating one");
    }
    rep.assume("hash seeds and address-space layouts cannot be enumerated: part (b) is a fixed sweep over N processes x 2 threads, part (a) is exhaustive over iteration orders of the hooked encoder collections only");
    Ok(rep)
}

pub fn check_case(case: &Value) -> Vec<Violation> {
    let text = case["text"].as_str().unwrap_or("");
    let name = case["name"].as_str().unwrap_or("");
    if case["kind"] == "order" {
        let choices: Vec<usize> = case["choices"].as_array().map(|a| a.iter().map(|x| x.as_u64().unwrap_or(0) as usize).collect()).unwrap_or_default();
        let Ok(Ok(baseline)) = catch(|| bytecode_bytes_from_source(text)) else { return Vec::new() };
        let rec = Rc::new(RefCell::new(Rec { prefix: choices, points: Vec::new() }));
        let prev = install_policy(Some(Box::new(Policy(rec))));
        let res = catch(|| bytecode_bytes_from_source(text));
        install_policy(prev);
        if !matches!(&res, Ok(Ok(b)) if *b == baseline) {
            return vec![Violation {
                signature: "C05/order-dependent-container/encoder-hash-iteration".into(),
                what: format!("program {name}: container depends on the iteration order of an encoder hash collection"),
                case: case.clone(),
            }];
        }
        return Vec::new();
    }
    // sweep: two fresh processes
    let chunks = vec![json!({"texts": [text]})];
    let mut obs = Vec::new();
    for p in 0..3 {
        if let Ok(outs) = iso::run_pool(&pool(1, 1 + 977 * p), &chunks) {
            if let Some(Some(Outcome::Ok(v))) = outs.into_iter().next() {
                obs.extend(v[0].as_array().cloned().unwrap_or_default());
            }
        }
    }
    if obs.windows(2).any(|w| w[0] != w[1]) {
        return vec![Violation {
            signature: "C05/container-or-trace-differs/across-processes".into(),
            what: format!("program {name}: observations differ between independent processes/threads"),
            case: case.clone(),
        }];
    }
    Vec::new()
}

pub fn workers() -> Vec<(&'static str, WorkerFn)> {
    vec![("c05_proc", worker_proc as iso::WorkerFn)]
}
