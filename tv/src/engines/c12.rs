//! C12 — parsing is total and lossless for every input text (core X1: bounded-exhaustive
//! enumeration of inputs, every one parsed by the real lexer/parser).

use crate::fw::*;
use crate::iso;
use crate::par::par_map;
use serde_json::{json, Value};
use std::time::{Duration, Instant};
use trust_syntax::lexer::lex;
use trust_syntax::parser::parse;
use trust_syntax::syntax::SyntaxNode;

const ALPHABET: &[&str] = &[
    "PROGRAM", "END_PROGRAM", "VAR", "END_VAR", "IF", "THEN", "ELSE", "END_IF", "CASE", "OF",
    "END_CASE", "FOR", "TO", "DO", "END_FOR", "x", "1", "1.5", "'s", "'s'", ":=", ";", ":", "(",
    ")", "[", "]", ",", ".", "..", "+", "-", "*", "NOT", "(*", "*)", "//c\n", "{p}", "{", "#",
    "INT#", "T#1s", "%IX0.0", "é", "😀", "^", "=>", "FUNCTION", "END_FUNCTION", "INT", "ARRAY",
    "STRUCT", "END_STRUCT", "TYPE", "END_TYPE", "\"w", "16#", "\r\n",
];

fn clip(s: &str, n: usize) -> String {
    let mut out: String = s.chars().take(n).collect();
    if s.chars().count() > n {
        out.push('…');
    }
    out
}

fn norm_msg(m: &str) -> String {
    let s: String = m
        .chars()
        .map(|c| if c.is_ascii_digit() { '#' } else { c })
        .collect();
    clip(&s, 60)
}

/// Shape of a tree: kinds of non-trivia nodes and tokens with nesting.
fn shape(node: &SyntaxNode, out: &mut String) {
    use std::fmt::Write;
    let _ = write!(out, "({:?}", node.kind());
    for child in node.children_with_tokens() {
        match child {
            rowan::NodeOrToken::Node(n) => shape(&n, out),
            rowan::NodeOrToken::Token(t) => {
                let k = t.kind();
                let name = format!("{k:?}");
                if matches!(
                    name.as_str(),
                    "Whitespace" | "LineComment" | "BlockComment" | "Pragma"
                ) {
                    continue;
                }
                let _ = write!(out, " {name}");
            }
        }
    }
    out.push(')');
}

/// All total/lossless clauses on one text. Returns (clause, detail).
pub fn check_text(s: &str) -> Vec<(String, String)> {
    let mut bad = Vec::new();
    let r = catch(|| {
        let mut bad = Vec::new();
        // lexer: tokens tile [0,|s|) and concatenate to s
        let toks = lex(s);
        let mut pos = 0u32;
        let mut cat = String::new();
        for t in &toks {
            let st: u32 = t.range.start().into();
            let en: u32 = t.range.end().into();
            if st != pos || en < st || en as usize > s.len() {
                bad.push((
                    "tile".to_string(),
                    format!("token {:?} at {st}..{en}, expected start {pos}", t.kind),
                ));
                break;
            }
            if !s.is_char_boundary(st as usize) || !s.is_char_boundary(en as usize) {
                bad.push(("tile".to_string(), format!("token range {st}..{en} splits a character")));
                break;
            }
            if en == st {
                bad.push(("tile".to_string(), format!("empty token {:?} at {st}", t.kind)));
                break;
            }
            cat.push_str(&s[st as usize..en as usize]);
            pos = en;
        }
        if bad.is_empty() && (pos as usize != s.len() || cat != s) {
            bad.push(("tile".to_string(), format!("tokens end at {pos}, text length {}", s.len())));
        }
        // parser: lossless
        let p1 = parse(s);
        let root = p1.syntax();
        let text = root.text().to_string();
        if text != s {
            bad.push((
                "text".to_string(),
                format!("tree text differs: {:?} vs input {:?}", clip(&text, 40), clip(s, 40)),
            ));
        }
        // tree tokens tile as well
        let mut pos = 0u32;
        for t in root.descendants_with_tokens().filter_map(|e| e.into_token()) {
            let st: u32 = t.text_range().start().into();
            let en: u32 = t.text_range().end().into();
            if st != pos {
                bad.push(("tile".to_string(), format!("tree token at {st}, expected {pos}")));
                break;
            }
            pos = en;
        }
        for e in p1.errors() {
            let st: u32 = e.range.start().into();
            let en: u32 = e.range.end().into();
            if st > en || en as usize > s.len() {
                bad.push((
                    "errrange".to_string(),
                    format!("error {:?} range {st}..{en} outside text of length {}", e.message, s.len()),
                ));
                break;
            }
        }
        // pure function of the text
        let p2 = parse(s);
        if p1.errors() != p2.errors() || format!("{:?}", p1.syntax()) != format!("{:?}", p2.syntax())
            || p1.syntax().green() != p2.syntax().green()
        {
            bad.push(("nondet".to_string(), "two parses of the same text differ".to_string()));
        }
        bad
    });
    match r {
        Ok(b) => bad.extend(b),
        Err(m) => bad.push(("panic".to_string(), m)),
    }
    bad
}

fn shape_of(s: &str) -> Result<(bool, String), String> {
    catch(|| {
        let p = parse(s);
        let mut out = String::new();
        shape(&p.syntax(), &mut out);
        (p.ok(), out)
    })
}

fn viol(clause: &str, family: &str, detail: &str, case: Value) -> Violation {
    let sig = if clause == "panic" {
        format!("C12/panic/{family}/{}", norm_msg(detail))
    } else {
        format!("C12/{clause}/{family}")
    };
    Violation {
        signature: sig,
        what: format!("{clause}: {detail}"),
        case,
    }
}

pub fn check_case(case: &Value) -> Vec<Violation> {
    let fam = case["family"].as_str().unwrap_or("?").to_string();
    match case["kind"].as_str() {
        Some("parse") => {
            let s = case["text"].as_str().unwrap_or("");
            check_text(s)
                .into_iter()
                .map(|(c, d)| viol(&c, &fam, &d, case.clone()))
                .collect()
        }
        Some("trivia") => {
            let s = case["text"].as_str().unwrap_or("");
            let off = case["offset"].as_u64().unwrap_or(0) as usize;
            let ins = case["ins"].as_str().unwrap_or(" ");
            let mut out = Vec::new();
            let base = match shape_of(s) {
                Ok(b) => b,
                Err(m) => return vec![viol("panic", &fam, &m, case.clone())],
            };
            if !base.0 {
                return out;
            }
            let mut e = String::with_capacity(s.len() + ins.len());
            e.push_str(&s[..off]);
            e.push_str(ins);
            e.push_str(&s[off..]);
            match shape_of(&e) {
                Ok(sh) => {
                    if sh.1 != base.1 || !sh.0 {
                        out.push(viol(
                            "shape",
                            &fam,
                            &format!(
                                "inserting {ins:?} at byte {off} (between two tokens) changes the tree shape or adds errors; context {:?}",
                                clip(&s[off.saturating_sub(20).min(off)..], 40)
                            ),
                            case.clone(),
                        ));
                    }
                }
                Err(m) => out.push(viol("panic", &fam, &m, case.clone())),
            }
            out
        }
        Some("nest") => {
            // executed inside an isolated worker; here (replay) run it in-process on a big stack
            let text = nest_text(case["shape"].as_str().unwrap_or(""), case["depth"].as_u64().unwrap_or(1) as usize);
            let r = on_stack(8 << 20, move || check_text(&text));
            match r {
                Ok(b) => b.into_iter().map(|(c, d)| viol(&c, &fam, &d, case.clone())).collect(),
                Err(m) => vec![viol("panic", &fam, &m, case.clone())],
            }
        }
        _ => Vec::new(),
    }
}

pub const NEST_SHAPES: &[&str] = &[
    "if", "case", "for", "while", "repeat", "paren", "unary", "not", "index", "call", "array",
    "struct", "comment", "elsif", "deref", "field",
];

pub fn nest_text(shape: &str, d: usize) -> String {
    let rep = |a: &str, n: usize| a.repeat(n);
    match shape {
        "if" => format!("PROGRAM P\nVAR x: INT; END_VAR\n{}x := 1;\n{}END_PROGRAM\n", rep("IF x = 0 THEN\n", d), rep("END_IF;\n", d)),
        "case" => format!("PROGRAM P\nVAR x: INT; END_VAR\n{}x := 1;\n{}END_PROGRAM\n", rep("CASE x OF 1:\n", d), rep("END_CASE;\n", d)),
        "for" => format!("PROGRAM P\nVAR x: INT; END_VAR\n{}x := 1;\n{}END_PROGRAM\n", rep("FOR x := 0 TO 1 DO\n", d), rep("END_FOR;\n", d)),
        "while" => format!("PROGRAM P\nVAR x: INT; END_VAR\n{}x := 1;\n{}END_PROGRAM\n", rep("WHILE x = 0 DO\n", d), rep("END_WHILE;\n", d)),
        "repeat" => format!("PROGRAM P\nVAR x: INT; END_VAR\n{}x := 1;\n{}END_PROGRAM\n", rep("REPEAT\n", d), rep("UNTIL x = 0 END_REPEAT;\n", d)),
        "paren" => format!("PROGRAM P\nVAR x: INT; END_VAR\nx := {}1{};\nEND_PROGRAM\n", rep("(", d), rep(")", d)),
        "unary" => format!("PROGRAM P\nVAR x: INT; END_VAR\nx := {}1;\nEND_PROGRAM\n", rep("- ", d)),
        "not" => format!("PROGRAM P\nVAR b: BOOL; END_VAR\nb := {}b;\nEND_PROGRAM\n", rep("NOT ", d)),
        "index" => format!("PROGRAM P\nVAR x: INT; END_VAR\nx := {}0{};\nEND_PROGRAM\n", rep("a[", d), rep("]", d)),
        "call" => format!("PROGRAM P\nVAR x: INT; END_VAR\nx := {}0{};\nEND_PROGRAM\n", rep("f(", d), rep(")", d)),
        "array" => format!("TYPE T : {}INT; END_TYPE\n", rep("ARRAY[0..1] OF ", d)),
        "struct" => format!("TYPE T : {}a: INT;\n{} END_TYPE\n", rep("STRUCT s : ", d), rep("END_STRUCT; ", d)),
        "comment" => format!("PROGRAM P {} x {} END_PROGRAM", rep("(* ", d), rep("*) ", d)),
        "elsif" => format!("PROGRAM P\nVAR x: INT; END_VAR\nIF x = 0 THEN x := 1;\n{}END_IF;\nEND_PROGRAM\n", rep("ELSIF x = 1 THEN x := 2;\n", d)),
        "deref" => format!("PROGRAM P\nVAR x: INT; END_VAR\nx := p{};\nEND_PROGRAM\n", rep("^", d)),
        "field" => format!("PROGRAM P\nVAR x: INT; END_VAR\nx := p{};\nEND_PROGRAM\n", rep(".f", d)),
        _ => String::new(),
    }
}

/// worker: one nesting case
pub fn worker_nest(case: &Value) -> Value {
    let text = nest_text(
        case["shape"].as_str().unwrap_or(""),
        case["depth"].as_u64().unwrap_or(1) as usize,
    );
    let bad = check_text(&text);
    let ok = parse(&text).ok();
    json!({"bad": bad, "error_free": ok})
}

fn soup_text(idx: usize, len: usize, sep: &str) -> String {
    soup_text_over(ALPHABET, idx, len, sep)
}

/// The lexically dangerous core of the alphabet (unterminated strings/comments/pragmas, typed
/// literal prefixes, direct addresses, multi-byte characters, line endings, dots): longer soups
/// (thorough tier) are enumerated over this sub-alphabet only.
const CORE: &[&str] = &[
    "'s", "'s'", "(*", "*)", "//c\n", "{p}", "{", "#", "INT#", "T#1s", "%IX0.0", "é", "😀", "\"w", "16#", "\r\n", "1", "1.5",
    ".", "..", "x", "(", "IF", ";",
];

fn soup_text_over(alphabet: &[&str], mut idx: usize, len: usize, sep: &str) -> String {
    let n = alphabet.len();
    let mut parts = Vec::with_capacity(len);
    for _ in 0..len {
        parts.push(alphabet[idx % n]);
        idx /= n;
    }
    parts.join(sep)
}

pub fn run(ctx: &Ctx) -> EngineResult {
    quiet_panics();
    let mut rep = Report::new("exploration");
    let deadline = Instant::now() + Duration::from_secs(ctx.tier.pick(40, 900));
    let files = crate::corpus::st_files(&ctx.repo_dir);
    if files.len() < 10 {
        return machinery(format!("only {} .st corpus files found under {:?}", files.len(), ctx.repo_dir));
    }
    let stack = 8 << 20;
    let mut evaluations: u64 = 0;
    let mut distinct = std::collections::HashSet::new();
    let mut err_free_texts = 0u64;
    let mut exhaustive = true;

    // (i) token soups, simplest first: length 1..=4 over the whole alphabet, separated by " " and
    // glued; thorough: lengths 5 and 6 over the core sub-alphabet. The soups have their own share of
    // the wall budget so that the families below always run.
    let soup_deadline = Instant::now() + Duration::from_secs(ctx.tier.pick(30, 540));
    let stages: Vec<(&[&str], usize)> = ctx.tier.pick(
        vec![(ALPHABET, 1), (ALPHABET, 2), (ALPHABET, 3), (ALPHABET, 4)],
        vec![(ALPHABET, 1), (ALPHABET, 2), (ALPHABET, 3), (ALPHABET, 4), (CORE, 5), (CORE, 6)],
    );
    for (alphabet, len) in stages {
        let n = alphabet.len();
        let total = n.pow(len as u32);
        let chunk = 2000usize;
        let chunks: Vec<usize> = (0..total.div_ceil(chunk)).collect();
        for sep in [" ", ""] {
            let res = par_map(&chunks, ctx.threads, stack, Some(soup_deadline), |_, &c| {
                let mut v = Vec::new();
                let mut cnt = 0u64;
                for idx in c * chunk..((c + 1) * chunk).min(total) {
                    let text = soup_text_over(alphabet, idx, len, sep);
                    cnt += 1;
                    for (cl, d) in check_text(&text) {
                        v.push(viol(&cl, "soup", &d, json!({"kind":"parse","family":"soup","text":text})));
                    }
                }
                (cnt, v)
            });
            for r in res {
                match r {
                    Some((cnt, v)) => {
                        evaluations += cnt;
                        rep.violations_from(v);
                    }
                    None => exhaustive = false,
                }
            }
        }
        if !exhaustive {
            rep.cap(format!("token soups: wall cap reached at length {len} over {n} tokens"));
            break;
        }
        rep.set("soup_length_completed", len as u64);
        rep.set("soup_alphabet_at_that_length", n as u64);
    }
    rep.sample(json!({"family":"soup","text": soup_text(12345 % ALPHABET.len().pow(3), 3, " ")}));

    eprintln!("[C12] soups done at {:.1}s", ctx.elapsed());
    // (ii) corpus: every char-boundary prefix; every single-token deletion / duplication / swap
    let idxs: Vec<usize> = (0..files.len()).collect();
    let res = par_map(&idxs, ctx.threads, stack, Some(deadline), |_, &fi| {
        let (name, text) = &files[fi];
        let mut v = Vec::new();
        let mut cnt = 0u64;
        let mut texts = std::collections::HashSet::new();
        let mut go = |fam: &str, t: String, v: &mut Vec<Violation>| {
            cnt += 1;
            for (cl, d) in check_text(&t) {
                v.push(viol(&cl, fam, &d, json!({"kind":"parse","family":fam,"file":name,"text":t})));
            }
            texts.insert(hash64(&t));
        };
        go("whole", text.clone(), &mut v);
        for i in 0..text.len() {
            if text.is_char_boundary(i) {
                go("prefix", text[..i].to_string(), &mut v);
            }
        }
        let toks = lex(text);
        let rng = |k: usize| {
            let st: u32 = toks[k].range.start().into();
            let en: u32 = toks[k].range.end().into();
            (st as usize, en as usize)
        };
        for k in 0..toks.len() {
            let (st, en) = rng(k);
            go("del", format!("{}{}", &text[..st], &text[en..]), &mut v);
            go("dup", format!("{}{}{}", &text[..en], &text[st..en], &text[en..]), &mut v);
            if k + 1 < toks.len() {
                let (st2, en2) = rng(k + 1);
                go(
                    "swap",
                    format!("{}{}{}{}", &text[..st], &text[st2..en2], &text[st..en], &text[en2..]),
                    &mut v,
                );
            }
        }
        (cnt, v, texts)
    });
    for r in res {
        match r {
            Some((cnt, v, t)) => {
                evaluations += cnt;
                rep.violations_from(v);
                distinct.extend(t);
            }
            None => {
                exhaustive = false;
                rep.cap("corpus mutations: wall cap reached");
            }
        }
    }
    rep.sample(json!({"family":"prefix","file":files[0].0,"text": clip(&files[0].1, 80)}));

    eprintln!("[C12] corpus mutations done at {:.1}s", ctx.elapsed());
    // (iv) trivia insertion at every token boundary of every error-free corpus file
    let inserts: &[&str] = &[" ", "\n", "(* c *)"];
    let res = par_map(&idxs, ctx.threads, stack, Some(deadline), |_, &fi| {
        let (name, text) = &files[fi];
        let mut v = Vec::new();
        let mut cnt = 0u64;
        let Ok((ok, _)) = shape_of(text) else { return (0, v, false) };
        if !ok {
            return (0, v, false);
        }
        let toks = lex(text);
        for t in toks.iter().skip(1) {
            let off: u32 = t.range.start().into();
            for ins in inserts {
                cnt += 1;
                let case = json!({"kind":"trivia","family":format!("trivia:{}", ins.escape_default()),"file":name,"text":text,"offset":off,"ins":ins});
                v.extend(check_case(&case));
            }
        }
        (cnt, v, true)
    });
    let mut trivia_cases = 0u64;
    for r in res {
        match r {
            Some((cnt, v, ok)) => {
                evaluations += cnt;
                trivia_cases += cnt;
                if ok {
                    err_free_texts += 1;
                }
                rep.violations_from(v);
            }
            None => {
                exhaustive = false;
                rep.cap("trivia insertion: wall cap reached");
            }
        }
    }
    if err_free_texts == 0 && Instant::now() < deadline {
        return machinery("no error-free corpus file: trivia family vacuous");
    }

    eprintln!("[C12] trivia done at {:.1}s", ctx.elapsed());
    // (iii) nesting sweeps in isolated workers (a stack overflow aborts the process)
    // depth lists per shape class; the last entry is the *stated depth* of the claim
    let stmt_depths: Vec<usize> = ctx.tier.pick(vec![1, 2, 8, 32, 64, 128], vec![1, 2, 3, 4, 8, 16, 32, 48, 64, 96, 128, 192, 256]);
    // expression forms behind the parser's MAX_EXPRESSION_DEPTH guard and loop-shaped forms
    let guarded_depths: Vec<usize> = ctx.tier.pick(vec![1, 16, 256, 1023, 1024, 1025, 4096, 100_000], vec![1, 2, 16, 64, 256, 512, 1023, 1024, 1025, 2048, 4096, 20_000, 100_000, 1_000_000]);
    // forms whose error recovery / postfix chains are quadratic in time (measured), kept smaller
    let chain_depths: Vec<usize> = ctx.tier.pick(vec![1, 16, 256, 1023, 1024, 1025, 4096], vec![1, 2, 16, 64, 256, 512, 1023, 1024, 1025, 2048, 4096, 10_000]);
    let mut cases = Vec::new();
    for sh in NEST_SHAPES {
        let depths = match *sh {
            "unary" | "not" | "comment" | "elsif" => &guarded_depths,
            "paren" | "index" | "call" | "deref" | "field" => &chain_depths,
            _ => &stmt_depths,
        };
        for &d in depths {
            cases.push(json!({"kind":"nest","family":format!("nest:{sh}"),"shape":sh,"depth":d}));
        }
    }
    let cfg = iso::PoolCfg {
        worker: "c12_nest",
        procs: ctx.threads,
        rlimit_as: 4 << 30,
        per_case: Duration::from_secs(120),
        deadline: None,
        env: vec![],
        stack: 8 << 20,
    };
    let outs = iso::run_pool(&cfg, &cases).map_err(Machinery)?;
    let mut nest_ok = 0u64;
    for (case, o) in cases.iter().zip(outs) {
        evaluations += 1;
        let fam = case["family"].as_str().unwrap().to_string();
        match o {
            Some(iso::Outcome::Ok(v)) => {
                nest_ok += 1;
                for b in v["bad"].as_array().cloned().unwrap_or_default() {
                    rep.violation(viol(b[0].as_str().unwrap_or("?"), &fam, b[1].as_str().unwrap_or(""), case.clone()));
                }
            }
            Some(iso::Outcome::Panic(m)) => rep.violation(viol("panic", &fam, &m, case.clone())),
            Some(iso::Outcome::Died(m)) => rep.violation(Violation {
                signature: format!("C12/abort/{fam}"),
                what: format!("process died parsing nesting depth {} on an 8 MiB stack: {m}", case["depth"]),
                case: case.clone(),
            }),
            Some(iso::Outcome::Timeout) => rep.violation(Violation {
                signature: format!("C12/hang/{fam}"),
                what: format!("no answer within 120 s at nesting depth {}", case["depth"]),
                case: case.clone(),
            }),
            None => return machinery("nesting case not executed"),
        }
    }
    eprintln!("[C12] nesting done at {:.1}s", ctx.elapsed());
    rep.sample(cases[3].clone());
    rep.set("nesting_cases", cases.len() as u64);
    rep.set("nesting_cases_answered", nest_ok);
    rep.set("stated_depth_statements", *stmt_depths.last().unwrap() as u64);
    rep.set("stated_depth_guarded_expressions", *guarded_depths.last().unwrap() as u64);
    rep.set("stated_depth_postfix_chains", *chain_depths.last().unwrap() as u64);

    rep.set("evaluations", evaluations);
    rep.set("distinct_nontrivial", distinct.len() as u64 + trivia_cases);
    rep.set("rule", "token soups: every sequence of <= L tokens over a fixed alphabet (spaced and glued); corpus: every char-boundary prefix and every single-token deletion/duplication/adjacent swap of every .st file in the repository; trivia: every token boundary x {space,newline,block comment} of every error-free file; nesting: 16 shapes x depth list in isolated processes. distinct_nontrivial = distinct mutated corpus texts (by hash) + trivia-insertion cases; soups are not counted.");
    rep.set("corpus_files", files.len() as u64);
    rep.set("error_free_corpus_files", err_free_texts);
    rep.set("exhaustive", exhaustive);
    rep.assume("nesting totality is claimed only up to the stated depths on an 8 MiB stack");
    Ok(rep)
}

pub fn workers() -> Vec<(&'static str, iso::WorkerFn)> {
    vec![("c12_nest", worker_nest as iso::WorkerFn)]
}

pub fn hash64(s: &str) -> u64 {
    let mut h: u64 = 0xcbf29ce484222325;
    for b in s.bytes() {
        h ^= b as u64;
        h = h.wrapping_mul(0x100000001b3);
    }
    h
}
