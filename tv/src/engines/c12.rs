//! C12 — parsing is total and lossless for every input text (core X1: bounded-exhaustive
//! enumeration of inputs, every one parsed by the real lexer/parser).

use crate::fw::*;
use crate::iso;
use serde_json::{json, Value};
use std::time::{Duration, Instant};
use trust_syntax::lexer::lex;
use trust_syntax::parser::parse;
use trust_syntax::syntax::SyntaxNode;

const ALPHABET: &[&str] = &[
    "PROGRAM", "END_PROGRAM", "VAR", "END_VAR", "IF", "THEN", "ELSE", "END_IF", "CASE", "OF",
    "END_CASE", "FOR", "TO", "DO", "END_FOR", "x", "1", "1.5", "'s", "'s'", ":=", ";", ":", "(",
    ")", "[", "]", ",", ".", "..", "+", "-", "*", "NOT", "(*", "*)", "//c\n", "{p}", "{", "#",
    "INT#", "T#1s", "%IX0.0", "é", "😀", "^", "=>", "FUNCTION", "END_FUNCTION", "INT", "ARRAY",
    "STRUCT", "END_STRUCT", "TYPE", "END_TYPE", "\"w", "16#", "\r\n",
    // invisible / special code points: byte-order mark, no-break space, NUL
    "\u{FEFF}", "\u{A0}", "\0",
];

fn clip(s: &str, n: usize) -> String {
    let mut out: String = s.chars().take(n).collect();
    if s.chars().count() > n {
        out.push('…');
    }
    out
}

fn norm_msg(m: &str) -> String {
    let s: String = m
        .chars()
        .map(|c| if c.is_ascii_digit() { '#' } else { c })
        .collect();
    clip(&s, 60)
}

/// Shape of a tree: kinds of non-trivia nodes and tokens with nesting.
fn shape(node: &SyntaxNode, out: &mut String) {
    use std::fmt::Write;
    let _ = write!(out, "({:?}", node.kind());
    for child in node.children_with_tokens() {
        match child {
            rowan::NodeOrToken::Node(n) => shape(&n, out),
            rowan::NodeOrToken::Token(t) => {
                let k = t.kind();
                let name = format!("{k:?}");
                if matches!(
                    name.as_str(),
                    "Whitespace" | "LineComment" | "BlockComment" | "Pragma"
                ) {
                    continue;
                }
                let _ = write!(out, " {name}");
            }
        }
    }
    out.push(')');
}

/// All total/lossless clauses on one text. Returns (clause, detail).
pub fn check_text(s: &str) -> Vec<(String, String)> {
    let mut bad = Vec::new();
    let r = catch(|| {
        let mut bad = Vec::new();
        // lexer: tokens tile [0,|s|) and concatenate to s
        let toks = lex(s);
        let mut pos = 0u32;
        let mut cat = String::new();
        for t in &toks {
            let st: u32 = t.range.start().into();
            let en: u32 = t.range.end().into();
            if st != pos || en < st || en as usize > s.len() {
                bad.push((
                    "tile".to_string(),
                    format!("token {:?} at {st}..{en}, expected start {pos}", t.kind),
                ));
                break;
            }
            if !s.is_char_boundary(st as usize) || !s.is_char_boundary(en as usize) {
                bad.push(("tile".to_string(), format!("token range {st}..{en} splits a character")));
                break;
            }
            if en == st {
                bad.push(("tile".to_string(), format!("empty token {:?} at {st}", t.kind)));
                break;
            }
            cat.push_str(&s[st as usize..en as usize]);
            pos = en;
        }
        if bad.is_empty() && (pos as usize != s.len() || cat != s) {
            bad.push(("tile".to_string(), format!("tokens end at {pos}, text length {}", s.len())));
        }
        // parser: lossless
        let p1 = parse(s);
        let root = p1.syntax();
        let text = root.text().to_string();
        if text != s {
            bad.push((
                "text".to_string(),
                format!("tree text differs: {:?} vs input {:?}", clip(&text, 40), clip(s, 40)),
            ));
        }
        // tree tokens tile as well
        let mut pos = 0u32;
        for t in root.descendants_with_tokens().filter_map(|e| e.into_token()) {
            let st: u32 = t.text_range().start().into();
            let en: u32 = t.text_range().end().into();
            if st != pos {
                bad.push(("tile".to_string(), format!("tree token at {st}, expected {pos}")));
                break;
            }
            pos = en;
        }
        for e in p1.errors() {
            let st: u32 = e.range.start().into();
            let en: u32 = e.range.end().into();
            if st > en || en as usize > s.len() {
                bad.push((
                    "errrange".to_string(),
                    format!("error {:?} range {st}..{en} outside text of length {}", e.message, s.len()),
                ));
                break;
            }
        }
        // pure function of the text
        let p2 = parse(s);
        if p1.errors() != p2.errors() || format!("{:?}", p1.syntax()) != format!("{:?}", p2.syntax())
            || p1.syntax().green() != p2.syntax().green()
        {
            bad.push(("nondet".to_string(), "two parses of the same text differ".to_string()));
        }
        bad
    });
    match r {
        Ok(b) => bad.extend(b),
        Err(m) => bad.push(("panic".to_string(), m)),
    }
    bad
}

fn shape_of(s: &str) -> Result<(bool, String), String> {
    catch(|| {
        let p = parse(s);
        let mut out = String::new();
        shape(&p.syntax(), &mut out);
        (p.ok(), out)
    })
}

fn viol(clause: &str, family: &str, detail: &str, case: Value) -> Violation {
    let sig = if clause == "panic" {
        format!("C12/panic/{family}/{}", norm_msg(detail))
    } else {
        format!("C12/{clause}/{family}")
    };
    Violation {
        signature: sig,
        what: format!("{clause}: {detail}"),
        case,
    }
}

pub fn check_case(case: &Value) -> Vec<Violation> {
    let fam = case["family"].as_str().unwrap_or("?").to_string();
    match case["kind"].as_str() {
        Some("parse") => {
            let s = case["text"].as_str().unwrap_or("");
            check_text(s)
                .into_iter()
                .map(|(c, d)| viol(&c, &fam, &d, case.clone()))
                .collect()
        }
        Some("trivia") => {
            let s = case["text"].as_str().unwrap_or("");
            let off = case["offset"].as_u64().unwrap_or(0) as usize;
            let ins = case["ins"].as_str().unwrap_or(" ");
            let mut out = Vec::new();
            let base = match shape_of(s) {
                Ok(b) => b,
                Err(m) => return vec![viol("panic", &fam, &m, case.clone())],
            };
            if !base.0 {
                return out;
            }
            let mut e = String::with_capacity(s.len() + ins.len());
            e.push_str(&s[..off]);
            e.push_str(ins);
            e.push_str(&s[off..]);
            match shape_of(&e) {
                Ok(sh) => {
                    if sh.1 != base.1 || !sh.0 {
                        out.push(viol(
                            "shape",
                            &fam,
                            &format!(
                                "inserting {ins:?} at byte {off} (between two tokens) changes the tree shape or adds errors; context {:?}",
                                clip(&s[off.saturating_sub(20).min(off)..], 40)
                            ),
                            case.clone(),
                        ));
                    }
                }
                Err(m) => out.push(viol("panic", &fam, &m, case.clone())),
            }
            out
        }
        Some("nest") => {
            // executed inside an isolated worker; here (replay) run it in-process on a big stack
            let text = nest_text(case["shape"].as_str().unwrap_or(""), case["depth"].as_u64().unwrap_or(1) as usize);
            let r = on_stack(8 << 20, move || check_text(&text));
            match r {
                Ok(b) => b.into_iter().map(|(c, d)| viol(&c, &fam, &d, case.clone())).collect(),
                Err(m) => vec![viol("panic", &fam, &m, case.clone())],
            }
        }
        _ => Vec::new(),
    }
}

pub const NEST_SHAPES: &[&str] = &[
    "if", "case", "for", "while", "repeat", "paren", "unary", "not", "index", "call", "array",
    "struct", "comment", "elsif", "deref", "field",
];

pub fn nest_text(shape: &str, d: usize) -> String {
    let rep = |a: &str, n: usize| a.repeat(n);
    match shape {
        "if" => format!("PROGRAM P\nVAR x: INT; END_VAR\n{}x := 1;\n{}END_PROGRAM\n", rep("IF x = 0 THEN\n", d), rep("END_IF;\n", d)),
        "case" => format!("PROGRAM P\nVAR x: INT; END_VAR\n{}x := 1;\n{}END_PROGRAM\n", rep("CASE x OF 1:\n", d), rep("END_CASE;\n", d)),
        "for" => format!("PROGRAM P\nVAR x: INT; END_VAR\n{}x := 1;\n{}END_PROGRAM\n", rep("FOR x := 0 TO 1 DO\n", d), rep("END_FOR;\n", d)),
        "while" => format!("PROGRAM P\nVAR x: INT; END_VAR\n{}x := 1;\n{}END_PROGRAM\n", rep("WHILE x = 0 DO\n", d), rep("END_WHILE;\n", d)),
        "repeat" => format!("PROGRAM P\nVAR x: INT; END_VAR\n{}x := 1;\n{}END_PROGRAM\n", rep("REPEAT\n", d), rep("UNTIL x = 0 END_REPEAT;\n", d)),
        "paren" => format!("PROGRAM P\nVAR x: INT; END_VAR\nx := {}1{};\nEND_PROGRAM\n", rep("(", d), rep(")", d)),
        "unary" => format!("PROGRAM P\nVAR x: INT; END_VAR\nx := {}1;\nEND_PROGRAM\n", rep("- ", d)),
        "not" => format!("PROGRAM P\nVAR b: BOOL; END_VAR\nb := {}b;\nEND_PROGRAM\n", rep("NOT ", d)),
        "index" => format!("PROGRAM P\nVAR x: INT; END_VAR\nx := {}0{};\nEND_PROGRAM\n", rep("a[", d), rep("]", d)),
        "call" => format!("PROGRAM P\nVAR x: INT; END_VAR\nx := {}0{};\nEND_PROGRAM\n", rep("f(", d), rep(")", d)),
        "array" => format!("TYPE T : {}INT; END_TYPE\n", rep("ARRAY[0..1] OF ", d)),
        "struct" => format!("TYPE T : {}a: INT;\n{} END_TYPE\n", rep("STRUCT s : ", d), rep("END_STRUCT; ", d)),
        "comment" => format!("PROGRAM P {} x {} END_PROGRAM", rep("(* ", d), rep("*) ", d)),
        "elsif" => format!("PROGRAM P\nVAR x: INT; END_VAR\nIF x = 0 THEN x := 1;\n{}END_IF;\nEND_PROGRAM\n", rep("ELSIF x = 1 THEN x := 2;\n", d)),
        "deref" => format!("PROGRAM P\nVAR x: INT; END_VAR\nx := p{};\nEND_PROGRAM\n", rep("^", d)),
        "field" => format!("PROGRAM P\nVAR x: INT; END_VAR\nx := p{};\nEND_PROGRAM\n", rep(".f", d)),
        _ => String::new(),
    }
}

/// worker: one nesting case
pub fn worker_nest(case: &Value) -> Value {
    let text = nest_text(
        case["shape"].as_str().unwrap_or(""),
        case["depth"].as_u64().unwrap_or(1) as usize,
    );
    let bad = check_text(&text);
    let ok = parse(&text).ok();
    json!({"bad": bad, "error_free": ok})
}

fn soup_text(idx: usize, len: usize, sep: &str) -> String {
    soup_text_over(ALPHABET, idx, len, sep)
}

/// The lexically dangerous core of the alphabet (unterminated strings/comments/pragmas, typed
/// literal prefixes, direct addresses, multi-byte characters, line endings, dots): longer soups
/// (thorough tier) are enumerated over this sub-alphabet only.
const CORE: &[&str] = &[
    "'s", "'s'", "(*", "*)", "//c\n", "{p}", "{", "#", "INT#", "T#1s", "%IX0.0", "é", "😀", "\"w", "16#", "\r\n", "1", "1.5",
    ".", "..", "x", "(", "IF", ";", "\u{FEFF}", "\0",
];

fn soup_text_over(alphabet: &[&str], mut idx: usize, len: usize, sep: &str) -> String {
    let n = alphabet.len();
    let mut parts = Vec::with_capacity(len);
    for _ in 0..len {
        parts.push(alphabet[idx % n]);
        idx /= n;
    }
    parts.join(sep)
}

/// The cases of one job, in enumeration order (used by the worker to execute the job and by the
/// explorer to attribute a job that died).
fn job_cases(job: &Value, files: &[(String, String)]) -> Vec<Value> {
    let mut out = Vec::new();
    match job["k"].as_str() {
        Some("soup") => {
            let alphabet = if job["alpha"] == "core" { CORE } else { ALPHABET };
            let len = job["len"].as_u64().unwrap_or(1) as usize;
            let sep = job["sep"].as_str().unwrap_or(" ");
            for idx in job["from"].as_u64().unwrap_or(0) as usize..job["to"].as_u64().unwrap_or(0) as usize {
                out.push(json!({"kind":"parse","family":"soup","text": soup_text_over(alphabet, idx, len, sep)}));
            }
        }
        Some("mut") => {
            let Some((name, text)) = files.get(job["file"].as_u64().unwrap_or(u64::MAX) as usize) else { return out };
            let mut go = |fam: &str, t: String| out.push(json!({"kind":"parse","family":fam,"file":name,"text":t}));
            go("whole", text.clone());
            for i in 0..text.len() {
                if text.is_char_boundary(i) {
                    go("prefix", text[..i].to_string());
                }
            }
            let toks = lex(text);
            let rng = |k: usize| {
                let st: u32 = toks[k].range.start().into();
                let en: u32 = toks[k].range.end().into();
                (st as usize, en as usize)
            };
            for k in 0..toks.len() {
                let (st, en) = rng(k);
                go("del", format!("{}{}", &text[..st], &text[en..]));
                go("dup", format!("{}{}{}", &text[..en], &text[st..en], &text[en..]));
                if k + 1 < toks.len() {
                    let (st2, en2) = rng(k + 1);
                    go("swap", format!("{}{}{}{}", &text[..st], &text[st2..en2], &text[st..en], &text[en2..]));
                }
            }
        }
        Some("trivia") => {
            let Some((name, text)) = files.get(job["file"].as_u64().unwrap_or(u64::MAX) as usize) else { return out };
            let toks = lex(text);
            for t in toks.iter().skip(1) {
                let off: u32 = t.range.start().into();
                for ins in [" ", "\n", "(* c *)"] {
                    out.push(json!({"kind":"trivia","family":format!("trivia:{}", ins.escape_default()),"file":name,"text":text,"offset":off,"ins":ins}));
                }
            }
        }
        _ => {}
    }
    out
}

/// worker: one job (all its cases) or one single case
pub fn worker_job(job: &Value) -> Value {
    use std::sync::OnceLock;
    static FILES: OnceLock<Vec<(String, String)>> = OnceLock::new();
    if job["k"] == "case" {
        let v = check_case(&job["case"]);
        return json!({"cnt": 1, "viol": v.iter().map(|x| json!({"signature": x.signature, "what": x.what, "case": x.case})).collect::<Vec<_>>()});
    }
    let files = FILES.get_or_init(|| {
        let dir = std::env::var("TV_REPO_DIR").unwrap_or_else(|_| "/repo".into());
        crate::corpus::st_files(std::path::Path::new(&dir))
    });
    let mut error_free = false;
    if job["k"] == "trivia" {
        // only error-free files take part (the whole file is parsed first)
        if let Some((_, text)) = files.get(job["file"].as_u64().unwrap_or(u64::MAX) as usize) {
            match shape_of(text) {
                Ok((true, _)) => error_free = true,
                _ => return json!({"cnt": 0, "viol": [], "error_free": false}),
            }
        }
    }
    let mut cnt = 0u64;
    let mut viol: Vec<Value> = Vec::new();
    let mut seen_sig = std::collections::HashSet::new();
    let mut hashes: Vec<u64> = Vec::new();
    let want_hashes = job["k"] == "mut";
    for case in job_cases(job, files) {
        cnt += 1;
        if want_hashes {
            hashes.push(hash64(case["text"].as_str().unwrap_or("")));
        }
        for x in check_case(&case) {
            // the first violation of every signature is enough (enumeration is simplest-first)
            if seen_sig.insert(x.signature.clone()) {
                viol.push(json!({"signature": x.signature, "what": x.what, "case": x.case}));
            }
        }
    }
    hashes.sort_unstable();
    hashes.dedup();
    json!({"cnt": cnt, "viol": viol, "hashes": hashes, "error_free": error_free})
}

pub fn run(ctx: &Ctx) -> EngineResult {
    quiet_panics();
    let mut rep = Report::new("exploration");
    let deadline = Instant::now() + Duration::from_secs(ctx.tier.pick(40, 900));
    let files = crate::corpus::st_files(&ctx.repo_dir);
    if files.len() < 10 {
        return machinery(format!("only {} .st corpus files found under {:?}", files.len(), ctx.repo_dir));
    }
    let mut evaluations: u64 = 0;
    let mut distinct = std::collections::HashSet::new();
    let mut err_free_texts = 0u64;
    let mut exhaustive = true;

    // Families (i), (ii) and (iv) run as JOBS in crash-isolated worker processes (address-space
    // limit, per-job timeout): a parse that never returns or allocates without bound kills one
    // worker, not the explorer. A job that dies or times out is re-run case by case until the first
    // case that does not answer, which is reported (`abort` / `hang`); after a few such deaths the
    // family stops (every further job would pay a full timeout) and the run is not exhaustive.
    let mut deaths = 0usize;
    const MAX_DEATHS: usize = 3;
    let mut run_jobs = |rep: &mut Report, jobs: &[Value], dl: Instant, what: &str, evaluations: &mut u64, distinct: &mut std::collections::HashSet<u64>, ok_files: &mut u64, exhaustive: &mut bool| -> Result<u64, Machinery> {
        let cfg = iso::PoolCfg {
            worker: "c12_job",
            procs: ctx.threads,
            rlimit_as: 3 << 30,
            per_case: Duration::from_secs(60),
            deadline: Some(dl),
            env: vec![("TV_REPO_DIR".into(), ctx.repo_dir.to_string_lossy().to_string())],
            stack: 8 << 20,
        };
        let outs = iso::run_pool(&cfg, jobs).map_err(Machinery)?;
        let mut cases_run = 0u64;
        for (job, o) in jobs.iter().zip(outs) {
            match o {
                Some(iso::Outcome::Ok(v)) => {
                    let cnt = v["cnt"].as_u64().unwrap_or(0);
                    *evaluations += cnt;
                    cases_run += cnt;
                    if v["error_free"].as_bool() == Some(true) {
                        *ok_files += 1;
                    }
                    for h in v["hashes"].as_array().cloned().unwrap_or_default() {
                        distinct.insert(h.as_u64().unwrap_or(0));
                    }
                    for b in v["viol"].as_array().cloned().unwrap_or_default() {
                        rep.violation(Violation {
                            signature: b["signature"].as_str().unwrap_or("C12/?").to_string(),
                            what: b["what"].as_str().unwrap_or("").to_string(),
                            case: b["case"].clone(),
                        });
                    }
                }
                Some(iso::Outcome::Panic(m)) => return Err(Machinery(format!("C12 job worker panicked outside the subject: {m}"))),
                Some(iso::Outcome::Died(_)) | Some(iso::Outcome::Timeout) => {
                    *exhaustive = false;
                    if deaths >= MAX_DEATHS {
                        continue;
                    }
                    deaths += 1;
                    // attribute: one case per request, in order, until the first one that does not answer
                    let single = iso::PoolCfg {
                        worker: "c12_job",
                        procs: 1,
                        rlimit_as: 3 << 30,
                        per_case: Duration::from_secs(15),
                        deadline: None,
                        env: vec![("TV_REPO_DIR".into(), ctx.repo_dir.to_string_lossy().to_string())],
                        stack: 8 << 20,
                    };
                    let mut w = iso::Worker::new(&single);
                    let mut found = false;
                    for case in job_cases(job, &files) {
                        match w.call(&json!({"k": "case", "case": case})).map_err(Machinery)? {
                            iso::Outcome::Ok(_) => {}
                            iso::Outcome::Panic(m) => return Err(Machinery(format!("C12 job worker panicked outside the subject: {m}"))),
                            other => {
                                let fam = case["family"].as_str().unwrap_or("?").to_string();
                                let (clause, detail) = match other {
                                    iso::Outcome::Timeout => ("hang", "no answer within 15 s".to_string()),
                                    iso::Outcome::Died(m) => ("abort", format!("the process died: {}", clip(&m, 160))),
                                    _ => unreachable!(),
                                };
                                rep.violation(Violation {
                                    signature: format!("C12/{clause}/{}", fam.split(':').next().unwrap_or(&fam)),
                                    what: format!("{clause}: parsing {:?} — {detail}", clip(case["text"].as_str().unwrap_or(""), 80)),
                                    case: case.clone(),
                                });
                                found = true;
                                break;
                            }
                        }
                    }
                    if !found {
                        rep.cap(format!("{what}: a job died or timed out as a whole but every one of its cases answered alone (load?)"));
                    }
                }
                None => *exhaustive = false,
            }
        }
        if deaths >= MAX_DEATHS {
            rep.cap(format!("{what}: stopped attributing after {MAX_DEATHS} process deaths / hangs"));
        }
        Ok(cases_run)
    };

    // (i) token soups, simplest first: length 1..=4 over the whole alphabet, separated by " " and
    // glued; thorough: lengths 5 and 6 over the core sub-alphabet. The soups have their own share of
    // the wall budget so that the families below always run.
    let soup_deadline = Instant::now() + Duration::from_secs(ctx.tier.pick(30, 540));
    let stages: Vec<(&str, usize)> = ctx.tier.pick(vec![("full", 1), ("full", 2), ("full", 3), ("full", 4)], vec![("full", 1), ("full", 2), ("full", 3), ("full", 4), ("core", 5), ("core", 6)]);
    let mut unused_ok = 0u64;
    for (alpha, len) in stages {
        let n = if alpha == "full" { ALPHABET.len() } else { CORE.len() };
        let total = n.pow(len as u32);
        let chunk = 20_000usize;
        let mut jobs = Vec::new();
        for sep in [" ", ""] {
            for c in 0..total.div_ceil(chunk) {
                jobs.push(json!({"k": "soup", "alpha": alpha, "len": len, "sep": sep, "from": c * chunk, "to": ((c + 1) * chunk).min(total)}));
            }
        }
        let before = exhaustive;
        run_jobs(&mut rep, &jobs, soup_deadline, "token soups", &mut evaluations, &mut std::collections::HashSet::new(), &mut unused_ok, &mut exhaustive)?;
        if !exhaustive {
            if before {
                rep.cap(format!("token soups: not complete at length {len} over {n} tokens (wall cap or process deaths)"));
            }
            break;
        }
        rep.set("soup_length_completed", len as u64);
        rep.set("soup_alphabet_at_that_length", n as u64);
    }
    rep.sample(json!({"family":"soup","text": soup_text(12345 % ALPHABET.len().pow(3), 3, " ")}));

    eprintln!("[C12] soups done at {:.1}s", ctx.elapsed());
    // (ii) corpus: every char-boundary prefix; every single-token deletion / duplication / swap
    let jobs: Vec<Value> = (0..files.len()).map(|fi| json!({"k": "mut", "file": fi})).collect();
    let before = exhaustive;
    run_jobs(&mut rep, &jobs, deadline, "corpus mutations", &mut evaluations, &mut distinct, &mut unused_ok, &mut exhaustive)?;
    if before && !exhaustive {
        rep.cap("corpus mutations: not complete (wall cap or process deaths)");
    }
    rep.sample(json!({"family":"prefix","file":files[0].0,"text": clip(&files[0].1, 80)}));

    eprintln!("[C12] corpus mutations done at {:.1}s", ctx.elapsed());
    // (iv) trivia insertion at every token boundary of every error-free corpus file
    let jobs: Vec<Value> = (0..files.len()).map(|fi| json!({"k": "trivia", "file": fi})).collect();
    let before = exhaustive;
    let trivia_cases = run_jobs(&mut rep, &jobs, deadline, "trivia insertion", &mut evaluations, &mut std::collections::HashSet::new(), &mut err_free_texts, &mut exhaustive)?;
    if before && !exhaustive {
        rep.cap("trivia insertion: not complete (wall cap or process deaths)");
    }
    if err_free_texts == 0 && exhaustive {
        return machinery("no error-free corpus file: trivia family vacuous");
    }

    eprintln!("[C12] trivia done at {:.1}s", ctx.elapsed());
    // (iii) nesting sweeps in isolated workers (a stack overflow aborts the process)
    // depth lists per shape class; the last entry is the *stated depth* of the claim
    let stmt_depths: Vec<usize> = ctx.tier.pick(vec![1, 2, 8, 32, 64, 128], vec![1, 2, 3, 4, 8, 16, 32, 48, 64, 96, 128, 192, 256]);
    // expression forms behind the parser's MAX_EXPRESSION_DEPTH guard and loop-shaped forms
    let guarded_depths: Vec<usize> = ctx.tier.pick(vec![1, 16, 256, 1023, 1024, 1025, 4096, 100_000], vec![1, 2, 16, 64, 256, 512, 1023, 1024, 1025, 2048, 4096, 20_000, 100_000, 1_000_000]);
    // forms whose error recovery / postfix chains are quadratic in time (measured), kept smaller
    let chain_depths: Vec<usize> = ctx.tier.pick(vec![1, 16, 256, 1023, 1024, 1025, 4096], vec![1, 2, 16, 64, 256, 512, 1023, 1024, 1025, 2048, 4096, 10_000]);
    let mut cases = Vec::new();
    for sh in NEST_SHAPES {
        let depths = match *sh {
            "unary" | "not" | "comment" | "elsif" => &guarded_depths,
            "paren" | "index" | "call" | "deref" | "field" => &chain_depths,
            _ => &stmt_depths,
        };
        for &d in depths {
            cases.push(json!({"kind":"nest","family":format!("nest:{sh}"),"shape":sh,"depth":d}));
        }
    }
    let cfg = iso::PoolCfg {
        worker: "c12_nest",
        procs: ctx.threads,
        rlimit_as: 4 << 30,
        per_case: Duration::from_secs(120),
        deadline: None,
        env: vec![],
        stack: 8 << 20,
    };
    let outs = iso::run_pool(&cfg, &cases).map_err(Machinery)?;
    let mut nest_ok = 0u64;
    for (case, o) in cases.iter().zip(outs) {
        evaluations += 1;
        let fam = case["family"].as_str().unwrap().to_string();
        match o {
            Some(iso::Outcome::Ok(v)) => {
                nest_ok += 1;
                for b in v["bad"].as_array().cloned().unwrap_or_default() {
                    rep.violation(viol(b[0].as_str().unwrap_or("?"), &fam, b[1].as_str().unwrap_or(""), case.clone()));
                }
            }
            Some(iso::Outcome::Panic(m)) => rep.violation(viol("panic", &fam, &m, case.clone())),
            Some(iso::Outcome::Died(m)) => rep.violation(Violation {
                signature: format!("C12/abort/{fam}"),
                what: format!("process died parsing nesting depth {} on an 8 MiB stack: {m}", case["depth"]),
                case: case.clone(),
            }),
            Some(iso::Outcome::Timeout) => rep.violation(Violation {
                signature: format!("C12/hang/{fam}"),
                what: format!("no answer within 120 s at nesting depth {}", case["depth"]),
                case: case.clone(),
            }),
            None => return machinery("nesting case not executed"),
        }
    }
    eprintln!("[C12] nesting done at {:.1}s", ctx.elapsed());
    rep.sample(cases[3].clone());
    rep.set("nesting_cases", cases.len() as u64);
    rep.set("nesting_cases_answered", nest_ok);
    rep.set("stated_depth_statements", *stmt_depths.last().unwrap() as u64);
    rep.set("stated_depth_guarded_expressions", *guarded_depths.last().unwrap() as u64);
    rep.set("stated_depth_postfix_chains", *chain_depths.last().unwrap() as u64);

    rep.set("evaluations", evaluations);
    rep.set("distinct_nontrivial", distinct.len() as u64 + trivia_cases);
    rep.set("rule", "token soups: every sequence of <= L tokens over a fixed alphabet (spaced and glued); corpus: every char-boundary prefix and every single-token deletion/duplication/adjacent swap of every .st file in the repository; trivia: every token boundary x {space,newline,block comment} of every error-free file; nesting: 16 shapes x depth list in isolated processes. distinct_nontrivial = distinct mutated corpus texts (by hash) + trivia-insertion cases; soups are not counted.");
    rep.set("corpus_files", files.len() as u64);
    rep.set("error_free_corpus_files", err_free_texts);
    rep.set("exhaustive", exhaustive);
    rep.assume("nesting totality is claimed only up to the stated depths on an 8 MiB stack");
    Ok(rep)
}

pub fn workers() -> Vec<(&'static str, iso::WorkerFn)> {
    vec![("c12_nest", worker_nest as iso::WorkerFn), ("c12_job", worker_job as iso::WorkerFn)]
}

pub fn hash64(s: &str) -> u64 {
    let mut h: u64 = 0xcbf29ce484222325;
    for b in s.bytes() {
        h ^= b as u64;
        h = h.wrapping_mul(0x100000001b3);
    }
    h
}
