//! C10 — retain file: lossless codec and crash-atomic save (cores X1 + X4, level fault_enumeration).
//!
//! Three families, all driven through the real `FileRetainStore` of `/repo`:
//!  1. codec     – every retainable value shape to nesting depth 2 (all 31 tags x boundary payloads):
//!                 `load(store(s)) == s` (floats compared by bits, maps by name).
//!  2. crash     – for each (s_old, s_new) pair, `store(s_new)` runs in a child process under the
//!                 LD_PRELOAD shim `tv/envshim/shim.c`; the child is killed before every intercepted
//!                 call and inside every write at every byte length; afterwards the real `load()` must
//!                 give s_old or s_new in full, and `store(s3); load()` must still work.
//!  3. decode    – byte substitutions / truncations / 4-byte windows on ~20 base images and hand-encoded
//!                 nesting sweeps, each in an `iso` worker under RLIMIT_AS: outcome must be Ok or Err.
//!
//! Left out on purpose (statement does not speak about it): page-cache loss / power failure, store() of
//! snapshots that contain Reference/Instance values (not retainable), the order of map entries after a
//! round trip (the subject's own equality is order-insensitive; order changes are only counted).

use crate::fw::*;
use crate::iso;
use crate::par::par_map;
use serde_json::{json, Value as J};
use smol_str::SmolStr;
use std::collections::{BTreeMap, BTreeSet, HashMap, HashSet};
use std::path::{Path, PathBuf};
use std::sync::atomic::{AtomicU64, Ordering};
use std::time::{Duration as StdDuration, Instant};
use trust_runtime::retain::{FileRetainStore, RetainStore};
use trust_runtime::value::{
    ArrayValue, DateTimeValue, DateValue, Duration, EnumValue, LDateTimeValue, LDateValue,
    LTimeOfDayValue, StructValue, TimeOfDayValue, Value,
};
use trust_runtime::RetainSnapshot;

/// A snapshot as the engine sees it: ordered list of (unique name, value).
type Snap = Vec<(String, Value)>;

fn to_snapshot(s: &Snap) -> RetainSnapshot {
    let mut out = RetainSnapshot::default();
    for (n, v) in s {
        out.insert(n.as_str(), v.clone());
    }
    out
}

fn tag(v: &Value) -> &'static str {
    match v {
        Value::Bool(_) => "Bool",
        Value::SInt(_) => "SInt",
        Value::Int(_) => "Int",
        Value::DInt(_) => "DInt",
        Value::LInt(_) => "LInt",
        Value::USInt(_) => "USInt",
        Value::UInt(_) => "UInt",
        Value::UDInt(_) => "UDInt",
        Value::ULInt(_) => "ULInt",
        Value::Real(_) => "Real",
        Value::LReal(_) => "LReal",
        Value::Byte(_) => "Byte",
        Value::Word(_) => "Word",
        Value::DWord(_) => "DWord",
        Value::LWord(_) => "LWord",
        Value::Time(_) => "Time",
        Value::LTime(_) => "LTime",
        Value::Date(_) => "Date",
        Value::LDate(_) => "LDate",
        Value::Tod(_) => "Tod",
        Value::LTod(_) => "LTod",
        Value::Dt(_) => "Dt",
        Value::Ldt(_) => "Ldt",
        Value::String(_) => "String",
        Value::WString(_) => "WString",
        Value::Char(_) => "Char",
        Value::WChar(_) => "WChar",
        Value::Array(_) => "Array",
        Value::Struct(_) => "Struct",
        Value::Enum(_) => "Enum",
        Value::Null => "Null",
        Value::Reference(_) => "Reference",
        Value::Instance(_) => "Instance",
    }
}

// ------------------------------------------------------------------------------------------------
// JSON form of values (self-contained replay cases). Floats are stored as bit patterns.

fn vj(v: &Value) -> J {
    let t = tag(v);
    match v {
        Value::Bool(x) => json!({"t": t, "v": x}),
        Value::SInt(x) => json!({"t": t, "v": x}),
        Value::Int(x) => json!({"t": t, "v": x}),
        Value::DInt(x) => json!({"t": t, "v": x}),
        Value::LInt(x) => json!({"t": t, "v": x}),
        Value::USInt(x) | Value::Byte(x) | Value::Char(x) => json!({"t": t, "v": x}),
        Value::UInt(x) | Value::Word(x) | Value::WChar(x) => json!({"t": t, "v": x}),
        Value::UDInt(x) | Value::DWord(x) => json!({"t": t, "v": x}),
        Value::ULInt(x) | Value::LWord(x) => json!({"t": t, "v": x}),
        Value::Real(x) => json!({"t": t, "bits": x.to_bits()}),
        Value::LReal(x) => json!({"t": t, "bits": x.to_bits()}),
        Value::Time(d) | Value::LTime(d) => json!({"t": t, "v": d.as_nanos()}),
        Value::Date(d) => json!({"t": t, "v": d.ticks()}),
        Value::LDate(d) => json!({"t": t, "v": d.nanos()}),
        Value::Tod(d) => json!({"t": t, "v": d.ticks()}),
        Value::LTod(d) => json!({"t": t, "v": d.nanos()}),
        Value::Dt(d) => json!({"t": t, "v": d.ticks()}),
        Value::Ldt(d) => json!({"t": t, "v": d.nanos()}),
        Value::String(s) => json!({"t": t, "v": s.as_str()}),
        Value::WString(s) => json!({"t": t, "v": s}),
        Value::Array(a) => json!({
            "t": t,
            "dims": a.dimensions.iter().map(|(l, u)| json!([l, u])).collect::<Vec<_>>(),
            "e": a.elements.iter().map(vj).collect::<Vec<_>>(),
        }),
        Value::Struct(s) => json!({
            "t": t,
            "n": s.type_name.as_str(),
            "f": s.fields.iter().map(|(k, v)| json!([k.as_str(), vj(v)])).collect::<Vec<_>>(),
        }),
        Value::Enum(e) => json!({"t": t, "n": e.type_name.as_str(), "var": e.variant_name.as_str(), "v": e.numeric_value}),
        Value::Null => json!({"t": t}),
        Value::Reference(_) | Value::Instance(_) => json!({"t": t}),
    }
}

fn jv(j: &J) -> Option<Value> {
    let i = || j["v"].as_i64();
    let u = || j["v"].as_u64();
    Some(match j["t"].as_str()? {
        "Bool" => Value::Bool(j["v"].as_bool()?),
        "SInt" => Value::SInt(i()? as i8),
        "Int" => Value::Int(i()? as i16),
        "DInt" => Value::DInt(i()? as i32),
        "LInt" => Value::LInt(i()?),
        "USInt" => Value::USInt(u()? as u8),
        "UInt" => Value::UInt(u()? as u16),
        "UDInt" => Value::UDInt(u()? as u32),
        "ULInt" => Value::ULInt(u()?),
        "Real" => Value::Real(f32::from_bits(j["bits"].as_u64()? as u32)),
        "LReal" => Value::LReal(f64::from_bits(j["bits"].as_u64()?)),
        "Byte" => Value::Byte(u()? as u8),
        "Word" => Value::Word(u()? as u16),
        "DWord" => Value::DWord(u()? as u32),
        "LWord" => Value::LWord(u()?),
        "Time" => Value::Time(Duration::from_nanos(i()?)),
        "LTime" => Value::LTime(Duration::from_nanos(i()?)),
        "Date" => Value::Date(DateValue::new(i()?)),
        "LDate" => Value::LDate(LDateValue::new(i()?)),
        "Tod" => Value::Tod(TimeOfDayValue::new(i()?)),
        "LTod" => Value::LTod(LTimeOfDayValue::new(i()?)),
        "Dt" => Value::Dt(DateTimeValue::new(i()?)),
        "Ldt" => Value::Ldt(LDateTimeValue::new(i()?)),
        "String" => Value::String(SmolStr::new(j["v"].as_str()?)),
        "WString" => Value::WString(j["v"].as_str()?.to_string()),
        "Char" => Value::Char(u()? as u8),
        "WChar" => Value::WChar(u()? as u16),
        "Array" => {
            let mut dimensions = Vec::new();
            for d in j["dims"].as_array()? {
                dimensions.push((d[0].as_i64()?, d[1].as_i64()?));
            }
            let mut elements = Vec::new();
            for e in j["e"].as_array()? {
                elements.push(jv(e)?);
            }
            Value::Array(ArrayValue { elements, dimensions })
        }
        "Struct" => {
            let mut fields = indexmap::IndexMap::new();
            for f in j["f"].as_array()? {
                fields.insert(SmolStr::new(f[0].as_str()?), jv(&f[1])?);
            }
            Value::Struct(StructValue { type_name: SmolStr::new(j["n"].as_str()?), fields })
        }
        "Enum" => Value::Enum(EnumValue {
            type_name: SmolStr::new(j["n"].as_str()?),
            variant_name: SmolStr::new(j["var"].as_str()?),
            numeric_value: i()?,
        }),
        "Null" => Value::Null,
        _ => return None,
    })
}

fn sj(s: &Snap) -> J {
    J::Array(s.iter().map(|(n, v)| json!([n, vj(v)])).collect())
}

fn js(j: &J) -> Option<Snap> {
    let mut out = Vec::new();
    for e in j.as_array()? {
        out.push((e[0].as_str()?.to_string(), jv(&e[1])?));
    }
    Some(out)
}

fn snapshot_to_snap(s: &RetainSnapshot) -> Snap {
    s.values().iter().map(|(k, v)| (k.to_string(), v.clone())).collect()
}

// ------------------------------------------------------------------------------------------------
// Comparison (the codec oracle): bitwise for floats, by name for maps.

fn sint_feat(x: i64, min: i64, max: i64) -> &'static str {
    if x == min {
        "min"
    } else if x == max {
        "max"
    } else if x < 0 {
        "neg"
    } else if x == 0 {
        "zero"
    } else {
        "pos"
    }
}

fn uint_feat(x: u64, max: u64) -> &'static str {
    if x == 0 {
        "zero"
    } else if x == max {
        "max"
    } else {
        "other"
    }
}

fn str_feat(s: &str) -> &'static str {
    if s.is_empty() {
        "empty"
    } else if s.contains('\0') {
        "nul"
    } else if !s.is_ascii() {
        "non-ascii"
    } else if s.len() >= 24 {
        "long"
    } else {
        "ascii"
    }
}

/// Payload class of a leaf (part of the signature of a codec mismatch).
fn feat(v: &Value) -> &'static str {
    match v {
        Value::SInt(x) => sint_feat(*x as i64, i8::MIN as i64, i8::MAX as i64),
        Value::Int(x) => sint_feat(*x as i64, i16::MIN as i64, i16::MAX as i64),
        Value::DInt(x) => sint_feat(*x as i64, i32::MIN as i64, i32::MAX as i64),
        Value::LInt(x) => sint_feat(*x, i64::MIN, i64::MAX),
        Value::USInt(x) | Value::Byte(x) | Value::Char(x) => uint_feat(*x as u64, u8::MAX as u64),
        Value::UInt(x) | Value::Word(x) | Value::WChar(x) => uint_feat(*x as u64, u16::MAX as u64),
        Value::UDInt(x) | Value::DWord(x) => uint_feat(*x as u64, u32::MAX as u64),
        Value::ULInt(x) | Value::LWord(x) => uint_feat(*x, u64::MAX),
        Value::Real(x) => float_feat(x.is_nan(), x.is_infinite(), *x == 0.0, x.is_subnormal()),
        Value::LReal(x) => float_feat(x.is_nan(), x.is_infinite(), *x == 0.0, x.is_subnormal()),
        Value::Time(d) | Value::LTime(d) => sint_feat(d.as_nanos(), i64::MIN, i64::MAX),
        Value::Date(d) => sint_feat(d.ticks(), i64::MIN, i64::MAX),
        Value::LDate(d) => sint_feat(d.nanos(), i64::MIN, i64::MAX),
        Value::Tod(d) => sint_feat(d.ticks(), i64::MIN, i64::MAX),
        Value::LTod(d) => sint_feat(d.nanos(), i64::MIN, i64::MAX),
        Value::Dt(d) => sint_feat(d.ticks(), i64::MIN, i64::MAX),
        Value::Ldt(d) => sint_feat(d.nanos(), i64::MIN, i64::MAX),
        Value::String(s) => str_feat(s.as_str()),
        Value::WString(s) => str_feat(s),
        _ => "any",
    }
}

fn float_feat(nan: bool, inf: bool, zero: bool, sub: bool) -> &'static str {
    if nan {
        "nan"
    } else if inf {
        "inf"
    } else if zero {
        "zero"
    } else if sub {
        "subnormal"
    } else {
        "normal"
    }
}

struct Diff {
    /// where (path of names / indices)
    path: String,
    /// cause features for the signature, e.g. `Real:nan`, `Array:dims`
    sig: String,
    detail: String,
}

fn clip(s: &str, n: usize) -> String {
    let mut out: String = s.chars().take(n).collect();
    if s.chars().count() > n {
        out.push('…');
    }
    out
}

fn diff_value(exp: &Value, got: &Value, path: &str) -> Option<Diff> {
    let mk = |sig: String, detail: String| Some(Diff { path: path.to_string(), sig, detail });
    if tag(exp) != tag(got) {
        return mk(format!("{}:tag-changed", tag(exp)), format!("stored a {} but loaded a {}", tag(exp), tag(got)));
    }
    match (exp, got) {
        (Value::Real(a), Value::Real(b)) => {
            if a.to_bits() != b.to_bits() {
                return mk(format!("Real:{}", feat(exp)), format!("stored bits {:#010x}, loaded {:#010x}", a.to_bits(), b.to_bits()));
            }
            None
        }
        (Value::LReal(a), Value::LReal(b)) => {
            if a.to_bits() != b.to_bits() {
                return mk(format!("LReal:{}", feat(exp)), format!("stored bits {:#018x}, loaded {:#018x}", a.to_bits(), b.to_bits()));
            }
            None
        }
        (Value::Array(a), Value::Array(b)) => {
            if a.dimensions != b.dimensions {
                return mk("Array:dims".into(), format!("stored dimensions {:?}, loaded {:?}", a.dimensions, b.dimensions));
            }
            if a.elements.len() != b.elements.len() {
                return mk("Array:len".into(), format!("stored {} elements, loaded {}", a.elements.len(), b.elements.len()));
            }
            for (i, (x, y)) in a.elements.iter().zip(&b.elements).enumerate() {
                if let Some(d) = diff_value(x, y, &format!("{path}[{i}]")) {
                    return Some(d);
                }
            }
            None
        }
        (Value::Struct(a), Value::Struct(b)) => {
            if a.type_name != b.type_name {
                return mk(format!("Struct:type-name:{}", str_feat(a.type_name.as_str())), format!("stored type name {:?}, loaded {:?}", clip(a.type_name.as_str(), 30), clip(b.type_name.as_str(), 30)));
            }
            if a.fields.len() != b.fields.len() {
                return mk("Struct:field-count".into(), format!("stored {} fields, loaded {}", a.fields.len(), b.fields.len()));
            }
            for (k, x) in &a.fields {
                match b.fields.get(k) {
                    None => return mk(format!("Struct:field-name:{}", str_feat(k.as_str())), format!("field {:?} missing after load", clip(k.as_str(), 30))),
                    Some(y) => {
                        if let Some(d) = diff_value(x, y, &format!("{path}.{}", clip(k.as_str(), 12))) {
                            return Some(d);
                        }
                    }
                }
            }
            None
        }
        _ => {
            if exp != got {
                return mk(format!("{}:{}", tag(exp), feat(exp)), format!("stored {}, loaded {}", clip(&vj(exp).to_string(), 80), clip(&vj(got).to_string(), 80)));
            }
            None
        }
    }
}

fn diff_snap(exp: &Snap, got: &RetainSnapshot) -> Option<Diff> {
    let g = got.values();
    if exp.len() != g.len() {
        return Some(Diff { path: String::new(), sig: "snapshot:count".into(), detail: format!("stored {} entries, loaded {}", exp.len(), g.len()) });
    }
    for (n, v) in exp {
        match g.get(n.as_str()) {
            None => {
                return Some(Diff { path: String::new(), sig: format!("snapshot:name:{}", str_feat(n)), detail: format!("entry {:?} missing after load", clip(n, 30)) })
            }
            Some(y) => {
                if let Some(d) = diff_value(v, y, &clip(n, 12)) {
                    return Some(d);
                }
            }
        }
    }
    None
}

fn same_snap(exp: &Snap, got: &RetainSnapshot) -> bool {
    diff_snap(exp, got).is_none()
}

fn order_kept(exp: &Snap, got: &RetainSnapshot) -> bool {
    exp.iter().map(|(n, _)| n.as_str()).eq(got.values().keys().map(|k| k.as_str()))
}

fn norm_msg(m: &str) -> String {
    // drop quoted segments (paths) and digits: signatures must not vary between runs
    let mut out = String::new();
    let mut in_q = false;
    for c in m.chars() {
        if c == '"' {
            in_q = !in_q;
            if in_q {
                out.push_str("\"…\"");
            }
            continue;
        }
        if in_q {
            continue;
        }
        if c.is_ascii_digit() {
            // a run of digits becomes one '#'
            if !out.ends_with('#') {
                out.push('#');
            }
        } else {
            out.push(c);
        }
    }
    clip(&out, 60)
}

fn hash64(b: &[u8]) -> u64 {
    let mut h: u64 = 0xcbf29ce484222325;
    for x in b {
        h ^= *x as u64;
        h = h.wrapping_mul(0x100000001b3);
    }
    h
}

fn hex(b: &[u8]) -> String {
    let mut s = String::with_capacity(b.len() * 2);
    for x in b {
        s.push_str(&format!("{x:02x}"));
    }
    s
}

fn unhex(s: &str) -> Option<Vec<u8>> {
    if s.len() % 2 != 0 {
        return None;
    }
    (0..s.len() / 2).map(|i| u8::from_str_radix(s.get(2 * i..2 * i + 2)?, 16).ok()).collect()
}

// ------------------------------------------------------------------------------------------------
// Family 1: the value alphabet.
// Not in the alphabet: duplicate struct field names / duplicate snapshot names (both containers are
// IndexMaps, so they cannot be constructed through the API); Reference/Instance (not retainable).

fn arr(elements: Vec<Value>, dimensions: Vec<(i64, i64)>) -> Value {
    Value::Array(ArrayValue { elements, dimensions })
}

fn st(type_name: &str, fields: Vec<(&str, Value)>) -> Value {
    Value::Struct(StructValue {
        type_name: SmolStr::new(type_name),
        fields: fields.into_iter().map(|(k, v)| (SmolStr::new(k), v)).collect(),
    })
}

fn en(t: &str, v: &str, n: i64) -> Value {
    Value::Enum(EnumValue { type_name: SmolStr::new(t), variant_name: SmolStr::new(v), numeric_value: n })
}

fn strings() -> Vec<String> {
    vec![
        String::new(),
        "a".into(),
        "\0".into(),
        "é".into(),
        "😀".into(),
        "a\u{301}\u{200d}z".into(),
        "x".repeat(23), // SmolStr inline limit
        "x".repeat(24),
        "y".repeat(255),
        "y".repeat(256),
        "STRN\u{1}\0\0\0".into(), // looks like a file header
        "é".repeat(300),
    ]
}

/// Depth 0: every tag x boundary payloads.
fn leaves() -> Vec<Value> {
    let mut v = Vec::new();
    v.extend([false, true].map(Value::Bool));
    v.extend([i8::MIN, -1, 0, 1, i8::MAX].map(Value::SInt));
    v.extend([i16::MIN, -1, 0, 1, 0x0102, i16::MAX].map(Value::Int));
    v.extend([i32::MIN, -1, 0, 1, 0x01020304, i32::MAX].map(Value::DInt));
    v.extend([i64::MIN, -1, 0, 1, 0x0102030405060708, i64::MAX].map(Value::LInt));
    v.extend([0, 1, 0x80, u8::MAX].map(Value::USInt));
    v.extend([0, 1, 0x8000, 0x0102, u16::MAX].map(Value::UInt));
    v.extend([0, 1, 0x8000_0000, 0x01020304, u32::MAX].map(Value::UDInt));
    v.extend([0, 1, 0x8000_0000_0000_0000, 0x0102030405060708, u64::MAX].map(Value::ULInt));
    let f32s: [u32; 12] = [
        0, 0x8000_0000, 0x3fc0_0000, 0x0000_0001, 0x7f7f_ffff, 0xff7f_ffff, 0x7f80_0000, 0xff80_0000,
        0x7fc0_0000, 0x7f80_0001, 0xffff_ffff, 0x7fa0_0000,
    ];
    v.extend(f32s.map(|b| Value::Real(f32::from_bits(b))));
    let f64s: [u64; 12] = [
        0, 0x8000_0000_0000_0000, 0x3ff8_0000_0000_0000, 1, 0x7fef_ffff_ffff_ffff, 0xffef_ffff_ffff_ffff,
        0x7ff0_0000_0000_0000, 0xfff0_0000_0000_0000, 0x7ff8_0000_0000_0000, 0x7ff0_0000_0000_0001,
        0xffff_ffff_ffff_ffff, 0x7ff4_0000_0000_0000,
    ];
    v.extend(f64s.map(|b| Value::LReal(f64::from_bits(b))));
    v.extend([0, 1, 0x80, u8::MAX].map(Value::Byte));
    v.extend([0, 1, 0x8000, u16::MAX].map(Value::Word));
    v.extend([0, 1, 0x8000_0000, u32::MAX].map(Value::DWord));
    v.extend([0, 1, 0x8000_0000_0000_0000, u64::MAX].map(Value::LWord));
    let t64 = [i64::MIN, -1, 0, 1, 1_000_000_000, i64::MAX];
    v.extend(t64.map(|n| Value::Time(Duration::from_nanos(n))));
    v.extend(t64.map(|n| Value::LTime(Duration::from_nanos(n))));
    v.extend(t64.map(|n| Value::Date(DateValue::new(n))));
    v.extend(t64.map(|n| Value::LDate(LDateValue::new(n))));
    v.extend(t64.map(|n| Value::Tod(TimeOfDayValue::new(n))));
    v.extend(t64.map(|n| Value::LTod(LTimeOfDayValue::new(n))));
    v.extend(t64.map(|n| Value::Dt(DateTimeValue::new(n))));
    v.extend(t64.map(|n| Value::Ldt(LDateTimeValue::new(n))));
    for s in strings() {
        v.push(Value::String(SmolStr::new(&s)));
    }
    for s in strings() {
        v.push(Value::WString(s));
    }
    v.extend([0, 0x41, 0x7f, 0x80, 0xff].map(Value::Char));
    v.extend([0, 0x41, 0xd800, 0xdfff, 0xffff].map(Value::WChar));
    v.push(en("", "", 0));
    v.push(en("Color", "Red", 1));
    v.push(en("É", "😀", i64::MIN));
    v.push(en("T", "V", i64::MAX));
    v.push(en("T", "V", -1));
    v.push(Value::Null);
    v
}

/// One non-trivial representative per tag (the second leaf of each tag group if there is one).
fn reps(leaves: &[Value]) -> Vec<Value> {
    let mut out: Vec<Value> = Vec::new();
    let mut i = 0;
    while i < leaves.len() {
        let t = tag(&leaves[i]);
        let mut j = i;
        while j < leaves.len() && tag(&leaves[j]) == t {
            j += 1;
        }
        out.push(leaves[(i + 1).min(j - 1)].clone());
        i = j;
    }
    out
}

/// Depth-1 containers over the leaves `l` (every leaf once) and pairs over `p`.
fn containers(l: &[Value], p: &[Value]) -> Vec<Value> {
    let mut v = Vec::new();
    for dims in [vec![], vec![(0, -1)], vec![(1, 0)], vec![(i64::MIN, i64::MAX)], vec![(0, 0), (0, 0)]] {
        v.push(arr(vec![], dims));
    }
    for tn in ["", "T", "Ünï😀"] {
        v.push(st(tn, vec![]));
    }
    for x in l {
        v.push(arr(vec![x.clone()], vec![(0, 0)]));
        v.push(arr(vec![x.clone(), x.clone()], vec![(1, 2)]));
        v.push(st("T", vec![("f", x.clone())]));
    }
    for x in p {
        v.push(arr(vec![x.clone(); 3], vec![(0, 0), (-1, 1)]));
        v.push(arr(vec![x.clone()], vec![]));
        v.push(st("", vec![("", x.clone())]));
        v.push(st("Ünï😀", vec![("é", x.clone())]));
        v.push(st("T", vec![("a", x.clone()), ("A", x.clone())]));
        for y in p {
            v.push(arr(vec![x.clone(), y.clone()], vec![(0, 1)]));
            v.push(st("T", vec![("a", x.clone()), ("b", y.clone())]));
        }
    }
    v
}

/// Small set of depth-1 containers used as elements of depth-2 pairs.
fn container_reps(r: &[Value]) -> Vec<Value> {
    let mut v = vec![arr(vec![], vec![]), st("T", vec![])];
    for x in r {
        v.push(arr(vec![x.clone()], vec![(0, 0)]));
        v.push(st("T", vec![("f", x.clone())]));
    }
    v
}

fn nest_depth(v: &Value) -> usize {
    match v {
        Value::Array(a) => 1 + a.elements.iter().map(nest_depth).max().unwrap_or(0),
        Value::Struct(s) => 1 + s.fields.values().map(nest_depth).max().unwrap_or(0),
        _ => 0,
    }
}

/// The whole family-1 space, simplest first.
fn codec_snapshots(thorough: bool) -> Vec<Snap> {
    let l = leaves();
    let r = reps(&l);
    let pairs: &[Value] = if thorough { &l } else { &r };
    let d1 = containers(&l, pairs);
    let d1r = container_reps(&r);
    let mut vals: Vec<Value> = Vec::new();
    vals.extend(l.iter().cloned());
    vals.extend(d1.iter().cloned());
    // depth 2: every depth-1 container once inside an array and inside a struct, pairs over the reps,
    // and mixed-depth pairs
    for d in &d1 {
        vals.push(arr(vec![d.clone()], vec![(0, 0)]));
        vals.push(st("T", vec![("f", d.clone())]));
    }
    for d in &d1r {
        for e in &d1r {
            vals.push(arr(vec![d.clone(), e.clone()], vec![(0, 1)]));
            vals.push(st("T", vec![("a", d.clone()), ("b", e.clone())]));
        }
        for x in &r {
            vals.push(arr(vec![d.clone(), x.clone()], vec![(0, 1)]));
            vals.push(arr(vec![x.clone(), d.clone()], vec![(0, 1)]));
            vals.push(st("T", vec![("a", x.clone()), ("b", d.clone())]));
        }
    }
    let mut out: Vec<Snap> = vec![vec![]];
    out.extend(vals.into_iter().map(|v| vec![("v".to_string(), v)]));
    // snapshot-level shapes: names, several entries, many entries
    let names = ["", "a", "A", "G.x", "é😀", &"n".repeat(23), &"n".repeat(24), &"N".repeat(300), "\0"].map(String::from);
    for n in &names {
        for x in &r {
            out.push(vec![(n.clone(), x.clone())]);
        }
    }
    for x in &r {
        out.push(vec![("a".into(), x.clone()), ("A".into(), x.clone()), ("".into(), x.clone())]);
        for y in &r {
            out.push(vec![("a".into(), x.clone()), ("b".into(), y.clone())]);
        }
    }
    let all: Snap = l.iter().enumerate().map(|(i, v)| (format!("v{i}"), v.clone())).collect();
    out.push(all.iter().rev().cloned().collect());
    out.push(all);
    out.push(d1r.iter().enumerate().map(|(i, v)| (format!("c{i}"), v.clone())).collect());
    out
}

struct CodecOut {
    bytes: Option<Vec<u8>>,
    order_kept: bool,
    viol: Vec<Violation>,
}

/// store + load of one snapshot through the real file store at `path`.
fn codec_check(path: &Path, snap: &Snap) -> CodecOut {
    let case = || json!({"kind": "codec", "snap": sj(snap)});
    let mut out = CodecOut { bytes: None, order_kept: true, viol: Vec::new() };
    let _ = std::fs::remove_file(path);
    let store = FileRetainStore::new(path);
    let snapshot = to_snapshot(snap);
    match catch(|| store.store(&snapshot)) {
        Err(m) => {
            out.viol.push(Violation { signature: format!("C10/panic/store/{}", norm_msg(&m)), what: format!("store() panicked on a retainable snapshot: {m}"), case: case() });
            return out;
        }
        Ok(Err(e)) => {
            out.viol.push(Violation {
                signature: format!("C10/codec/store-rejected/{}", norm_msg(&e.to_string())),
                what: format!("store() refused a snapshot that contains no reference/instance value: {e}"),
                case: case(),
            });
            return out;
        }
        Ok(Ok(())) => {}
    }
    out.bytes = std::fs::read(path).ok();
    match catch(|| store.load()) {
        Err(m) => out.viol.push(Violation { signature: format!("C10/panic/load/{}", norm_msg(&m)), what: format!("load() panicked on a file written by store(): {m}"), case: case() }),
        Ok(Err(e)) => out.viol.push(Violation {
            signature: format!("C10/codec/load-err/{}", norm_msg(&e.to_string())),
            what: format!("load() of a file just written by store() failed: {e}"),
            case: case(),
        }),
        Ok(Ok(got)) => {
            out.order_kept = order_kept(snap, &got);
            if let Some(d) = diff_snap(snap, &got) {
                out.viol.push(Violation {
                    signature: format!("C10/codec/mismatch/{}", d.sig),
                    what: format!("load(store(s)) != s at {:?}: {}", d.path, d.detail),
                    case: case(),
                });
            }
        }
    }
    out
}

// ------------------------------------------------------------------------------------------------
// Family 2: crash atomicity under the LD_PRELOAD shim.

/// Every path below `<root>/c10crash/` is watched by the shim (the logs live outside of it).
const WATCH: &str = "/c10crash/";
static SEQ: AtomicU64 = AtomicU64::new(0);

struct CrashEnv {
    shim: PathBuf,
    root: PathBuf,
}

fn verif_dir_from_env() -> PathBuf {
    PathBuf::from(std::env::var("TV_VERIF_DIR").unwrap_or_else(|_| "/verif".into()))
}

/// $TV_SHIM, else <verif>/target/shim/libtvshim.so, else try to build it from <verif>/tv/envshim/shim.c.
fn find_shim(verif: &Path) -> Result<PathBuf, String> {
    if let Ok(p) = std::env::var("TV_SHIM") {
        let p = PathBuf::from(p);
        if p.is_file() {
            return Ok(p);
        }
        return Err(format!("TV_SHIM={p:?} does not exist"));
    }
    let so = verif.join("target/shim/libtvshim.so");
    if so.is_file() {
        return Ok(so);
    }
    let src = verif.join("tv/envshim/shim.c");
    if !src.is_file() {
        return Err(format!("shim library {so:?} missing and no source at {src:?}"));
    }
    let _ = std::fs::create_dir_all(so.parent().unwrap());
    let tmp = so.with_extension(format!("so.{}", std::process::id()));
    let st = std::process::Command::new("gcc")
        .args(["-O1", "-shared", "-fPIC", "-o"])
        .arg(&tmp)
        .arg(&src)
        .arg("-ldl")
        .output()
        .map_err(|e| format!("cannot run gcc to build the shim: {e}"))?;
    if !st.status.success() {
        return Err(format!("building the shim failed: {}", String::from_utf8_lossy(&st.stderr)));
    }
    std::fs::rename(&tmp, &so).map_err(|e| format!("installing the shim: {e}"))?;
    Ok(so)
}

#[derive(Debug, Clone)]
struct Call {
    op: String,
    flags: u32,
    n: i64,
    p1: String,
    p2: String,
    mark: String,
}

fn parse_log(text: &str) -> Vec<Call> {
    let mut out = Vec::new();
    for line in text.lines() {
        let f: Vec<&str> = line.split('\t').collect();
        if f.len() < 8 {
            continue;
        }
        out.push(Call {
            op: f[1].to_string(),
            flags: u32::from_str_radix(f[2], 16).unwrap_or(0),
            n: f[3].parse().unwrap_or(0),
            p1: f[5].to_string(),
            p2: f[6].to_string(),
            mark: f[7].to_string(),
        });
    }
    out
}

fn role(path: &str, target: &Path) -> &'static str {
    let p = Path::new(path);
    if p == target {
        "target"
    } else if Some(p) == target.parent() {
        "dir"
    } else {
        "tmp"
    }
}

fn op_desc(c: &Call) -> String {
    if c.op != "open" {
        return c.op.clone();
    }
    let f = c.flags as i32;
    if f & libc::O_TRUNC != 0 {
        "open-trunc".into()
    } else if f & libc::O_CREAT != 0 && f & libc::O_EXCL != 0 {
        "open-excl".into()
    } else if f & libc::O_CREAT != 0 {
        "open-creat".into()
    } else if f & libc::O_DIRECTORY != 0 {
        "open-dir".into()
    } else if f & libc::O_ACCMODE == libc::O_RDONLY {
        "open-ro".into()
    } else {
        "open-rw".into()
    }
}

fn call_desc(c: &Call, target: &Path) -> String {
    if c.p2.is_empty() {
        format!("{}:{}", op_desc(c), role(&c.p1, target))
    } else {
        format!("{}:{}->{}", op_desc(c), role(&c.p1, target), role(&c.p2, target))
    }
}

/// Crash-point KIND from the log of the crashed run: what had completed when the process died.
/// `start` = nothing yet; `after-<last completed call>`; `mid-write:<file role>`.
fn crash_kind(calls: &[Call], target: &Path) -> (String, String) {
    let Some(last) = calls.last() else { return ("unknown".into(), String::new()) };
    let next = call_desc(last, target);
    if last.mark == "CRASH-MID" {
        return (format!("mid-{}", next), next);
    }
    if calls.len() == 1 {
        return ("start".into(), next);
    }
    (format!("after-{}", call_desc(&calls[calls.len() - 2], target)), next)
}

struct ChildRun {
    code: Option<i32>,
    stdout: String,
    stderr: String,
}

/// `tv --worker c10_store` with the shim preloaded; one case line on stdin.
fn run_store_child(env: &CrashEnv, target: &Path, snap: &J, log: &Path, crash: Option<(u64, Option<u64>)>) -> Result<ChildRun, String> {
    use std::io::{Read, Write};
    use std::process::{Command, Stdio};
    let exe = std::env::current_exe().map_err(|e| format!("current_exe: {e}"))?;
    let mut cmd = Command::new(exe);
    cmd.arg("--worker")
        .arg("c10_store")
        .env("LD_PRELOAD", &env.shim)
        .env("TVSHIM_WATCH", WATCH)
        .env("TVSHIM_LOG", log)
        .env_remove("TVSHIM_CRASH_AT")
        .env_remove("TVSHIM_CRASH_BYTES")
        .env("TV_RLIMIT_AS", "0")
        .stdin(Stdio::piped())
        .stdout(Stdio::piped())
        .stderr(Stdio::piped());
    if let Some((k, p)) = crash {
        cmd.env("TVSHIM_CRASH_AT", k.to_string());
        if let Some(p) = p {
            cmd.env("TVSHIM_CRASH_BYTES", p.to_string());
        }
    }
    let mut child = cmd.spawn().map_err(|e| format!("cannot spawn store child: {e}"))?;
    {
        let mut stdin = child.stdin.take().unwrap();
        let line = json!({"path": target.to_string_lossy(), "snap": snap}).to_string();
        // the child may die before reading everything: ignore EPIPE
        let _ = writeln!(stdin, "{line}");
    }
    let t0 = Instant::now();
    let status = loop {
        match child.try_wait() {
            Ok(Some(s)) => break s,
            Ok(None) => {
                if t0.elapsed() > StdDuration::from_secs(30) {
                    let _ = child.kill();
                    let _ = child.wait();
                    return Err("store child did not finish within 30 s".into());
                }
                std::thread::sleep(StdDuration::from_micros(300));
            }
            Err(e) => return Err(format!("wait for store child: {e}")),
        }
    };
    let mut stdout = String::new();
    let mut stderr = String::new();
    if let Some(mut o) = child.stdout.take() {
        let _ = o.read_to_string(&mut stdout);
    }
    if let Some(mut e) = child.stderr.take() {
        let _ = e.read_to_string(&mut stderr);
    }
    Ok(ChildRun { code: status.code(), stdout, stderr })
}

/// worker `c10_store`: the code under test, executed in the child that gets killed.
pub fn worker_store(case: &J) -> J {
    let Some(snap) = js(&case["snap"]) else { return json!({"bad_case": true}) };
    let path = case["path"].as_str().unwrap_or("");
    match FileRetainStore::new(path).store(&to_snapshot(&snap)) {
        Ok(()) => json!({"stored": true}),
        Err(e) => json!({"store_err": e.to_string()}),
    }
}

struct CrashSetup {
    dir: PathBuf,
    target: PathBuf,
    log: PathBuf,
}

fn crash_setup(env: &CrashEnv, old: Option<&Snap>) -> Result<CrashSetup, String> {
    let n = SEQ.fetch_add(1, Ordering::Relaxed);
    let id = format!("{}-{n}", std::process::id());
    let dir = env.root.join("c10crash").join(&id);
    let logs = env.root.join("logs");
    std::fs::create_dir_all(&dir).map_err(|e| format!("create {dir:?}: {e}"))?;
    std::fs::create_dir_all(&logs).map_err(|e| format!("create {logs:?}: {e}"))?;
    let target = dir.join("retain.bin");
    if let Some(old) = old {
        match catch(|| FileRetainStore::new(&target).store(&to_snapshot(old))) {
            Ok(Ok(())) => {}
            other => return Err(format!("cannot write s_old in a healthy process: {other:?}")),
        }
    }
    Ok(CrashSetup { dir, target, log: logs.join(format!("{id}.log")) })
}

fn crash_cleanup(s: &CrashSetup) {
    let _ = std::fs::remove_dir_all(&s.dir);
    let _ = std::fs::remove_file(&s.log);
}

#[derive(Default)]
struct CrashEval {
    reached: bool,
    kind: String,
    /// "old" | "new" | "bad"
    outcome: &'static str,
    leftovers: usize,
    viol: Vec<Violation>,
    machinery: Option<String>,
}

fn third_snapshot() -> Snap {
    vec![("z".into(), Value::DInt(333)), ("s3".into(), Value::String(SmolStr::new("third")))]
}

/// One crash point: {"kind":"crash","pair":..,"old":snap|null,"new":snap,"at":k,"bytes":p|null}.
fn eval_crash(env: &CrashEnv, case: &J) -> CrashEval {
    let mut ev = CrashEval { outcome: "bad", ..Default::default() };
    let old: Option<Snap> = if case["old"].is_null() { None } else { js(&case["old"]) };
    let Some(new) = js(&case["new"]) else {
        ev.machinery = Some("bad crash case: no new snapshot".into());
        return ev;
    };
    let at = case["at"].as_u64().unwrap_or(0);
    let bytes = case["bytes"].as_u64();
    let pair = case["pair"].as_str().unwrap_or("?");
    let setup = match crash_setup(env, old.as_ref()) {
        Ok(s) => s,
        Err(e) => {
            ev.machinery = Some(e);
            return ev;
        }
    };
    let run = match run_store_child(env, &setup.target, &case["new"], &setup.log, Some((at, bytes))) {
        Ok(r) => r,
        Err(e) => {
            ev.machinery = Some(e);
            crash_cleanup(&setup);
            return ev;
        }
    };
    if run.code != Some(137) {
        // crash point not reached (call sequence differs from the recorded one)
        ev.machinery = Some(format!("crash point {at}/{bytes:?} of pair {pair} not reached: child exit {:?}, stdout {:?}, stderr {:?}", run.code, clip(&run.stdout, 100), clip(&run.stderr, 200)));
        crash_cleanup(&setup);
        return ev;
    }
    ev.reached = true;
    let calls = parse_log(&std::fs::read_to_string(&setup.log).unwrap_or_default());
    let (kind, next) = crash_kind(&calls, &setup.target);
    ev.kind = kind.clone();
    ev.leftovers = std::fs::read_dir(&setup.dir).map(|d| d.filter_map(|e| e.ok()).filter(|e| e.path() != setup.target).count()).unwrap_or(0);
    let disk = match std::fs::metadata(&setup.target) {
        Ok(m) => format!("{} bytes on disk", m.len()),
        Err(_) => "file absent".to_string(),
    };
    let old_snap: Snap = old.clone().unwrap_or_default();
    let at_txt = match bytes {
        Some(p) => format!("after {p} bytes of the write (call #{at}) had reached the file"),
        None => format!("immediately before call #{at} ({next})"),
    };
    let ctx_txt = format!("pair {pair:?} ({}): writer killed {at_txt}; {disk}", if old.is_some() { "old file present" } else { "no old file" });
    let store = FileRetainStore::new(&setup.target);
    // `case` is filled in by the caller (cloning a 2 KiB snapshot pair into each of ~10^4 violations
    // of one signature would cost gigabytes)
    let mut push = |sig: String, what: String| ev.viol.push(Violation { signature: sig, what, case: J::Null });
    let mut outcome = "bad";
    match catch(|| store.load()) {
        Err(m) => push(format!("C10/crash/{kind}/load-panic"), format!("{ctx_txt}; load() panicked: {m}")),
        Ok(Err(e)) => push(format!("C10/crash/{kind}/load-err"), format!("{ctx_txt}; load() = Err({e}); the statement requires Ok(old) or Ok(new)")),
        Ok(Ok(got)) => {
            if same_snap(&old_snap, &got) {
                outcome = "old";
            } else if same_snap(&new, &got) {
                outcome = "new";
            } else {
                let g = snapshot_to_snap(&got);
                let from_either = g.iter().all(|(n, v)| {
                    old_snap.iter().chain(new.iter()).any(|(n2, v2)| n == n2 && diff_value(v2, v, "").is_none())
                });
                let class = if g.is_empty() {
                    "empty"
                } else if from_either {
                    "mixture"
                } else {
                    "other"
                };
                push(
                    format!("C10/crash/{kind}/load-{class}"),
                    format!("{ctx_txt}; load() = Ok with {} entries which is neither the old ({}) nor the new ({}) snapshot: {}", g.len(), old_snap.len(), new.len(), clip(&sj(&g).to_string(), 160)),
                );
            }
        }
    }
    // the store must stay usable: left-over temporaries / partial files must not wedge it
    // (signature by what the crash left behind, not by crash kind: the cause of a wedged store is
    // the left-over state, which many crash kinds share)
    let dir_state = if ev.leftovers > 0 { "leftover-files" } else { "no-leftover" };
    let s3 = third_snapshot();
    match catch(|| store.store(&to_snapshot(&s3))) {
        Err(m) => push(format!("C10/crash-recover/store-panic/{dir_state}"), format!("{ctx_txt}; the next store() panicked: {m}")),
        Ok(Err(e)) => push(format!("C10/crash-recover/store-err/{dir_state}"), format!("{ctx_txt}; the next store() failed: {e} ({} left-over files)", ev.leftovers)),
        Ok(Ok(())) => match catch(|| store.load()) {
            Ok(Ok(got)) if same_snap(&s3, &got) => {}
            other => push(
                format!("C10/crash-recover/load-after-store/{dir_state}"),
                format!("{ctx_txt}; after the next store(s3), load() did not return s3: {}", clip(&format!("{other:?}"), 160)),
            ),
        },
    }
    ev.outcome = outcome;
    crash_cleanup(&setup);
    ev
}

/// Partial-write lengths for a write of `n` bytes: all of 1..n for small payloads, otherwise the
/// first/last 64 and every 512-byte boundary.
fn partial_lengths(n: u64, full_limit: u64) -> Vec<u64> {
    if n <= full_limit {
        return (1..n).collect();
    }
    let mut s: BTreeSet<u64> = BTreeSet::new();
    s.extend(1..=64);
    s.extend(n - 64..n);
    s.extend((1..).map(|i| i * 512).take_while(|&x| x < n));
    s.into_iter().collect()
}

fn big_array(count: usize, seed: i64) -> Value {
    arr((0..count as i64).map(|i| Value::LInt(seed.wrapping_mul(0x0101_0101_0101).wrapping_add(i))).collect(), vec![(0, count as i64 - 1)])
}

/// (name, s_old (None = no file yet), s_new), simplest first.
fn crash_pairs(thorough: bool) -> Vec<(&'static str, Option<Snap>, Snap)> {
    let small: Snap = vec![("a".into(), Value::Int(1))];
    let medium: Snap = vec![
        ("a".into(), Value::Int(2)),
        ("b".into(), Value::String(SmolStr::new("hello retain"))),
        ("c".into(), arr(vec![Value::DInt(1), Value::DInt(2), Value::DInt(3)], vec![(0, 2)])),
        ("d".into(), st("Pt", vec![("x", Value::LReal(1.5)), ("y", Value::LReal(-2.5))])),
    ];
    let eq1: Snap = vec![("a".into(), Value::DInt(1)), ("b".into(), Value::DInt(2)), ("c".into(), Value::Bool(false))];
    let eq2: Snap = vec![("a".into(), Value::DInt(3)), ("b".into(), Value::DInt(4)), ("c".into(), Value::Bool(true))];
    let nested: Snap = vec![
        ("é".into(), arr(vec![st("Ünï", vec![("ß", Value::WString("😀".into()))]), st("Ünï", vec![("ß", Value::WString(String::new()))])], vec![(1, 2)])),
        ("e".into(), en("Color", "Red", 1)),
        ("n".into(), Value::Null),
    ];
    let large1: Snap = vec![("big".into(), big_array(250, 1)), ("tail".into(), Value::Int(7))];
    let large2: Snap = vec![("big".into(), big_array(250, 2)), ("tail".into(), Value::Int(8))];
    let mut v = vec![
        ("fresh", None, small.clone()),
        ("empty-to-nonempty", Some(vec![]), small.clone()),
        ("nonempty-to-empty", Some(small.clone()), vec![]),
        ("equal-size", Some(eq1.clone()), eq2.clone()),
        ("grow", Some(small.clone()), medium.clone()),
        ("shrink", Some(medium.clone()), small.clone()),
        ("same", Some(medium.clone()), medium.clone()),
        ("nested-non-ascii", Some(medium.clone()), nested.clone()),
        ("large-grow", Some(small.clone()), large1.clone()),
        ("large-equal-size", Some(large1.clone()), large2.clone()),
    ];
    if thorough {
        v.push(("large-shrink", Some(large2.clone()), medium.clone()));
        v.push(("fresh-large", None, large1.clone()));
        v.push(("nested-to-equal", Some(nested.clone()), eq1.clone()));
        let all: Snap = reps(&leaves()).into_iter().enumerate().map(|(i, x)| (format!("v{i}"), x)).collect();
        v.push(("all-tags", Some(eq2.clone()), all.clone()));
        v.push(("all-tags-shrink", Some(all), small.clone()));
        v.push(("xlarge", Some(large1.clone()), vec![("big".into(), big_array(1000, 3))]));
    }
    v
}

// ------------------------------------------------------------------------------------------------
// Family 3: decoder totality.

/// Base snapshots whose real encodings are mutated (every tag occurs; simplest first).
fn decode_bases() -> Vec<(&'static str, Snap)> {
    let t = |n: i64| Duration::from_nanos(n);
    let all: Snap = reps(&leaves()).into_iter().enumerate().map(|(i, x)| (format!("v{i}"), x)).collect();
    vec![
        ("empty", vec![]),
        ("null", vec![("n".into(), Value::Null)]),
        ("bool", vec![("a".into(), Value::Bool(true))]),
        ("ints", vec![("i".into(), Value::Int(-2)), ("d".into(), Value::DInt(7))]),
        ("string", vec![("s".into(), Value::String(SmolStr::new("héllo")))]),
        ("wstring-empty", vec![("w".into(), Value::WString(String::new()))]),
        ("array-empty", vec![("e".into(), arr(vec![], vec![]))]),
        ("array", vec![("arr".into(), arr(vec![Value::Int(1), Value::Int(2)], vec![(1, 2)]))]),
        ("struct", vec![("st".into(), st("T", vec![("x", Value::DInt(100))]))]),
        ("enum", vec![("en".into(), en("Color", "Red", 1))]),
        ("reals", vec![("r".into(), Value::Real(1.5)), ("lr".into(), Value::LReal(f64::NAN))]),
        (
            "times",
            vec![
                ("t".into(), Value::Time(t(1_000_000_000))),
                ("lt".into(), Value::LTime(t(-1))),
                ("d".into(), Value::Date(DateValue::new(1))),
                ("ld".into(), Value::LDate(LDateValue::new(2))),
                ("tod".into(), Value::Tod(TimeOfDayValue::new(3))),
                ("ltod".into(), Value::LTod(LTimeOfDayValue::new(4))),
                ("dt".into(), Value::Dt(DateTimeValue::new(5))),
                ("ldt".into(), Value::Ldt(LDateTimeValue::new(6))),
            ],
        ),
        (
            "bits",
            vec![
                ("b".into(), Value::Byte(0x12)),
                ("w".into(), Value::Word(0x1234)),
                ("dw".into(), Value::DWord(0x12345678)),
                ("lw".into(), Value::LWord(0x1234567890abcdef)),
                ("c".into(), Value::Char(0x41)),
                ("wc".into(), Value::WChar(0x263a)),
            ],
        ),
        (
            "unsigned",
            vec![
                ("us".into(), Value::USInt(200)),
                ("ui".into(), Value::UInt(60000)),
                ("ud".into(), Value::UDInt(4_000_000_000)),
                ("ul".into(), Value::ULInt(u64::MAX - 1)),
                ("si".into(), Value::SInt(-100)),
                ("li".into(), Value::LInt(i64::MIN + 1)),
            ],
        ),
        ("array-of-array", vec![("aa".into(), arr(vec![arr(vec![Value::Int(1)], vec![(0, 0)])], vec![(0, 0)]))]),
        ("array-of-struct", vec![("as".into(), arr(vec![st("T", vec![("f", Value::String(SmolStr::new("x")))])], vec![(0, 0)]))]),
        ("struct-of-array", vec![("sa".into(), st("T", vec![("a", arr(vec![Value::Bool(true)], vec![(0, 0)]))]))]),
        ("matrix", vec![("m".into(), arr(vec![Value::USInt(1), Value::USInt(2), Value::USInt(3), Value::USInt(4)], vec![(0, 1), (0, 1)]))]),
        ("two-entries", vec![("a".into(), Value::Bool(false)), ("b".into(), arr(vec![Value::Null], vec![(0, 0)]))]),
        ("all-tags", all),
        ("large", vec![("big".into(), big_array(250, 1)), ("tail".into(), Value::Int(7))]),
    ]
}

/// Field label of every byte of a well-formed image, from the engine's own reading of the format
/// (used for signatures only — never as an oracle). None if the image is not well-formed.
fn annotate(b: &[u8]) -> Option<Vec<&'static str>> {
    struct P<'a> {
        b: &'a [u8],
        o: usize,
        lab: Vec<&'static str>,
    }
    impl P<'_> {
        fn take(&mut self, n: usize, l: &'static str) -> Option<&[u8]> {
            let e = self.o.checked_add(n)?;
            if e > self.b.len() {
                return None;
            }
            for x in &mut self.lab[self.o..e] {
                *x = l;
            }
            let s = &self.b[self.o..e];
            self.o = e;
            Some(s)
        }
        fn u32(&mut self, l: &'static str) -> Option<usize> {
            let s = self.take(4, l)?;
            Some(u32::from_le_bytes([s[0], s[1], s[2], s[3]]) as usize)
        }
        fn string(&mut self, l_len: &'static str, l_bytes: &'static str) -> Option<()> {
            let n = self.u32(l_len)?;
            self.take(n, l_bytes)?;
            Some(())
        }
        fn value(&mut self, depth: usize) -> Option<()> {
            if depth > 64 {
                return None;
            }
            let t = self.take(1, "tag")?[0];
            match t {
                1 | 2 | 6 | 12 | 26 => self.take(1, "payload").map(|_| ()),
                3 | 7 | 13 | 27 => self.take(2, "payload").map(|_| ()),
                4 | 8 | 10 | 14 => self.take(4, "payload").map(|_| ()),
                5 | 9 | 11 | 15 | 16..=23 => self.take(8, "payload").map(|_| ()),
                24 | 25 => self.string("string.len", "string.bytes"),
                28 => {
                    let len = self.u32("array.len")?;
                    let dims = self.u32("array.dims")?;
                    for _ in 0..dims {
                        self.take(16, "array.bounds")?;
                    }
                    for _ in 0..len {
                        self.value(depth + 1)?;
                    }
                    Some(())
                }
                29 => {
                    self.string("struct.type.len", "struct.type.bytes")?;
                    let n = self.u32("struct.count")?;
                    for _ in 0..n {
                        self.string("field.len", "field.bytes")?;
                        self.value(depth + 1)?;
                    }
                    Some(())
                }
                30 => {
                    self.string("enum.type.len", "enum.type.bytes")?;
                    self.string("enum.variant.len", "enum.variant.bytes")?;
                    self.take(8, "enum.value").map(|_| ())
                }
                31 => Some(()),
                _ => None,
            }
        }
    }
    let mut p = P { b, o: 0, lab: vec!["?"; b.len()] };
    p.take(4, "magic")?;
    p.take(2, "version")?;
    let n = p.u32("count")?;
    for _ in 0..n {
        p.string("name.len", "name.bytes")?;
        p.value(0)?;
    }
    if p.o != b.len() {
        return None;
    }
    Some(p.lab)
}

pub const NEST_SHAPES: &[&str] = &["array", "struct", "alt", "array-cut"];

/// Hand-encoded image with one entry "v" whose value nests `depth` containers.
/// array: [28][len=1][dims=0]… innermost [28][0][0]; struct: [29][""][count=1]["f"]… innermost [29][""][0];
/// alt: array/struct alternating; array-cut: `depth` array headers, then the file ends.
fn nest_bytes(shape: &str, depth: usize) -> Vec<u8> {
    let mut b = Vec::with_capacity(24 + depth * 14);
    b.extend_from_slice(b"STRN");
    b.extend_from_slice(&1u16.to_le_bytes());
    b.extend_from_slice(&1u32.to_le_bytes());
    b.extend_from_slice(&1u32.to_le_bytes());
    b.push(b'v');
    let arr_level = |b: &mut Vec<u8>, n: u32| {
        b.push(28);
        b.extend_from_slice(&n.to_le_bytes());
        b.extend_from_slice(&0u32.to_le_bytes());
    };
    let st_level = |b: &mut Vec<u8>, n: u32| {
        b.push(29);
        b.extend_from_slice(&0u32.to_le_bytes());
        b.extend_from_slice(&n.to_le_bytes());
        if n == 1 {
            b.extend_from_slice(&1u32.to_le_bytes());
            b.push(b'f');
        }
    };
    for lvl in 1..=depth {
        let inner = lvl == depth;
        let as_struct = match shape {
            "struct" => true,
            "alt" => lvl % 2 == 0,
            _ => false,
        };
        let n = if inner && shape != "array-cut" { 0 } else { 1 };
        if as_struct {
            st_level(&mut b, n);
        } else {
            arr_level(&mut b, n);
        }
    }
    b
}

fn mutate(base: &[u8], case: &J) -> Option<Vec<u8>> {
    if let Some(len) = case["len"].as_u64() {
        return base.get(..len as usize).map(<[u8]>::to_vec);
    }
    let off = case["off"].as_u64()? as usize;
    let bytes = unhex(case["bytes"].as_str()?)?;
    let mut b = base.to_vec();
    b.get_mut(off..off + bytes.len())?.copy_from_slice(&bytes);
    Some(b)
}

fn base_bytes_for(case: &J, dir: &Path) -> Option<std::sync::Arc<Vec<u8>>> {
    use std::sync::{Arc, Mutex, OnceLock};
    if let Some(h) = case["base_hex"].as_str() {
        return unhex(h).map(Arc::new);
    }
    static CACHE: OnceLock<Mutex<HashMap<u64, Arc<Vec<u8>>>>> = OnceLock::new();
    let i = case["base"].as_u64()?;
    let mut c = CACHE.get_or_init(Default::default).lock().ok()?;
    if let Some(b) = c.get(&i) {
        return Some(b.clone());
    }
    let b = Arc::new(std::fs::read(dir.join(format!("base{i}.bin"))).ok()?);
    c.insert(i, b.clone());
    Some(b)
}

/// worker `c10_decode`: builds the image, writes it where the real store reads it, calls load().
pub fn worker_decode(case: &J) -> J {
    let dir = PathBuf::from(std::env::var("TV_C10_DIR").unwrap_or_else(|_| "/tmp".into()));
    let bytes = if let Some(n) = case.get("nest") {
        nest_bytes(n["shape"].as_str().unwrap_or(""), n["depth"].as_u64().unwrap_or(1) as usize)
    } else {
        let Some(base) = base_bytes_for(case, &dir) else { return json!({"r": "bad-case"}) };
        let Some(b) = mutate(&base, case) else { return json!({"r": "bad-case"}) };
        b
    };
    let path = dir.join(format!("w{}.bin", std::process::id()));
    // fresh inode every time: rewriting by truncation makes ext4 flush on close (~4 ms per case)
    let _ = std::fs::remove_file(&path);
    if std::fs::write(&path, &bytes).is_err() {
        return json!({"r": "bad-case"});
    }
    drop(bytes);
    match FileRetainStore::new(&path).load() {
        Ok(s) => {
            let n = s.values().len();
            // a deeply nested value would recurse again when dropped; that is not part of load()
            std::mem::forget(s);
            json!({"r": "ok", "n": n})
        }
        Err(e) => json!({"r": "err", "msg": e.to_string()}),
    }
}

fn decode_label(case: &J) -> String {
    if let Some(n) = case.get("nest") {
        // the cut-off sweep exercises the same branch as the complete one; alternating = mixed
        return match n["shape"].as_str().unwrap_or("?") {
            "array" | "array-cut" => "nesting:array".to_string(),
            "alt" => "nesting:mixed".to_string(),
            other => format!("nesting:{other}"),
        };
    }
    if case.get("len").is_some() {
        return "truncation".into();
    }
    case["label"].as_str().unwrap_or("?").to_string()
}

/// Maps a worker outcome to (class for counters, violation?).
fn judge_decode(case: &J, o: &iso::Outcome) -> (String, Option<Violation>) {
    let label = decode_label(case);
    let describe = || {
        if let Some(n) = case.get("nest") {
            format!("hand-encoded image with {} nested containers (shape {})", n["depth"], n["shape"])
        } else if let Some(l) = case["len"].as_u64() {
            format!("image {:?} truncated to {l} bytes", case["base_name"].as_str().unwrap_or("?"))
        } else {
            format!("image {:?} with bytes {} written at offset {} (field {label})", case["base_name"].as_str().unwrap_or("?"), case["bytes"], case["off"])
        }
    };
    match o {
        iso::Outcome::Ok(v) => match v["r"].as_str() {
            Some("ok") => ("ok".into(), None),
            Some("err") => (format!("err:{}", norm_msg(v["msg"].as_str().unwrap_or(""))), None),
            _ => ("bad-case".into(), None),
        },
        iso::Outcome::Panic(m) => (
            "panic".into(),
            Some(Violation { signature: format!("C10/decode/panic/{label}/{}", norm_msg(m)), what: format!("load() panicked on {}: {m}", describe()), case: case.clone() }),
        ),
        iso::Outcome::Died(m) => {
            let class = if m.contains("memory allocation") || m.contains("capacity overflow") {
                "abort:alloc"
            } else if m.contains("overflowed its stack") || m.contains("stack overflow") {
                "abort:stack"
            } else {
                "abort:other"
            };
            (
                class.into(),
                Some(Violation {
                    signature: format!("C10/decode/{class}/{label}"),
                    what: format!("load() killed the process (1 GiB address space, 8 MiB stack) instead of returning Err on {}: {}", describe(), clip(m, 200)),
                    case: case.clone(),
                }),
            )
        }
        iso::Outcome::Timeout => (
            "timeout".into(),
            Some(Violation { signature: format!("C10/decode/timeout/{label}"), what: format!("load() did not return within the per-case limit on {}", describe()), case: case.clone() }),
        ),
    }
}

/// Scratch directory of the decode family: the images are rewritten ~10^5 times, which costs
/// 1-4 ms per case on ext4 but ~0.1 ms on tmpfs — so /dev/shm is used when it is writable (where
/// the bytes live is irrelevant to the decoder), else the engine's work dir. Removed on drop.
struct DecodeDir(PathBuf);

impl DecodeDir {
    fn new(work: &Path) -> Result<Self, Machinery> {
        let shm = PathBuf::from(format!("/dev/shm/tv-C10-{}-dec", std::process::id()));
        if std::fs::create_dir_all(&shm).is_ok() && std::fs::write(shm.join("probe"), b"x").is_ok() {
            let _ = std::fs::remove_file(shm.join("probe"));
            return Ok(DecodeDir(shm));
        }
        let d = work.join("dec");
        std::fs::create_dir_all(&d).map_err(|e| Machinery(format!("create {d:?}: {e}")))?;
        Ok(DecodeDir(d))
    }
}

impl Drop for DecodeDir {
    fn drop(&mut self) {
        let _ = std::fs::remove_dir_all(&self.0);
    }
}

fn decode_pool(dir: &Path, procs: usize, deadline: Option<Instant>) -> iso::PoolCfg {
    iso::PoolCfg {
        worker: "c10_decode",
        procs,
        rlimit_as: 1 << 30,
        per_case: StdDuration::from_secs(60),
        deadline,
        // no backtrace on abort: symbolising one costs ~0.3 s per dying worker
        env: vec![("TV_C10_DIR".into(), dir.to_string_lossy().into_owned()), ("RUST_BACKTRACE".into(), "0".into())],
        stack: 8 << 20,
    }
}

/// All single mutations of one base image, in a fixed order (substitutions, truncations, windows).
fn decode_mutations(bi: usize, name: &str, base: &[u8], labels: &[&'static str], all256_limit: usize) -> Vec<J> {
    let mut out = Vec::new();
    let n = base.len();
    for off in 0..n {
        let b = base[off];
        let vals: Vec<u8> = if n <= all256_limit {
            (0..=255u8).filter(|v| *v != b).collect()
        } else {
            let s: BTreeSet<u8> = [0, 1, 0x7f, 0x80, 0xff, b.wrapping_sub(1), b.wrapping_add(1)].into_iter().filter(|v| *v != b).collect();
            s.into_iter().collect()
        };
        for v in vals {
            out.push(json!({"kind": "decode", "family": "subst", "base": bi, "base_name": name, "off": off, "bytes": hex(&[v]), "label": labels[off]}));
        }
    }
    for len in 0..n {
        out.push(json!({"kind": "decode", "family": "trunc", "base": bi, "base_name": name, "len": len}));
    }
    let words: [u32; 5] = [0, 1, 0x7fff_ffff, 0x8000_0000, 0xffff_ffff];
    for off in 0..n.saturating_sub(3) {
        let mut seen: HashSet<[u8; 4]> = HashSet::new();
        for w in words {
            // the format is little endian; big endian images of the same words are tried as well
            for bytes in [w.to_le_bytes(), w.to_be_bytes()] {
                if bytes[..] == base[off..off + 4] || !seen.insert(bytes) {
                    continue;
                }
                out.push(json!({"kind": "decode", "family": "window", "base": bi, "base_name": name, "off": off, "bytes": hex(&bytes), "label": labels[off]}));
            }
        }
    }
    out
}

// ------------------------------------------------------------------------------------------------
// Driver.

fn collect_tags(v: &Value, nested: bool, top: &mut BTreeSet<&'static str>, inner: &mut BTreeSet<&'static str>) {
    if nested {
        inner.insert(tag(v));
    } else {
        top.insert(tag(v));
    }
    match v {
        Value::Array(a) => a.elements.iter().for_each(|e| collect_tags(e, true, top, inner)),
        Value::Struct(s) => s.fields.values().for_each(|e| collect_tags(e, true, top, inner)),
        _ => {}
    }
}

pub fn run(ctx: &Ctx) -> EngineResult {
    quiet_panics();
    let mut rep = Report::new("fault_enumeration");
    let thorough = ctx.tier == Tier::Thorough;
    let deadline = Instant::now() + StdDuration::from_secs(ctx.tier.pick(38, 840));
    let work = ctx.work_dir();
    let mut exhaustive = true;

    // ---------------------------------------------------------------- 1. codec round trip
    let snaps = codec_snapshots(thorough);
    let (mut top, mut inner) = (BTreeSet::new(), BTreeSet::new());
    let mut max_depth = 0;
    for s in &snaps {
        for (_, v) in s {
            collect_tags(v, false, &mut top, &mut inner);
            max_depth = max_depth.max(nest_depth(v));
        }
    }
    if top.len() != 31 || inner.len() != 31 || max_depth != 2 {
        return machinery(format!("codec alphabet incomplete: {} top-level tags, {} nested tags, depth {max_depth}", top.len(), inner.len()));
    }
    let chunk = 128usize;
    let chunks: Vec<usize> = (0..snaps.len().div_ceil(chunk)).collect();
    let res = par_map(&chunks, ctx.threads, 8 << 20, Some(deadline), |_, &c| {
        let path = work.join(format!("codec-{c}.bin"));
        let mut hashes = HashSet::new();
        let (mut n, mut bytes, mut reordered) = (0u64, 0u64, 0u64);
        let mut viol = Vec::new();
        for s in &snaps[c * chunk..((c + 1) * chunk).min(snaps.len())] {
            let o = codec_check(&path, s);
            n += 1;
            if let Some(b) = &o.bytes {
                hashes.insert(hash64(b));
                bytes += b.len() as u64;
            }
            if !o.order_kept {
                reordered += 1;
            }
            viol.extend(o.viol);
        }
        let _ = std::fs::remove_file(&path);
        (n, bytes, reordered, hashes, viol)
    });
    let mut codec_hashes: HashSet<u64> = HashSet::new();
    let (mut codec_n, mut codec_bytes, mut codec_reordered) = (0u64, 0u64, 0u64);
    for r in res {
        match r {
            Some((n, b, ro, h, v)) => {
                codec_n += n;
                codec_bytes += b;
                codec_reordered += ro;
                codec_hashes.extend(h);
                rep.violations_from(v);
            }
            None => exhaustive = false,
        }
    }
    if !exhaustive {
        rep.cap("codec: wall cap reached");
    }
    if codec_n == 0 || codec_hashes.len() < 100 {
        return machinery("codec family vacuous");
    }
    rep.set("codec_roundtrips", codec_n);
    rep.set("codec_distinct_encodings", codec_hashes.len() as u64);
    rep.set("codec_bytes_written", codec_bytes);
    rep.set("codec_entry_order_changed", codec_reordered);
    rep.set("codec_tags_top_level", top.len() as u64);
    rep.set("codec_tags_nested", inner.len() as u64);
    rep.set("codec_max_nesting_depth", max_depth as u64);
    rep.sample(json!({"family": "codec", "snap": sj(&snaps[snaps.len() / 3])}));
    eprintln!("[C10] codec: {codec_n} round trips, {} distinct encodings at {:.1}s", codec_hashes.len(), ctx.elapsed());

    // ---------------------------------------------------------------- 2. crash atomicity
    let shim = find_shim(&ctx.verif_dir).map_err(Machinery)?;
    let env = CrashEnv { shim, root: work.join("x4") };
    let full_limit: u64 = ctx.tier.pick(512, 16384);
    // (pair index, call index, bytes of a partial write); the full case is built on demand
    let mut crash_points: Vec<(usize, u64, Option<u64>)> = Vec::new();
    let mut pair_bases: Vec<J> = Vec::new();
    let mut completed_runs = 0u64;
    let mut sequences = serde_json::Map::new();
    let mut mid_points = 0u64;
    for (name, old, new) in crash_pairs(thorough) {
        // logging run: learn the call sequence of store(s_new)
        let setup = crash_setup(&env, old.as_ref()).map_err(Machinery)?;
        let run = run_store_child(&env, &setup.target, &sj(&new), &setup.log, None).map_err(Machinery)?;
        let calls = parse_log(&std::fs::read_to_string(&setup.log).unwrap_or_default());
        let loaded = catch(|| FileRetainStore::new(&setup.target).load());
        let ok = run.code == Some(0) && run.stdout.contains("\"stored\":true") && matches!(&loaded, Ok(Ok(g)) if same_snap(&new, g));
        let descs: Vec<String> = calls.iter().map(|c| if c.op.contains("write") { format!("{}[{}]", call_desc(c, &setup.target), c.n) } else { call_desc(c, &setup.target) }).collect();
        crash_cleanup(&setup);
        if !ok {
            return machinery(format!("pair {name}: undisturbed store() in the child under the shim did not produce s_new (exit {:?}, stdout {:?}, stderr {:?})", run.code, clip(&run.stdout, 120), clip(&run.stderr, 200)));
        }
        if !calls.iter().any(|c| c.op.contains("write")) || !calls.iter().any(|c| c.op == "open") {
            return machinery(format!("pair {name}: the shim saw no open/write on the retain file (calls: {descs:?}) — interposition is not effective"));
        }
        sequences.insert(name.to_string(), json!(descs));
        completed_runs += 1;
        let pi = pair_bases.len();
        pair_bases.push(json!({"kind": "crash", "pair": name, "old": old.as_ref().map(sj), "new": sj(&new)}));
        for (i, c) in calls.iter().enumerate() {
            let k = i as u64 + 1;
            crash_points.push((pi, k, None));
            if (c.op == "write" || c.op == "pwrite") && c.n >= 2 {
                for p in partial_lengths(c.n as u64, full_limit) {
                    crash_points.push((pi, k, Some(p)));
                    mid_points += 1;
                }
            }
        }
    }
    let crash_case = |&(pi, k, p): &(usize, u64, Option<u64>)| {
        let mut case = pair_bases[pi].clone();
        case["at"] = json!(k);
        case["bytes"] = json!(p);
        case
    };
    rep.set("crash_call_sequences", J::Object(sequences));
    let res = par_map(&crash_points, ctx.threads, 2 << 20, Some(deadline), |_, pt| eval_crash(&env, &crash_case(pt)));
    let mut by_kind: BTreeMap<String, [u64; 3]> = BTreeMap::new();
    let (mut crash_n, mut leftovers, mut nontrivial_crash) = (0u64, 0u64, 0u64);
    let mut crash_capped = false;
    // the undisturbed runs above are the crash point "after the last call": load() gave s_new
    by_kind.insert("complete".into(), [0, completed_runs, 0]);
    for (pt, r) in crash_points.iter().zip(res) {
        let Some(ev) = r else {
            crash_capped = true;
            continue;
        };
        if let Some(m) = ev.machinery {
            return machinery(format!("crash family: {m}"));
        }
        crash_n += 1;
        if ev.kind != "start" {
            nontrivial_crash += 1;
        }
        if ev.leftovers > 0 {
            leftovers += 1;
        }
        let slot = by_kind.entry(ev.kind.clone()).or_insert([0; 3]);
        slot[match ev.outcome {
            "old" => 0,
            "new" => 1,
            _ => 2,
        }] += 1;
        if crash_n == 2 {
            rep.sample(json!({"family": "crash", "pair": pair_bases[pt.0]["pair"], "at": pt.1, "bytes": pt.2, "kind": ev.kind, "load": ev.outcome}));
        }
        for mut v in ev.viol {
            if !rep.violation_counts.contains_key(&v.signature) {
                v.case = crash_case(pt);
            }
            rep.violation(v);
        }
    }
    if crash_capped {
        exhaustive = false;
        rep.cap("crash points: wall cap reached");
    }
    let olds: u64 = by_kind.values().map(|s| s[0]).sum();
    let news: u64 = by_kind.values().map(|s| s[1]).sum();
    if crash_n == 0 || mid_points == 0 || olds == 0 || (news == 0 && !crash_capped) {
        return machinery(format!("crash family vacuous: {crash_n} crash points, {mid_points} partial-write points, {olds} loads of s_old, {news} loads of s_new"));
    }
    rep.set("crash_pairs", crash_pairs(thorough).len() as u64);
    rep.set("crash_points", crash_points.len() as u64);
    rep.set("crash_points_executed", crash_n);
    rep.set("crash_points_partial_write", mid_points);
    rep.set("crash_points_with_leftover_files", leftovers);
    rep.set(
        "crash_outcomes_by_kind",
        J::Object(by_kind.iter().map(|(k, s)| (k.clone(), json!({"loaded_old": s[0], "loaded_new": s[1], "violations": s[2]}))).collect()),
    );
    eprintln!("[C10] crash: {crash_n} crash points over {} kinds at {:.1}s", by_kind.len(), ctx.elapsed());

    // ---------------------------------------------------------------- 3. decoder totality
    let scratch = DecodeDir::new(&work)?;
    let ddir = scratch.0.clone();
    let all256_limit: usize = ctx.tier.pick(64, 4096);
    let mut dcases: Vec<J> = Vec::new();
    let mut base_images: Vec<Vec<u8>> = Vec::new();
    let mut base_sizes = serde_json::Map::new();
    for (i, (name, snap)) in decode_bases().iter().enumerate() {
        let path = ddir.join(format!("base{i}.bin"));
        match catch(|| FileRetainStore::new(&path).store(&to_snapshot(snap))) {
            Ok(Ok(())) => {}
            other => return machinery(format!("cannot encode base image {name}: {other:?}")),
        }
        let bytes = std::fs::read(&path).map_err(|e| Machinery(format!("read {path:?}: {e}")))?;
        let Some(labels) = annotate(&bytes) else {
            return machinery(format!("base image {name} does not follow the STRN v1 layout the engine knows (format changed?) — decode labels and nesting sweeps would be meaningless"));
        };
        base_sizes.insert(name.to_string(), json!(bytes.len()));
        dcases.extend(decode_mutations(i, name, &bytes, &labels, all256_limit));
        base_images.push(bytes);
    }
    let mutation_cases = dcases.len();
    let depths: Vec<usize> = ctx.tier.pick(vec![1, 2, 3, 16, 128, 1024, 10_000, 100_000], vec![1, 2, 3, 4, 8, 16, 32, 64, 128, 256, 512, 1024, 2048, 4096, 10_000, 30_000, 100_000, 300_000, 1_000_000]);
    for shape in NEST_SHAPES {
        for &d in &depths {
            if *shape != "array-cut" && d <= 3 && annotate(&nest_bytes(shape, d)).is_none() {
                return machinery(format!("hand-encoded nesting image {shape}/{d} is not well-formed"));
            }
            dcases.push(json!({"kind": "decode", "family": "nest", "nest": {"shape": shape, "depth": d}}));
        }
    }
    let mut distinct_inputs: HashSet<u64> = HashSet::new();
    let outs = iso::run_pool(&decode_pool(&ddir, ctx.threads, Some(deadline)), &dcases).map_err(Machinery)?;
    let mut classes: BTreeMap<String, u64> = BTreeMap::new();
    let mut by_family: BTreeMap<String, u64> = BTreeMap::new();
    let (mut decode_n, mut decode_capped, mut nest_ok) = (0u64, false, 0u64);
    let mut decode_viol: Vec<Violation> = Vec::new();
    for (case, o) in dcases.iter().zip(outs) {
        let Some(o) = o else {
            decode_capped = true;
            continue;
        };
        decode_n += 1;
        if let Some(bi) = case["base"].as_u64() {
            let base = &base_images[bi as usize];
            if let Some(b) = mutate(base, case) {
                if &b != base {
                    distinct_inputs.insert(hash64(&b));
                }
            }
        } else {
            distinct_inputs.insert(hash64(case.to_string().as_bytes()));
        }
        *by_family.entry(case["family"].as_str().unwrap_or("?").to_string()).or_insert(0) += 1;
        let (class, v) = judge_decode(case, &o);
        if class == "bad-case" {
            return machinery(format!("decode worker could not build case {case}"));
        }
        if case.get("nest").is_some() {
            let (shape, d) = (case["nest"]["shape"].as_str().unwrap_or(""), case["nest"]["depth"].as_u64().unwrap_or(0));
            if class == "ok" {
                nest_ok += 1;
            }
            if d == 1 && shape != "array-cut" && class != "ok" {
                return machinery(format!("hand-encoded nesting image {shape}/1 is not accepted by the decoder ({class}) — sweep would be vacuous"));
            }
        }
        *classes.entry(class).or_insert(0) += 1;
        if let Some(mut v) = v {
            if let Some(bi) = case["base"].as_u64() {
                v.case["base_hex"] = json!(hex(&base_images[bi as usize]));
            }
            decode_viol.push(v);
        }
    }
    // Witness per signature: the first case — except for allocation aborts, where the first case in
    // enumeration order is by construction the one closest to the address-space limit; prefer the
    // first one that asks for >= 4 GiB so that the replay does not depend on the limit.
    let mut preferred: HashSet<String> = HashSet::new();
    let (first, rest): (Vec<Violation>, Vec<Violation>) = decode_viol.into_iter().partition(|v| {
        let big = v.what.split("memory allocation of ").nth(1).and_then(|t| t.split(' ').next()).and_then(|n| n.parse::<u64>().ok()).is_some_and(|n| n >= 4 << 30);
        big && preferred.insert(v.signature.clone())
    });
    rep.violations_from(first);
    rep.violations_from(rest);
    if decode_capped {
        exhaustive = false;
        rep.cap("decoder mutations: wall cap reached");
    }
    let oks = classes.get("ok").copied().unwrap_or(0);
    let err_kinds = classes.keys().filter(|k| k.starts_with("err:")).count();
    if decode_n == 0 || oks == 0 || err_kinds < 3 {
        return machinery(format!("decode family vacuous: {decode_n} cases, {oks} Ok, {err_kinds} distinct errors"));
    }
    rep.set("decode_cases", decode_n);
    rep.set("decode_cases_by_family", json!(by_family));
    rep.set("decode_base_image_sizes", J::Object(base_sizes));
    rep.set("decode_all256_substitution_up_to_bytes", all256_limit as u64);
    rep.set("decode_outcome_classes", json!(classes));
    rep.set("decode_nesting_depths", json!(depths));
    rep.set("decode_nesting_cases_ok", nest_ok);
    rep.set("decode_distinct_mutated_images", distinct_inputs.len() as u64);
    rep.sample(dcases[mutation_cases / 2].clone());
    rep.sample(dcases[dcases.len() - 1].clone());
    eprintln!("[C10] decode: {decode_n} cases at {:.1}s", ctx.elapsed());

    rep.set("evaluations", codec_n + crash_n + decode_n);
    rep.set("distinct_nontrivial", codec_hashes.len() as u64 + nontrivial_crash + distinct_inputs.len() as u64);
    rep.set("rule", format!("codec: every leaf value (31 tags x boundary payloads), every depth-1 container over the leaves (arrays of length 0..3 with 0..2 dimensions, structs with 0..2 fields, pairs over one representative per tag; thorough: pairs over all leaves), every depth-2 container over those, and snapshot-level shapes (names, 0..N entries), each stored and loaded through FileRetainStore. crash: for every (s_old,s_new) pair the call sequence of store(s_new) is recorded under the LD_PRELOAD shim, then the child is killed before every intercepted call and inside every write after p bytes (all p for writes <= {full_limit} B, else first/last 64 and multiples of 512). decode: per base image every single-byte substitution (all 256 values for images <= {all256_limit} B, else {{0,1,7f,80,ff,b-1,b+1}}), every truncation, every 4-byte window x {{0,1,2^31-1,2^31,2^32-1}} LE+BE, and nesting sweeps of hand-encoded arrays/structs, one isolated process per outcome. distinct_nontrivial = distinct encoded images (codec) + crash points at which at least one intercepted call had completed + distinct mutated images that differ from their base."));
    rep.set("exhaustive", exhaustive);
    rep.assume("only process death is modelled: bytes written before the kill are visible to load(); page-cache loss / power failure is not injected");
    rep.assume("decoder totality is judged in a process with a 1 GiB address-space limit on an 8 MiB stack; nesting claimed only to the listed depths");
    rep.assume("entry order of snapshots/struct fields is not part of the oracle (the subject's own equality ignores it); order changes are counted in codec_entry_order_changed");
    Ok(rep)
}

pub fn check_case(case: &J) -> Vec<Violation> {
    let root = verif_dir_from_env().join(".work").join(format!("C10-replay-{}-{}", std::process::id(), SEQ.fetch_add(1, Ordering::Relaxed)));
    if std::fs::create_dir_all(&root).is_err() {
        eprintln!("C10 replay: cannot create {root:?}");
        return Vec::new();
    }
    let out = match case["kind"].as_str() {
        Some("codec") => match js(&case["snap"]) {
            Some(s) => codec_check(&root.join("codec.bin"), &s).viol,
            None => Vec::new(),
        },
        Some("crash") => match find_shim(&verif_dir_from_env()) {
            Ok(shim) => {
                let mut ev = eval_crash(&CrashEnv { shim, root: root.clone() }, case);
                if let Some(m) = ev.machinery {
                    eprintln!("C10 replay: {m}");
                }
                ev.viol.iter_mut().for_each(|v| v.case = case.clone());
                ev.viol
            }
            Err(e) => {
                eprintln!("C10 replay: {e}");
                Vec::new()
            }
        },
        Some("decode") => match iso::run_pool(&decode_pool(&root, 1, None), std::slice::from_ref(case)) {
            Ok(o) => o.into_iter().flatten().filter_map(|o| judge_decode(case, &o).1).collect(),
            Err(e) => {
                eprintln!("C10 replay: {e}");
                Vec::new()
            }
        },
        _ => Vec::new(),
    };
    let _ = std::fs::remove_dir_all(&root);
    out
}

pub fn workers() -> Vec<(&'static str, iso::WorkerFn)> {
    vec![("c10_store", worker_store as iso::WorkerFn), ("c10_decode", worker_decode as iso::WorkerFn)]
}
