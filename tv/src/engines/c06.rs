//! C06 — task scheduling follows the IEC 61131-3 task model on every timeline (core X2:
//! explicit-state search by replay).
//!
//! Explored: generated `CONFIGURATION … TASK … PROGRAM … WITH …` texts × timelines. One timeline
//! step = (advance the clock by `dt` ms, set the SINGLE variables g1/g2, run one cycle of the real
//! `Runtime`). A state is the timeline that reaches it; it is rebuilt by compiling the text again
//! and replaying the timeline. Histories are merged when the reference-model state (of every
//! reading that is still alive, see below) AND the runtime's own `TaskState` (clock - last_run,
//! last_single; read from `impl Debug for Runtime`, used for merging only) are equal. The search
//! is breadth-first and level-synchronous over all configurations, simplest first, so a wall cap
//! leaves "every configuration to depth L" as the covered set.
//!
//! Observed per cycle: `RuntimeEvent::TaskStart` names (tasks executed, in order), an execution
//! log written by the generated program / FB bodies into a global (`xlog := xlog*16 + id`, reset
//! to 0 by the harness before every cycle) and `Runtime::task_overrun_count`.
//!
//! Oracle: a small task model implementing exactly the property statement. Points on which the
//! statement is silent are kept as *readings*; all readings run along the history, a reading
//! dies when it does not explain a cycle, and a violation is reported only when NO reading is
//! left (the signature then names the first cycle at which the documented reading, the first
//! alternative of every point below, fails):
//!   A "since the last activation" of a task with INTERVAL and SINGLE: last periodic activation /
//!     last activation of any kind;
//!   B first periodic activation after start: INTERVAL after start / immediately (as if the task had
//!     been activated one INTERVAL before start);
//!   C overruns of a gap spanning k>=2 intervals: k-1 (one per missed activation) / 1 (one per
//!     incident) / only the missed activation instants at which SINGLE was false (nothing is
//!     "missed" while SINGLE gates the task);
//!   D time of the last activation after a late activation: the cycle time / the nominal grid
//!     point (docs/specs/10-runtime.md §6.6 "eligible again on the next interval boundary");
//!   E "due time" of a late periodic activation: first missed instant (longest waiting, docs §6.2)
//!     / the instant that is actually served.
//! Not in the alphabet (expected behaviour not derivable from statement + docs): SINGLE variables
//! written by the programs themselves during a cycle, several programs on one task (order inside a
//! task), several un-tasked programs whose configuration order differs from their POU order,
//! clock moving backwards, non-BOOL / missing SINGLE variables.

use crate::fw::*;
use crate::iso::WorkerFn;
use crate::par::par_map;
use serde_json::{json, Value as J};
use std::collections::HashSet;
use std::time::{Duration as StdDuration, Instant};
use trust_runtime::debug::RuntimeEvent;
use trust_runtime::harness::TestHarness;
use trust_runtime::value::{Duration, Value};

// ------------------------------------------------------------------------------------------------
// configurations
// ------------------------------------------------------------------------------------------------

#[derive(Clone, Debug, PartialEq, Eq, Hash)]
pub struct TaskSpec {
    /// `None`: no INTERVAL input written; `Some(n)`: `INTERVAL := T#<n>ms`
    pub interval: Option<u32>,
    pub prio: u32,
    /// `None`: no SINGLE input; `Some(0)` = g1, `Some(1)` = g2
    pub single: Option<usize>,
}

impl TaskSpec {
    fn iv(&self) -> i64 {
        self.interval.unwrap_or(0) as i64
    }
    fn kind(&self) -> &'static str {
        match (self.iv() > 0, self.single.is_some()) {
            (true, true) => "mixed",
            (true, false) => "periodic",
            (false, true) => "event",
            (false, false) => "inert",
        }
    }
}

#[derive(Clone, Debug, PartialEq, Eq, Hash)]
pub struct CfgSpec {
    pub family: String,
    pub tasks: Vec<TaskSpec>,
    pub g_init: [bool; 2],
    /// 0: one un-tasked program declared after the tasked ones; 1: one, declared first;
    /// 2: two, one first and one last
    pub bg_layout: u8,
    /// `PROGRAM … WITH` lines in reverse task order
    pub prog_rev: bool,
    /// `Some(k)`: the program of task 0 holds an FB instance `fb` associated `WITH` task k
    pub fb_task: Option<usize>,
    /// wrap the declarations in `RESOURCE R ON CPU … END_RESOURCE`
    pub resource: bool,
}

const ID_FB: u8 = 9;
const ID_BG0: u8 = 10;
const ID_BG1: u8 = 11;

impl CfgSpec {
    fn to_json(&self) -> J {
        json!({
            "family": self.family,
            "tasks": self.tasks.iter().map(|t| json!({
                "interval": t.interval, "prio": t.prio, "single": t.single
            })).collect::<Vec<_>>(),
            "g_init": [self.g_init[0], self.g_init[1]],
            "bg_layout": self.bg_layout,
            "prog_rev": self.prog_rev,
            "fb_task": self.fb_task,
            "resource": self.resource,
        })
    }
    fn from_json(v: &J) -> Option<CfgSpec> {
        let mut tasks = Vec::new();
        for t in v["tasks"].as_array()? {
            tasks.push(TaskSpec {
                interval: t["interval"].as_u64().map(|x| x as u32),
                prio: t["prio"].as_u64()? as u32,
                single: t["single"].as_u64().map(|x| x as usize),
            });
        }
        Some(CfgSpec {
            family: v["family"].as_str().unwrap_or("?").to_string(),
            tasks,
            g_init: [v["g_init"][0].as_bool()?, v["g_init"][1].as_bool()?],
            bg_layout: v["bg_layout"].as_u64()? as u8,
            prog_rev: v["prog_rev"].as_bool()?,
            fb_task: v["fb_task"].as_u64().map(|x| x as usize),
            resource: v["resource"].as_bool().unwrap_or(false),
        })
    }
    fn bg_ids(&self) -> Vec<u8> {
        match self.bg_layout {
            2 => vec![ID_BG0, ID_BG1],
            _ => vec![ID_BG0],
        }
    }
    fn uses(&self, g: usize) -> bool {
        self.tasks.iter().any(|t| t.single == Some(g))
    }
    fn shared_single(&self, i: usize) -> bool {
        let s = self.tasks[i].single;
        s.is_some() && self.tasks.iter().enumerate().any(|(j, t)| j != i && t.single == s)
    }

    /// The ST text. POUs are declared in the same order as the PROGRAM configuration entries.
    pub fn source(&self) -> String {
        use std::fmt::Write;
        let mut s = String::new();
        let ext = "VAR_EXTERNAL\n    xlog : LINT;\nEND_VAR\n";
        if self.fb_task.is_some() {
            let _ = write!(
                s,
                "FUNCTION_BLOCK FbLog\n{ext}xlog := xlog * LINT#16 + LINT#{ID_FB};\nEND_FUNCTION_BLOCK\n\n"
            );
        }
        // PROGRAM configuration entries: (instance, type, task, id)
        let mut entries: Vec<(String, String, Option<usize>, u8)> = Vec::new();
        if self.bg_layout >= 1 {
            entries.push(("IB0".into(), "ProgB0".into(), None, ID_BG0));
        }
        let order: Vec<usize> = if self.prog_rev {
            (0..self.tasks.len()).rev().collect()
        } else {
            (0..self.tasks.len()).collect()
        };
        for i in order {
            entries.push((format!("I{i}"), format!("Prog{i}"), Some(i), (i + 1) as u8));
        }
        match self.bg_layout {
            0 => entries.push(("IB0".into(), "ProgB0".into(), None, ID_BG0)),
            2 => entries.push(("IB1".into(), "ProgB1".into(), None, ID_BG1)),
            _ => {}
        }
        for (_, ty, task, id) in &entries {
            let _ = writeln!(s, "PROGRAM {ty}");
            if self.fb_task.is_some() && *task == Some(0) {
                s.push_str("VAR\n    fb : FbLog;\nEND_VAR\n");
            }
            let _ = write!(s, "{ext}xlog := xlog * LINT#16 + LINT#{id};\nEND_PROGRAM\n\n");
        }
        s.push_str("CONFIGURATION C\n");
        if self.resource {
            s.push_str("RESOURCE R ON CPU\n");
        }
        let b = |v: bool| if v { "TRUE" } else { "FALSE" };
        let _ = write!(
            s,
            "VAR_GLOBAL\n    g1 : BOOL := {};\n    g2 : BOOL := {};\n    xlog : LINT := 0;\nEND_VAR\n",
            b(self.g_init[0]),
            b(self.g_init[1])
        );
        for (i, t) in self.tasks.iter().enumerate() {
            let mut parts = Vec::new();
            if let Some(g) = t.single {
                parts.push(format!("SINGLE := g{}", g + 1));
            }
            if let Some(n) = t.interval {
                parts.push(format!("INTERVAL := T#{n}ms"));
            }
            parts.push(format!("PRIORITY := {}", t.prio));
            let _ = writeln!(s, "TASK T{i} ({});", parts.join(", "));
        }
        for (inst, ty, task, _) in &entries {
            let with = match task {
                Some(i) => format!(" WITH T{i}"),
                None => String::new(),
            };
            let fb = match (self.fb_task, task) {
                (Some(k), Some(0)) => format!(" (fb WITH T{k})"),
                _ => String::new(),
            };
            let _ = writeln!(s, "PROGRAM {inst}{with} : {ty}{fb};");
        }
        if self.resource {
            s.push_str("END_RESOURCE\n");
        }
        s.push_str("END_CONFIGURATION\n");
        s
    }

    /// execution units (log ids) of task i; their relative order is not fixed by the statement
    fn units(&self, i: usize) -> Vec<u8> {
        let mut u = vec![(i + 1) as u8];
        if self.fb_task == Some(i) {
            u.push(ID_FB);
        }
        u
    }
}

/// one timeline step
#[derive(Clone, Copy, Debug, PartialEq, Eq, Hash)]
pub struct Ev {
    pub dt: i64,
    pub g: [bool; 2],
}

const DTS: [i64; 5] = [0, 1, 2, 3, 7];

fn events_for(cfg: &CfgSpec) -> Vec<Ev> {
    // a SINGLE variable that no task reads cannot influence anything: it keeps its initial value
    let v1: Vec<bool> = if cfg.uses(0) { vec![false, true] } else { vec![cfg.g_init[0]] };
    let v2: Vec<bool> = if cfg.uses(1) { vec![false, true] } else { vec![cfg.g_init[1]] };
    let mut out = Vec::new();
    for &dt in &DTS {
        for &a in &v1 {
            for &b in &v2 {
                out.push(Ev { dt, g: [a, b] });
            }
        }
    }
    out
}

fn tl_json(tl: &[Ev]) -> J {
    J::Array(tl.iter().map(|e| json!([e.dt, e.g[0], e.g[1]])).collect())
}

fn tl_from_json(v: &J) -> Option<Vec<Ev>> {
    let mut out = Vec::new();
    for e in v.as_array()? {
        out.push(Ev { dt: e[0].as_i64()?, g: [e[1].as_bool()?, e[2].as_bool()?] });
    }
    Some(out)
}

// ------------------------------------------------------------------------------------------------
// driving the real runtime
// ------------------------------------------------------------------------------------------------

#[derive(Clone, Debug, Default)]
pub struct Obs {
    /// tasks started in this cycle (declaration indices; usize::MAX = unknown name)
    pub tasks: Vec<usize>,
    /// execution log of program / FB bodies
    pub log: Vec<u8>,
    /// cumulative overrun counter per task after the cycle
    pub ovr: Vec<u64>,
    /// error returned by the cycle
    pub err: Option<String>,
}

pub enum ReplayErr {
    Compile(String),
    Panic(String),
    Harness(String),
}

fn int_of(v: &Value) -> Option<i128> {
    Some(match v {
        Value::SInt(x) => *x as i128,
        Value::Int(x) => *x as i128,
        Value::DInt(x) => *x as i128,
        Value::LInt(x) => *x as i128,
        Value::USInt(x) => *x as i128,
        Value::UInt(x) => *x as i128,
        Value::UDInt(x) => *x as i128,
        Value::ULInt(x) => *x as i128,
        _ => return None,
    })
}

/// Scheduling memory of the real runtime after the last step: per task (clock - last_run in ns,
/// last_single). `TaskState` has no public accessor; it is read from `impl Debug for Runtime`
/// and used ONLY to canonicalise states (histories are merged only when the model state and this
/// hidden state are both equal), never by the oracle. `None` if the Debug text is not understood.
pub type Hidden = Option<Vec<(i64, bool)>>;

fn hidden_state(dbg: &str, n_tasks: usize) -> Hidden {
    let num_after = |s: &str, key: &str| -> Option<i64> {
        let i = s.find(key)? + key.len();
        let rest = &s[i..];
        let end = rest.find(|c: char| !(c.is_ascii_digit() || c == '-')).unwrap_or(rest.len());
        rest[..end].parse().ok()
    };
    let ts = &dbg[dbg.find("task_state: {")?..];
    let now = {
        let ct = &ts[ts.find("current_time: ")?..];
        num_after(ct, "nanos: ")?
    };
    let mut out = Vec::new();
    for i in 0..n_tasks {
        let key = format!("\"T{i}\": TaskState {{");
        let t = &ts[ts.find(&key)? + key.len()..];
        let t = &t[..t.find("overrun_count")?];
        let ls = &t[t.find("last_single: ")? + "last_single: ".len()..];
        let last_single = if ls.starts_with("true") {
            true
        } else if ls.starts_with("false") {
            false
        } else {
            return None;
        };
        let lr = &t[t.find("last_run: ")?..];
        out.push((now - num_after(lr, "nanos: ")?, last_single));
    }
    Some(out)
}

/// Compiles `src` and replays the timeline on a fresh runtime; one observation per step.
pub fn replay(cfg: &CfgSpec, src: &str, tl: &[Ev]) -> Result<(Vec<Obs>, Hidden), ReplayErr> {
    let r = catch(|| -> Result<(Vec<Obs>, Hidden), ReplayErr> {
        let mut h = TestHarness::from_source(src).map_err(|e| ReplayErr::Compile(format!("{e}")))?;
        let debug = h.runtime_mut().enable_debug();
        let names: Vec<String> = (0..cfg.tasks.len()).map(|i| format!("T{i}")).collect();
        if h.runtime().tasks().len() != cfg.tasks.len() {
            return Err(ReplayErr::Harness(format!(
                "{} tasks registered for {} TASK declarations",
                h.runtime().tasks().len(),
                cfg.tasks.len()
            )));
        }
        let mut out = Vec::with_capacity(tl.len());
        for ev in tl {
            h.advance_time(Duration::from_millis(ev.dt));
            {
                let st = h.runtime_mut().storage_mut();
                st.set_global("g1", Value::Bool(ev.g[0]));
                st.set_global("g2", Value::Bool(ev.g[1]));
                st.set_global("xlog", Value::LInt(0));
            }
            let _ = debug.drain_runtime_events();
            let res = h.cycle();
            let mut o = Obs::default();
            if let Some(e) = res.errors.first() {
                o.err = Some(format!("{e:?}"));
            }
            for e in debug.drain_runtime_events() {
                if let RuntimeEvent::TaskStart { name, .. } = e {
                    o.tasks.push(names.iter().position(|n| n == name.as_str()).unwrap_or(usize::MAX));
                }
            }
            let raw = h
                .runtime()
                .storage()
                .get_global("xlog")
                .and_then(int_of)
                .ok_or_else(|| ReplayErr::Harness("global xlog unreadable".into()))?;
            let mut x = raw;
            if x < 0 {
                return Err(ReplayErr::Harness(format!("negative execution log {raw}")));
            }
            while x > 0 {
                o.log.push((x % 16) as u8);
                x /= 16;
            }
            o.log.reverse();
            for n in &names {
                o.ovr.push(h.runtime().task_overrun_count(n).unwrap_or(u64::MAX));
            }
            let stop = o.err.is_some();
            out.push(o);
            if stop {
                break;
            }
        }
        let hidden = hidden_state(&format!("{:?}", h.runtime()), cfg.tasks.len());
        Ok((out, hidden))
    });
    match r {
        Ok(x) => x,
        Err(m) => Err(ReplayErr::Panic(m)),
    }
}

// ------------------------------------------------------------------------------------------------
// reference model (independent of the subject): the property statement, per reading
// ------------------------------------------------------------------------------------------------

#[derive(Clone, Copy, Debug, PartialEq, Eq)]
pub struct Reading {
    /// A: event activations also count as "the last activation"
    any: bool,
    /// B: first periodic activation is due immediately at start
    immediate: bool,
    /// C: 0 = k-1 overruns, 1 = one per incident, 2 = only instants at which SINGLE was false
    ovr: u8,
    /// D: last activation := nominal grid point instead of the cycle time
    grid: bool,
    /// E: due time of a late activation = the served instant instead of the first missed one
    served: bool,
}

impl Reading {
    fn name(&self) -> String {
        format!(
            "last={} first={} overruns={} phase={} due={}",
            if self.any { "any-activation" } else { "periodic-activation" },
            if self.immediate { "immediately" } else { "after-one-interval" },
            ["per-missed-activation", "per-incident", "ungated-instants-only"][self.ovr as usize],
            if self.grid { "grid" } else { "cycle-time" },
            if self.served { "served-instant" } else { "first-missed-instant" },
        )
    }
}

/// Readings that can differ on this configuration (A and C=2 need a task with INTERVAL and SINGLE,
/// E needs two tasks, everything needs a task with INTERVAL > 0).
pub fn readings_for(cfg: &CfgSpec) -> Vec<Reading> {
    let periodic = cfg.tasks.iter().any(|t| t.iv() > 0);
    let mixed = cfg.tasks.iter().any(|t| t.kind() == "mixed");
    let many = cfg.tasks.len() > 1;
    readings()
        .into_iter()
        .filter(|r| {
            (periodic || (!r.immediate && !r.grid && r.ovr == 0))
                && (mixed || (!r.any && r.ovr != 2))
                && (many || !r.served)
        })
        .collect()
}

/// Fixed order; the first one is the reading documented in docs/specs/10-runtime.md §4.3.
pub fn readings() -> Vec<Reading> {
    let mut v = Vec::new();
    for immediate in [false, true] {
        for grid in [false, true] {
            for any in [false, true] {
                for ovr in [0u8, 1, 2] {
                    // E is not kept as an alternative: the statement says "earlier due time" and the docs
                    // (10-runtime.md §6.2) say "longest waiting", i.e. the first missed instant
                    for served in [false] {
                        v.push(Reading { any, immediate, ovr, grid, served });
                    }
                }
            }
        }
    }
    v
}

#[derive(Clone, Debug, PartialEq, Eq, Hash)]
struct TaskM {
    /// time of "the last activation" (start of the run initially)
    last: i64,
    last_single: bool,
    /// reading C=2 only: number of nominal activation instants `last + j*INTERVAL` (j >= 1) that
    /// lie before the previous cycle's successor (i.e. already passed) at which SINGLE was false
    ungated: i64,
    /// reading C=2 only: SINGLE value at the most recent such instant
    last_instant_single: bool,
}

#[derive(Clone, Debug)]
struct ModelState {
    /// clock value of the previous cycle (0 = start)
    prev_now: i64,
    tasks: Vec<TaskM>,
}

#[derive(Clone, Debug)]
struct TaskEval {
    single_now: bool,
    edge: bool,
    elapsed: i64,
    /// number of whole intervals elapsed when periodically due
    k: i64,
    /// Some((due time, "event" | "periodic")) when due
    due: Option<(i64, &'static str)>,
    ovr: u64,
}

#[derive(Clone, Debug)]
struct Pred {
    order: Vec<usize>,
    evals: Vec<TaskEval>,
}

fn model_init(r: Reading, cfg: &CfgSpec) -> ModelState {
    ModelState {
        prev_now: 0,
        tasks: cfg
            .tasks
            .iter()
            .map(|t| {
                let init_single = t.single.map(|g| cfg.g_init[g]).unwrap_or(false);
                TaskM {
                    last: if r.immediate { -t.iv() } else { 0 },
                    last_single: init_single,
                    ungated: 0,
                    last_instant_single: false,
                }
            })
            .collect(),
    }
}

fn model_step(r: Reading, cfg: &CfgSpec, st: &mut ModelState, now: i64, g: [bool; 2]) -> Pred {
    let mut evals = Vec::with_capacity(cfg.tasks.len());
    let mut ready: Vec<(u32, i64, usize)> = Vec::new();
    let prev_now = st.prev_now;
    st.prev_now = now;
    for (i, t) in cfg.tasks.iter().enumerate() {
        let m = &mut st.tasks[i];
        let single_now = t.single.map(|v| g[v]).unwrap_or(false);
        let edge = t.single.is_some() && !m.last_single && single_now;
        let iv = t.iv();
        let elapsed = now - m.last;
        let track_gate = r.ovr == 2 && t.single.is_some() && iv > 0;
        let mut e = TaskEval { single_now, edge, elapsed, k: 0, due: None, ovr: 0 };
        if track_gate {
            // nominal activation instants in [prev_now, now): SINGLE had its previous value there
            let lo = (prev_now - m.last + iv - 1).div_euclid(iv).max(1); // first j with last+j*iv >= prev_now
            let hi = (now - 1 - m.last).div_euclid(iv); // last j with last+j*iv < now
            if hi >= lo {
                if !m.last_single {
                    m.ungated += hi - lo + 1;
                }
                m.last_instant_single = m.last_single;
            }
        }
        if edge {
            e.due = Some((now, "event"));
            if r.any {
                m.last = now;
                m.ungated = 0;
            }
        }
        if iv > 0 && !single_now && elapsed >= iv {
            // (an edge needs SINGLE true now, so the two triggers never coincide)
            let k = elapsed / iv;
            e.k = k;
            e.ovr = match r.ovr {
                0 => (k - 1) as u64,
                1 => (k > 1) as u64,
                _ => {
                    if track_gate {
                        // the instant last+k*iv is the one served now; if it lies before `now` it
                        // has been counted above and is taken out again
                        let served_counted = m.last + k * iv < now && !m.last_instant_single;
                        (m.ungated - served_counted as i64).max(0) as u64
                    } else {
                        (k - 1) as u64
                    }
                }
            };
            let due_at = if r.served { m.last + k * iv } else { m.last + iv };
            e.due = Some((due_at, "periodic"));
            m.last = if r.grid { m.last + k * iv } else { now };
            m.ungated = 0;
        }
        m.last_single = single_now;
        if let Some((d, _)) = e.due {
            ready.push((t.prio, d, i));
        }
        evals.push(e);
    }
    // ascending PRIORITY number, then earlier due time, then declaration order
    ready.sort();
    Pred { order: ready.into_iter().map(|x| x.2).collect(), evals }
}

/// state of one reading relative to `now`, for the canonical key
fn model_key(cfg: &CfgSpec, st: &ModelState, now: i64, out: &mut Vec<i64>) {
    for (t, m) in cfg.tasks.iter().zip(&st.tasks) {
        out.push(if t.iv() > 0 { now - m.last } else { 0 });
        out.push(m.last_single as i64);
        out.push(m.ungated);
        out.push((m.ungated > 0 && m.last_instant_single) as i64);
    }
}

// ------------------------------------------------------------------------------------------------
// comparing one cycle with one reading
// ------------------------------------------------------------------------------------------------

/// log expected for a task order: units of each task (any order inside a task), then the
/// un-tasked programs in declaration order
fn log_matches(cfg: &CfgSpec, order: &[usize], log: &[u8]) -> bool {
    let mut pos = 0;
    for &i in order {
        let mut u = cfg.units(i);
        let n = u.len();
        if pos + n > log.len() {
            return false;
        }
        let mut got = log[pos..pos + n].to_vec();
        got.sort();
        u.sort();
        if got != u {
            return false;
        }
        pos += n;
    }
    log[pos..] == cfg.bg_ids()[..]
}

struct Verdict {
    set_ok: bool,
    order_ok: bool,
    log_ok: bool,
    ovr_ok: bool,
}

impl Verdict {
    fn ok(&self) -> bool {
        self.set_ok && self.order_ok && self.log_ok && self.ovr_ok
    }
}

fn compare(cfg: &CfgSpec, p: &Pred, o: &Obs, prev_ovr: &[u64]) -> Verdict {
    let mut a = p.order.clone();
    let mut b = o.tasks.clone();
    a.sort();
    b.sort();
    let set_ok = a == b;
    let order_ok = p.order == o.tasks;
    // the log is only judged when the task sequence itself is right, so that one defect is not
    // reported under two clauses
    let log_ok = if order_ok {
        log_matches(cfg, &p.order, &o.log)
    } else {
        true
    };
    let ovr_ok = (0..cfg.tasks.len()).all(|i| o.ovr[i].checked_sub(prev_ovr[i]) == Some(p.evals[i].ovr));
    Verdict { set_ok, order_ok, log_ok, ovr_ok }
}

fn norm_msg(m: &str) -> String {
    let s: String = m.chars().map(|c| if c.is_ascii_digit() { '#' } else { c }).take(60).collect();
    s
}

/// Signature + description of the disagreement between a cycle and reading `r`.
fn diagnose(cfg: &CfgSpec, r: Reading, p: &Pred, o: &Obs, prev_ovr: &[u64], v: &Verdict) -> (String, String) {
    let names = |x: &[usize]| {
        x.iter()
            .map(|i| if *i == usize::MAX { "?".to_string() } else { format!("T{i}") })
            .collect::<Vec<_>>()
            .join(",")
    };
    let head = format!(
        "executed tasks [{}], log {:?}; the documented reading ({}) expects tasks [{}]",
        names(&o.tasks),
        o.log,
        r.name(),
        names(&p.order)
    );
    if o.tasks.iter().any(|i| *i == usize::MAX) {
        return ("C06/events/unknown-task-name".into(), format!("TaskStart for a task that was not declared; {head}"));
    }
    if !v.set_ok {
        // executed more than once
        for (i, t) in cfg.tasks.iter().enumerate() {
            let n = o.tasks.iter().filter(|x| **x == i).count();
            if n > 1 {
                return (
                    format!("C06/once/{}", t.kind()),
                    format!("task T{i} started {n} times in one cycle; {head}"),
                );
            }
        }
        // due but not executed
        for (i, t) in cfg.tasks.iter().enumerate() {
            if p.order.contains(&i) && !o.tasks.contains(&i) {
                let e = &p.evals[i];
                let why = match e.due {
                    Some((_, "event")) => "event".to_string(),
                    _ => {
                        if e.k > 1 {
                            "periodic-after-gap".to_string()
                        } else if e.elapsed == t.iv() {
                            "periodic-exact".to_string()
                        } else {
                            "periodic-late".to_string()
                        }
                    }
                };
                let shared = if why == "event" && cfg.shared_single(i) { "/shared-single" } else { "" };
                return (
                    format!("C06/due/missing/{why}/{}{shared}", t.kind()),
                    format!(
                        "task T{i} ({}, INTERVAL {} ms) is due ({why}: elapsed {} ms, SINGLE now {}, edge {}) but was not executed; {head}",
                        t.kind(), t.iv(), e.elapsed, e.single_now, e.edge
                    ),
                );
            }
        }
        // executed but not due
        for (i, t) in cfg.tasks.iter().enumerate() {
            if !p.order.contains(&i) && o.tasks.contains(&i) {
                let e = &p.evals[i];
                let cond = if t.single.is_some() && e.single_now {
                    "single-held"
                } else if t.iv() == 0 {
                    "no-trigger"
                } else if e.elapsed < t.iv() {
                    "early"
                } else {
                    "other"
                };
                return (
                    format!("C06/due/spurious/{cond}/{}", t.kind()),
                    format!(
                        "task T{i} ({}, INTERVAL {} ms) was executed but is not due ({cond}: elapsed {} ms, SINGLE now {}, edge {}); {head}",
                        t.kind(), t.iv(), e.elapsed, e.single_now, e.edge
                    ),
                );
            }
        }
    }
    if !v.order_ok {
        let pos = (0..p.order.len()).find(|&k| p.order[k] != o.tasks[k]).unwrap_or(0);
        let (a, b) = (p.order[pos], o.tasks[pos]);
        let (da, db) = (p.evals[a].due.unwrap(), p.evals[b].due.unwrap());
        let clause = if cfg.tasks[a].prio != cfg.tasks[b].prio {
            "priority".to_string()
        } else if da.0 != db.0 {
            let mut k = [da.1, db.1];
            k.sort();
            format!("due-time/{}+{}", k[0], k[1])
        } else {
            "declaration".to_string()
        };
        return (
            format!("C06/order/{clause}"),
            format!(
                "T{a} (PRIORITY {}, due at {} ms) must run before T{b} (PRIORITY {}, due at {} ms); {head}",
                cfg.tasks[a].prio, da.0, cfg.tasks[b].prio, db.0
            ),
        );
    }
    if !v.log_ok {
        let bg = cfg.bg_ids();
        let count = |id: u8| o.log.iter().filter(|x| **x == id).count();
        let detail = if bg.iter().any(|id| count(*id) == 0) {
            "background-missing"
        } else if bg.iter().any(|id| count(*id) > 1) {
            "background-twice"
        } else if cfg.fb_task.is_some() && count(ID_FB) != p.order.iter().filter(|i| cfg.fb_task == Some(**i)).count() {
            "fb-instance"
        } else if (0..cfg.tasks.len()).any(|i| count((i + 1) as u8) != p.order.iter().filter(|x| **x == i).count()) {
            "task-program"
        } else if o.log.len() >= bg.len() && o.log[o.log.len() - bg.len()..] != bg[..] {
            "background-position"
        } else {
            "sequence"
        };
        let mut exp: Vec<u8> = p.order.iter().flat_map(|i| cfg.units(*i)).collect();
        exp.extend(bg);
        return (
            format!("C06/programs/{detail}"),
            format!("program/FB bodies executed in the cycle: {:?}, expected {:?} (1..8 = program of task 0..7, 9 = FB instance, 10/11 = un-tasked programs); {head}", o.log, exp),
        );
    }
    // overruns
    for (i, t) in cfg.tasks.iter().enumerate() {
        let got = o.ovr[i].checked_sub(prev_ovr[i]);
        let exp = p.evals[i].ovr;
        if got != Some(exp) {
            let what = match got {
                Some(g) if exp == 0 && g > 0 => {
                    if p.evals[i].due.is_some() { "spurious" } else { "spurious-not-due" }
                }
                Some(0) => "uncounted",
                _ => "miscount",
            };
            return (
                format!("C06/overrun/{what}/{}", t.kind()),
                format!(
                    "overrun counter of T{i} ({}, INTERVAL {} ms) changed by {:?} in this cycle, expected {exp} (elapsed {} ms = {} whole intervals); {head}",
                    t.kind(), t.iv(), got, p.evals[i].elapsed, p.evals[i].k
                ),
            );
        }
    }
    ("C06/unexplained".into(), head)
}

// ------------------------------------------------------------------------------------------------
// judging a whole history
// ------------------------------------------------------------------------------------------------

pub struct Judgement {
    /// canonical key after the last step (None: do not expand)
    pub key: Option<Vec<i64>>,
    /// (step at which no reading is left, signature, description)
    pub violation: Option<(usize, String, String)>,
    /// readings alive at the end
    pub alive: usize,
    pub tasks_run: usize,
    pub overruns: u64,
    pub multi: bool,
    /// reading #0 explains the whole history
    pub primary_alive: bool,
    pub hidden_seen: bool,
}

fn case_json(cfg: &CfgSpec, tl: &[Ev]) -> J {
    json!({"cfg": cfg.to_json(), "timeline": tl_json(tl), "source": cfg.source()})
}

/// Runs all readings along the observations.
pub fn judge(cfg: &CfgSpec, tl: &[Ev], obs: &[Obs], hidden: &Hidden) -> Judgement {
    let rds = readings_for(cfg);
    let mut alive: Vec<(usize, ModelState)> =
        rds.iter().enumerate().map(|(i, r)| (i, model_init(*r, cfg))).collect();
    let mut now = 0i64;
    let mut prev_ovr = vec![0u64; cfg.tasks.len()];
    let mut primary_fail: Option<(String, String)> = None;
    let mut j = Judgement { key: None, violation: None, alive: 0, tasks_run: 0, overruns: 0, multi: false, primary_alive: false, hidden_seen: false };
    for (step, ev) in tl.iter().enumerate() {
        now += ev.dt;
        let Some(o) = obs.get(step) else {
            return j;
        };
        if let Some(e) = &o.err {
            let variant: String = e.chars().take_while(|c| c.is_alphanumeric() || *c == '_').collect();
            j.violation = Some((
                step,
                format!("C06/cycle-error/{variant}"),
                format!("execute_cycle failed with {e} at step {step} of the timeline; no task model explains a failing cycle"),
            ));
            return j;
        }
        let mut next = Vec::new();
        for (ri, mut st) in alive.into_iter() {
            let p = model_step(rds[ri], cfg, &mut st, now, ev.g);
            let v = compare(cfg, &p, o, &prev_ovr);
            if v.ok() {
                next.push((ri, st));
            } else if ri == 0 {
                // The signature of a history that no reading explains is taken from the point at
                // which the documented reading (#0, docs/specs/10-runtime.md §4.3) fails first:
                // that names the behaviour that deviates, instead of a follow-up symptom relative
                // to whichever reading happened to survive longest.
                let (sig, what) = diagnose(cfg, rds[0], &p, o, &prev_ovr, &v);
                primary_fail = Some((
                    sig,
                    format!("step {step} (t = {now} ms, g1 = {}, g2 = {}): {what}", ev.g[0], ev.g[1]),
                ));
            }
        }
        if next.is_empty() {
            let (sig, what) = primary_fail.clone().expect("reading #0 has failed when all have");
            j.violation = Some((
                step,
                sig,
                format!("{what}. None of the {} readings of the statement explains the history up to step {step}.", rds.len()),
            ));
            return j;
        }
        alive = next;
        j.tasks_run += o.tasks.len();
        j.multi |= o.tasks.len() > 1;
        j.overruns += o.ovr.iter().zip(&prev_ovr).map(|(a, b)| a - b).sum::<u64>();
        prev_ovr = o.ovr.clone();
    }
    let mut key = Vec::new();
    let mut mask = 0i64;
    for (ri, _) in &alive {
        mask |= 1 << ri;
    }
    key.push(mask);
    for (_, st) in &alive {
        model_key(cfg, st, now, &mut key);
    }
    // hidden state of the implementation, restricted to the fields the configuration can make
    // relevant (last_run only matters with INTERVAL > 0, last_single only with a SINGLE input)
    match hidden {
        Some(h) => {
            for (t, (el, ls)) in cfg.tasks.iter().zip(h) {
                key.push(if t.iv() > 0 { *el } else { 0 });
                key.push((t.single.is_some() && *ls) as i64);
            }
        }
        None => key.push(-1),
    }
    j.hidden_seen = hidden.is_some();
    j.alive = alive.len();
    j.primary_alive = primary_fail.is_none();
    j.key = Some(key);
    j
}

fn eval_history(cfg: &CfgSpec, src: &str, tl: &[Ev]) -> Result<Judgement, Violation> {
    match replay(cfg, src, tl) {
        Ok((obs, hidden)) => Ok(judge(cfg, tl, &obs, &hidden)),
        Err(ReplayErr::Panic(m)) => Err(Violation {
            signature: format!("C06/panic/cycle/{}", norm_msg(&m)),
            what: format!("the runtime panicked while compiling / replaying the timeline: {m}"),
            case: case_json(cfg, tl),
        }),
        Err(ReplayErr::Compile(m)) => Err(Violation {
            signature: "C06/machinery/compile".into(),
            what: m,
            case: case_json(cfg, tl),
        }),
        Err(ReplayErr::Harness(m)) => Err(Violation {
            signature: "C06/machinery/harness".into(),
            what: m,
            case: case_json(cfg, tl),
        }),
    }
}

pub fn check_case(case: &J) -> Vec<Violation> {
    let (Some(cfg), Some(tl)) = (CfgSpec::from_json(&case["cfg"]), tl_from_json(&case["timeline"])) else {
        return Vec::new();
    };
    let src = cfg.source();
    match eval_history(&cfg, &src, &tl) {
        Ok(j) => j
            .violation
            .into_iter()
            .map(|(step, signature, what)| Violation { signature, what, case: case_json(&cfg, &tl[..=step]) })
            .collect(),
        Err(v) if v.signature.starts_with("C06/machinery/") => Vec::new(),
        Err(v) => vec![v],
    }
}

// ------------------------------------------------------------------------------------------------
// enumeration of configurations
// ------------------------------------------------------------------------------------------------

/// SINGLE assignments up to renaming of g1/g2: the first SINGLE variable used is g1
fn canonical_singles(tasks: &[TaskSpec]) -> bool {
    match tasks.iter().find_map(|t| t.single) {
        None | Some(0) => true,
        Some(_) => false,
    }
}

fn product(menu: &[TaskSpec], n: usize) -> Vec<Vec<TaskSpec>> {
    let mut out: Vec<Vec<TaskSpec>> = vec![Vec::new()];
    for _ in 0..n {
        let mut next = Vec::new();
        for p in &out {
            for m in menu {
                let mut q = p.clone();
                q.push(m.clone());
                next.push(q);
            }
        }
        out = next;
    }
    out.retain(|t| canonical_singles(t));
    out
}

fn base(family: &str, tasks: Vec<TaskSpec>) -> CfgSpec {
    CfgSpec {
        family: family.to_string(),
        tasks,
        g_init: [false, false],
        bg_layout: 0,
        prog_rev: false,
        fb_task: None,
        resource: false,
    }
}

fn kind(interval: Option<u32>, single: Option<usize>) -> TaskSpec {
    TaskSpec { interval, prio: 0, single }
}

/// all task lists: one kind per task (product, up to renaming of g1/g2) x the given priority patterns
fn combos(kinds: &[TaskSpec], n: usize, prios: &[&[u32]]) -> Vec<Vec<TaskSpec>> {
    let mut out = Vec::new();
    for tasks in product(kinds, n) {
        for p in prios {
            let mut t = tasks.clone();
            for (x, pr) in t.iter_mut().zip(p.iter()) {
                x.prio = *pr;
            }
            out.push(t);
        }
    }
    out
}

/// The explored configurations with the timeline depth of each, simplest first.
/// Equal-priority patterns are represented once (all 0), since only the relative order matters.
pub fn configs(tier: Tier) -> Vec<(CfgSpec, usize)> {
    let q = tier == Tier::Quick;
    let mut out: Vec<(CfgSpec, usize)> = Vec::new();
    let (p2, p3) = (kind(Some(2), None), kind(Some(3), None));
    let e1 = kind(None, Some(0));
    let (m21, m31) = (kind(Some(2), Some(0)), kind(Some(3), Some(0)));
    let all_single = [None, Some(0), Some(1)];
    let kinds_of = |ivs: &[Option<u32>], singles: &[Option<usize>], inert: bool| -> Vec<TaskSpec> {
        let mut v = Vec::new();
        for &i in ivs {
            for &s in singles {
                let k = kind(i, s);
                if inert || k.kind() != "inert" {
                    v.push(k);
                }
            }
        }
        v
    };

    // one task: INTERVAL absent / 0 / 2 / 3 ms x SINGLE none / g1 x PRIORITY 0 / 1
    for t in combos(&kinds_of(&[None, Some(0), Some(2), Some(3)], &[None, Some(0)], true), 1, &[&[0], &[1]]) {
        out.push((base("base1", t), tier.pick(4, 7)));
    }
    // one task, SINGLE variable initially TRUE
    for t in combos(&kinds_of(&[None, Some(2), Some(3)], &[Some(0)], false), 1, &[&[0]]) {
        let mut c = base("ginit1", t);
        c.g_init = [true, false];
        out.push((c, tier.pick(4, 6)));
    }
    // one task, un-tasked program declared before the tasked one
    for t in combos(&[p2.clone(), e1.clone(), m21.clone()], 1, &[&[0]]) {
        let mut c = base("layout1", t);
        c.bg_layout = 1;
        out.push((c, tier.pick(3, 5)));
    }

    // two tasks: the whole menu
    let two_iv: &[Option<u32>] = if q { &[None, Some(2), Some(3)] } else { &[None, Some(0), Some(2), Some(3)] };
    let deep2 = [p2.clone(), p3.clone(), e1.clone(), m21.clone()];
    // (a task with neither trigger next to another task only in the thorough tier)
    for t in combos(&kinds_of(two_iv, &all_single, !q), 2, &[&[0, 0], &[0, 1], &[1, 0]]) {
        // thorough: the pairs over {2 ms, 3 ms, event g1, 2 ms + g1} one step deeper
        if !q && t.iter().all(|x| deep2.iter().any(|k| k.interval == x.interval && k.single == x.single)) {
            out.push((base("base2d", t), 5));
        } else {
            out.push((base("base2", t), tier.pick(3, 4)));
        }
    }
    // two tasks, g1 initially TRUE
    let gi_kinds: Vec<TaskSpec> = if q {
        vec![p2.clone(), e1.clone(), m21.clone(), m31.clone()]
    } else {
        kinds_of(&[None, Some(2), Some(3)], &all_single, false)
    };
    for t in combos(&gi_kinds, 2, &[&[0, 0], &[1, 0]]) {
        let mut c = base("ginit2", t);
        if !c.uses(0) {
            continue;
        }
        c.g_init = [true, false];
        out.push((c, tier.pick(2, 3)));
    }
    // two tasks, two un-tasked programs (first and last), PROGRAM lines in reverse task order,
    // RESOURCE wrapper
    let lay_kinds: Vec<TaskSpec> = if q {
        vec![p2.clone(), p3.clone(), e1.clone(), m21.clone()]
    } else {
        kinds_of(&[None, Some(2), Some(3)], &all_single, false)
    };
    for t in combos(&lay_kinds, 2, &[&[0, 0], &[1, 0]]) {
        let mut c = base("layout2", t);
        c.bg_layout = 2;
        c.prog_rev = true;
        c.resource = true;
        out.push((c, tier.pick(2, 3)));
    }
    // two tasks and an FB instance held by the program of task 0, associated with task 0 or 1
    let fb_kinds: Vec<TaskSpec> = if q {
        vec![p2.clone(), e1.clone(), m31.clone()]
    } else {
        kinds_of(&[None, Some(2), Some(3)], &all_single, false)
    };
    for t in combos(&fb_kinds, 2, &[&[0, 0], &[1, 0]]) {
        for k in 0..2 {
            let mut c = base("fb2", t.clone());
            c.fb_task = Some(k);
            c.resource = true;
            out.push((c, tier.pick(2, 3)));
        }
    }

    // three tasks, every priority pattern
    let pr3: [&[u32]; 7] = [&[0, 0, 0], &[0, 0, 1], &[0, 1, 0], &[1, 0, 0], &[0, 1, 1], &[1, 0, 1], &[1, 1, 0]];
    let small3 = [p2.clone(), p3.clone(), e1.clone(), m21.clone()];
    for t in combos(&small3, 3, &pr3) {
        out.push((base("base3", t), tier.pick(2, 3)));
    }
    if !q {
        for t in combos(&kinds_of(&[None, Some(2), Some(3)], &all_single, false), 3, &pr3) {
            if t.iter().all(|x| small3.iter().any(|k| k.interval == x.interval && k.single == x.single)) {
                continue; // already above, deeper
            }
            out.push((base("base3w", t), 2));
        }
        // four tasks
        let pr4: [&[u32]; 3] = [&[0, 0, 0, 0], &[1, 0, 0, 0], &[0, 1, 0, 1]];
        let small4 = [p2.clone(), e1.clone(), m21.clone()];
        for t in combos(&small4, 4, &pr4) {
            out.push((base("base4", t), 3));
        }
        for t in combos(&kinds_of(&[None, Some(2), Some(3)], &[None, Some(0)], false), 4, &pr4) {
            if t.iter().all(|x| small4.iter().any(|k| k.interval == x.interval && k.single == x.single)) {
                continue;
            }
            out.push((base("base4w", t), 2));
        }
        // a fixed family of 6 tasks
        let t = |interval: Option<u32>, prio: u32, single: Option<usize>| TaskSpec { interval, prio, single };
        out.push((
            base(
                "six",
                vec![
                    t(Some(2), 1, None),
                    t(Some(3), 1, None),
                    t(None, 1, Some(0)),
                    t(Some(2), 1, Some(0)),
                    t(Some(3), 0, Some(1)),
                    t(None, 1, Some(1)),
                ],
            ),
            3,
        ));
        out.push((
            base(
                "six",
                vec![
                    t(Some(3), 0, None),
                    t(Some(2), 0, None),
                    t(Some(2), 0, Some(0)),
                    t(None, 0, Some(0)),
                    t(Some(3), 0, None),
                    t(Some(2), 1, None),
                ],
            ),
            3,
        ));
    }
    out
}

// ------------------------------------------------------------------------------------------------
// search: breadth-first over timelines, level by level over ALL configurations (so that a wall cap
// leaves a well-defined covered set: every configuration to depth L-1, a prefix of them to depth L)
// ------------------------------------------------------------------------------------------------

/// 128-bit fingerprint of a canonical key (two FNV-1a variants); the `seen` sets store these.
fn fingerprint(key: &[i64]) -> u128 {
    let mut a: u64 = 0xcbf29ce484222325;
    let mut b: u64 = 0x84222325cbf29ce4;
    for v in key {
        for byte in v.to_le_bytes() {
            a ^= byte as u64;
            a = a.wrapping_mul(0x100000001b3);
            b = (b ^ (byte as u64).wrapping_add(0x9e)).wrapping_mul(0x00000100000001b5).rotate_left(5);
        }
    }
    ((a as u128) << 64) | b as u128
}

#[derive(Default)]
struct CfgStats {
    states: u64,
    transitions: u64,
    depth_completed: usize,
    capped: bool,
    /// first violation per signature with the number of histories showing it
    violations: Vec<(Violation, u64)>,
    machinery: Option<String>,
    cycles_with_tasks: u64,
    cycles_multi: u64,
    overruns: u64,
    min_alive: usize,
    primary_dead: u64,
    hidden_missing: u64,
    sample: Option<J>,
    trans_by_depth: Vec<u64>,
}

impl CfgStats {
    fn add_violation(&mut self, v: Violation) {
        match self.violations.iter_mut().find(|x| x.0.signature == v.signature) {
            Some(x) => x.1 += 1,
            None => self.violations.push((v, 1)),
        }
    }
}

struct Search {
    cfg: CfgSpec,
    src: String,
    evs: Vec<Ev>,
    max_depth: usize,
    seen: HashSet<u128>,
    frontier: Vec<Vec<Ev>>,
    stats: CfgStats,
    finished: bool,
}

/// result of one transition (frontier history `fi` extended by event `ei`)
struct EvalOut {
    fi: usize,
    ei: usize,
    key: Option<u128>,
    violation: Option<Box<Violation>>,
    machinery: Option<Box<String>>,
    alive: usize,
    primary_alive: bool,
    hidden_seen: bool,
    tasks_run: bool,
    multi: bool,
    overruns: u64,
}

fn eval_transition(s: &Search, fi: usize, ei: usize) -> EvalOut {
    let mut tl = s.frontier[fi].clone();
    tl.push(s.evs[ei]);
    let mut out = EvalOut {
        fi,
        ei,
        key: None,
        violation: None,
        machinery: None,
        alive: 0,
        primary_alive: true,
        hidden_seen: true,
        tasks_run: false,
        multi: false,
        overruns: 0,
    };
    match eval_history(&s.cfg, &s.src, &tl) {
        Ok(j) => {
            if let Some((step, signature, what)) = j.violation {
                out.violation = Some(Box::new(Violation { signature, what, case: case_json(&s.cfg, &tl[..=step]) }));
            }
            if let Some(k) = &j.key {
                out.key = Some(fingerprint(k));
                out.alive = j.alive;
                out.primary_alive = j.primary_alive;
                out.hidden_seen = j.hidden_seen;
                out.tasks_run = j.tasks_run > 0;
                out.multi = j.multi;
                out.overruns = j.overruns;
            }
        }
        Err(v) => {
            if v.signature.starts_with("C06/machinery/") {
                out.machinery = Some(Box::new(format!("{}: {}", v.signature, v.what)));
            } else {
                out.violation = Some(Box::new(v));
            }
        }
    }
    out
}

fn new_search(cfg: CfgSpec, max_depth: usize) -> Search {
    let src = cfg.source();
    let evs = events_for(&cfg);
    let mut s = Search {
        cfg,
        src,
        evs,
        max_depth,
        seen: HashSet::new(),
        frontier: vec![Vec::new()],
        stats: CfgStats { states: 1, min_alive: usize::MAX, ..Default::default() },
        finished: false,
    };
    match eval_history(&s.cfg, &s.src, &[]) {
        Ok(j) => {
            if let Some(k) = j.key {
                s.seen.insert(fingerprint(&k));
            }
        }
        Err(v) => {
            if v.signature.starts_with("C06/machinery/") {
                s.stats.machinery = Some(format!("{}: {}", v.signature, v.what));
            } else {
                s.stats.add_violation(v);
            }
            s.finished = true;
        }
    }
    s
}

/// frontier histories per work item
const CHUNK: usize = 24;

pub fn run(ctx: &Ctx) -> EngineResult {
    quiet_panics();
    let mut rep = Report::new("model_checking");
    // C06_WALL / C06_DEPTHS are measurement aids only
    let wall = std::env::var("C06_WALL").ok().and_then(|s| s.parse().ok()).unwrap_or(ctx.tier.pick(38u64, 840));
    let deadline = Instant::now() + StdDuration::from_secs(wall);
    let mut cfgs = configs(ctx.tier);
    if let Some(d) = std::env::var("C06_DEPTHS").ok().map(|s| s.split(',').filter_map(|x| x.parse().ok()).collect::<Vec<usize>>()) {
        // measurement aid: depth per number of tasks
        for (c, depth) in cfgs.iter_mut() {
            *depth = d[(c.tasks.len() - 1).min(d.len() - 1)];
        }
    }

    // the FB family is only explored if the compiler accepts the association syntax
    let fb_probe = cfgs.iter().find(|c| c.0.fb_task.is_some()).map(|c| c.0.clone());
    let mut fb_supported = true;
    if let Some(c) = &fb_probe {
        if let Err(ReplayErr::Compile(m)) = replay(c, &c.source(), &[]) {
            fb_supported = false;
            rep.assume(&format!("task-associated FB instances are not accepted by the compiler ({}); family fb2 skipped", norm_msg(&m)));
        }
    }
    cfgs.retain(|c| fb_supported || c.0.fb_task.is_none());
    if cfgs.is_empty() {
        return machinery("no configuration generated");
    }

    // roots (compile every configuration once, in parallel)
    let roots = par_map(&cfgs, ctx.threads, 8 << 20, None, |_, c| new_search(c.0.clone(), c.1));
    let mut searches: Vec<Search> = roots.into_iter().map(|r| r.expect("no deadline")).collect();
    for s in &searches {
        if let Some(m) = &s.stats.machinery {
            return machinery(format!("{m}\n--- source ---\n{}", s.src));
        }
    }

    let max_level = searches.iter().map(|s| s.max_depth).max().unwrap_or(0);
    let mut exhaustive = true;
    let mut levels_completed_everywhere = 0usize;
    for level in 1..=max_level {
        // work items of this level, simplest configuration first
        let mut work: Vec<(usize, usize, usize)> = Vec::new();
        for (si, s) in searches.iter().enumerate() {
            if s.finished || s.max_depth < level {
                continue;
            }
            let mut st = 0;
            while st < s.frontier.len() {
                let en = (st + CHUNK).min(s.frontier.len());
                work.push((si, st, en));
                st = en;
            }
        }
        if work.is_empty() {
            break;
        }
        let sref = &searches;
        let res = par_map(&work, ctx.threads, 8 << 20, Some(deadline), |_, &(si, st, en)| {
            let s = &sref[si];
            let mut outs = Vec::with_capacity((en - st) * s.evs.len());
            for fi in st..en {
                for ei in 0..s.evs.len() {
                    if Instant::now() >= deadline {
                        return (outs, false);
                    }
                    outs.push(eval_transition(s, fi, ei));
                }
            }
            (outs, true)
        });
        // merge, deterministically, in work order
        let mut incomplete: HashSet<usize> = HashSet::new();
        let mut per_search: Vec<Vec<EvalOut>> = (0..searches.len()).map(|_| Vec::new()).collect();
        for (&(si, _, _), r) in work.iter().zip(res) {
            match r {
                Some((outs, complete)) => {
                    if !complete {
                        incomplete.insert(si);
                    }
                    per_search[si].extend(outs);
                }
                None => {
                    incomplete.insert(si);
                }
            }
        }
        for (si, outs) in per_search.into_iter().enumerate() {
            let s = &mut searches[si];
            if s.finished || s.max_depth < level {
                continue;
            }
            let partial = incomplete.contains(&si);
            let mut next = Vec::new();
            for o in outs {
                if let Some(m) = o.machinery {
                    return machinery(format!("{m}\n--- source ---\n{}", s.src));
                }
                s.stats.transitions += 1;
                if let Some(v) = o.violation {
                    s.stats.add_violation(*v);
                }
                let Some(k) = o.key else { continue };
                s.stats.min_alive = s.stats.min_alive.min(o.alive);
                s.stats.primary_dead += !o.primary_alive as u64;
                s.stats.hidden_missing += !o.hidden_seen as u64;
                if partial {
                    continue; // the level of this configuration is not complete: do not advance
                }
                if s.seen.insert(k) {
                    s.stats.states += 1;
                    let mut tl = s.frontier[o.fi].clone();
                    tl.push(s.evs[o.ei]);
                    if level == s.max_depth {
                        s.stats.cycles_with_tasks += o.tasks_run as u64;
                        s.stats.cycles_multi += o.multi as u64;
                        s.stats.overruns += o.overruns;
                        if s.stats.sample.is_none() && o.multi && o.overruns > 0 {
                            s.stats.sample = Some(json!({"cfg": s.cfg.to_json(), "timeline": tl_json(&tl)}));
                        }
                    }
                    next.push(tl);
                }
            }
            if partial {
                s.stats.capped = true;
                s.finished = true;
                exhaustive = false;
                continue;
            }
            s.stats.depth_completed = level;
            s.stats.trans_by_depth.push(s.stats.transitions);
            s.frontier = next;
            if s.frontier.is_empty() {
                // every reachable canonical state has been expanded: complete for any depth
                s.stats.depth_completed = s.max_depth;
                s.finished = true;
            } else if level == s.max_depth {
                s.finished = true;
                s.frontier = Vec::new();
            }
        }
        if !exhaustive {
            break;
        }
        levels_completed_everywhere = level;
        eprintln!("[C06] level {level} done at {:.1}s", ctx.elapsed());
    }

    let mut fam: std::collections::BTreeMap<String, (u64, u64, u64, usize, usize)> = Default::default();
    let mut fam_depth: std::collections::BTreeMap<String, Vec<u64>> = Default::default();
    let mut states = 0u64;
    let mut transitions = 0u64;
    let mut with_tasks = 0u64;
    let mut multi = 0u64;
    let mut overruns = 0u64;
    let mut done = 0u64;
    let mut min_alive = usize::MAX;
    let mut primary_dead = 0u64;
    let mut hidden_missing = 0u64;
    let n_cfgs = searches.len();
    for s in searches {
        let r = s.stats;
        let c = &s.cfg;
        let complete = r.depth_completed >= s.max_depth;
        if !complete {
            exhaustive = false;
        }
        done += complete as u64;
        states += r.states;
        transitions += r.transitions;
        with_tasks += r.cycles_with_tasks;
        multi += r.cycles_multi;
        overruns += r.overruns;
        min_alive = min_alive.min(r.min_alive);
        primary_dead += r.primary_dead;
        hidden_missing += r.hidden_missing;
        let f = fam.entry(c.family.clone()).or_insert((0, 0, 0, usize::MAX, 0));
        f.0 += 1;
        f.1 += r.states;
        f.2 += r.transitions;
        f.3 = f.3.min(r.depth_completed);
        f.4 = f.4.max(s.max_depth);
        let fd = fam_depth.entry(c.family.clone()).or_default();
        for (d, t) in r.trans_by_depth.iter().enumerate() {
            if fd.len() <= d {
                fd.push(0);
            }
            fd[d] += t;
        }
        if let Some(smp) = r.sample {
            rep.sample(smp);
        }
        for (v, n) in r.violations {
            let sig = v.signature.clone();
            rep.violation(v);
            *rep.violation_counts.entry(sig).or_insert(1) += n - 1;
        }
    }
    if !exhaustive {
        rep.cap(format!(
            "wall cap of {wall} s: {done} of {n_cfgs} configurations explored to their full depth; every configuration explored to depth {levels_completed_everywhere}"
        ));
    }
    if rep.violations.is_empty() && (transitions == 0 || with_tasks == 0 || multi == 0 || overruns == 0) {
        return machinery(format!(
            "vacuous exploration: transitions={transitions} histories_with_tasks={with_tasks} with_two_tasks_in_a_cycle={multi} overruns={overruns}"
        ));
    }
    rep.set("configurations", n_cfgs as u64);
    rep.set("configurations_completed", done);
    rep.set("states", states);
    rep.set("transitions", transitions);
    rep.set("traces_validated_against_impl", transitions);
    rep.set("depth_completed", fam.values().map(|f| f.3).min().unwrap_or(0) as u64);
    rep.set(
        "families",
        J::Object(
            fam.iter()
                .map(|(k, v)| {
                    (
                        k.clone(),
                        json!({"configurations": v.0, "states": v.1, "transitions": v.2, "depth_completed": v.3, "depth_planned": v.4}),
                    )
                })
                .collect(),
        ),
    );
    rep.set("cumulative_transitions_by_depth", json!(fam_depth));
    rep.set("deepest_states_with_a_task_executed", with_tasks);
    rep.set("deepest_states_with_two_tasks_in_one_cycle", multi);
    rep.set("overruns_counted_on_deepest_states", overruns);
    rep.set("readings", readings().len() as u64);
    rep.set("histories_not_explained_by_documented_reading", primary_dead);
    rep.set("histories_without_hidden_state_in_canon", hidden_missing);
    if hidden_missing > 0 {
        rep.assume("TaskState could not be read from the Debug text of Runtime for some histories: those were merged on the reference-model state only");
    }
    rep.set("min_readings_alive", if min_alive == usize::MAX { 0 } else { min_alive as u64 });
    rep.set("exhaustive", exhaustive);
    rep.set(
        "completed_bound",
        "every configuration of each family explored breadth-first to the family's depth_completed (see families): all timelines over the step alphabet up to that depth, merged on (reference-model state of every live reading, TaskState of the runtime); states are stored as 128-bit fingerprints",
    );
    rep.set("step_alphabet", "dt in {0,1,2,3,7} ms x new values of the SINGLE variables the configuration reads");
    rep.assume("SINGLE variables change only between cycles (set by the harness right before the cycle, at the cycle's clock value)");
    rep.assume("one program per task; the relative order of a task's program and its FB instance is not checked");
    rep.assume("a history is accepted when at least one of the readings (A..E in the engine header) explains every cycle");
    Ok(rep)
}

pub fn workers() -> Vec<(&'static str, WorkerFn)> {
    Vec::new()
}
