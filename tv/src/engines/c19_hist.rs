//! C19 (part 3) — sequential multi-step HISTORIES of web-IDE operations by two editor sessions
//! (+ a viewer): files and directories are created, renamed, moved and deleted between a
//! session's open and its save (core X2: explicit-state breadth-first search by history replay).
//!
//! Covered sentence: "When several sessions write the same file, a write succeeds only if it was
//! based on the latest version, so the file always equals the content of the last successful write
//! and no successful write is silently overwritten." Part 2 (`c19.rs`) explores interleavings of
//! writers on ONE file whose name never changes; this part explores what happens to the
//! per-file version bookkeeping when the tree changes under the open documents.
//!
//! SAFETY: the subject creates, renames and deletes files and is expected to be broken when the
//! check matters. It is never called in the parent process: every history is replayed in an `iso`
//! worker (`tv --worker c19_hist`) that first enters the chroot jail of part 1
//! (`c19_confine::enter_jail`: private empty root, uid/gid 65534, verified) and re-verifies it
//! (`still_jailed`) before every replay. A worker that cannot enter the jail answers with a
//! machinery error and executes nothing.
//!
//! Project tree (rebuilt inside the jail for EVERY replayed history, together with a fresh
//! `WebIdeState` and fresh sessions; names collide as string prefixes / suffixes / case variants):
//!
//! ```text
//! /proj/                      active project root
//!     main.st   mainx.st      files whose names extend the directory name `main`
//!     main/x.st main/main.st  (main/main.st: same base name as the root-level file)
//!     lib/a.st  lib_v2/a.st   `lib` is a string prefix of `lib_v2`
//!     empty/                  empty directory
//! /proj2/main.st /sentinel.txt   sentinels next to the project (root name is a prefix again)
//! ```
//!
//! Alphabet (sessions A, B editors; V viewer; every operation goes through the public API):
//!   open(s,f)                         `open_source`
//!   save(s,f[,stale|future])          `apply_source` with expected version = the version s last saw
//!                                     for the entry now at f (the handle follows the entry across
//!                                     renames — what the front-end's `remapOpenTabs` does), else the
//!                                     version s last saw at the path string f (a session that did
//!                                     not notice the rename/delete); content = unique tag;
//!                                     `stale` = that version - 1, `future` = + 1
//!   create-file(s,p) create-dir(s,p)  `create_entry` (file content = unique tag; parents are made)
//!   rename(s,from,to)                 `rename_entry`: file -> fresh name / occupied name / other
//!                                     directory / name extending another entry; directory -> fresh /
//!                                     prefix-colliding (`main`->`mainx`, `lib`->`lib_v2` occupied,
//!                                     `main`->`app`, `Main`, `li`)
//!   delete(s,p)                       `delete_entry` (file or directory); re-creation by create-file
//!                                     or by renaming another entry onto the freed path
//!   list(s) tree(s)                   read-only probes
//! Left out: moving a directory into itself (`main` -> `main/sub`: the code creates the parent
//! first and then fails — neither statement nor docs say what should happen), names used both as
//! file and as directory (menus keep file names `*.st|*.bak` and directory names disjoint),
//! `rename_symbol` (it writes files too, but is a refactoring of contents, not of the tree).
//!
//! Families (bounds), all enumerated breadth-first, simplest first, deterministic:
//!   focus  — pruned alphabet: per history ONE focus document (the first file opened, any of the
//!            six) is opened/saved, also at every path it ever lived at; structural operations
//!            (create/rename/delete) come from a fixed menu of collisions around those files, only
//!            those the reference model predicts to succeed, at most `struct_limit` per history;
//!            rename/delete are issued by ONE editor (their effect does not depend on the actor: A
//!            while nobody holds a handle, then B), create by A and B (the creator gets a handle).
//!            quick: depth 6, <= 2 structural (so [open A f, open B f, save A f, rename dir, save B f]
//!            and [open A f, save A f, delete f, create f, save B f, save A f] are inside); thorough:
//!            depth 7, <= 3 structural, stale/future saves, viewer, both actors.
//!   full   — every session x every current entry x the whole target menus, failing operations
//!            included (not-found / exists / forbidden paths), stale/future saves, viewer attempts,
//!            list/tree probes. quick: depth 2; thorough: depth 3.
//! Symmetry pruning: while neither editor holds a handle the two editors are in identical states,
//! so only A acts (A acts first); the canonical state key sorts the two editor states.
//!
//! Reference model (boring, below): entries by path with (identity, content, content generation,
//! set of admissible version numbers); per session the (version, generation) last seen per entry
//! identity and the version last seen per path string. A save succeeds iff the path is a file, the
//! session is an editor, and the expected version equals the current version of THAT entry; success
//! sets the content and produces a version greater than the expected one; rename moves identity +
//! version history with the entry (for a directory: with every entry INSIDE it — boundary is a path
//! component) and touches nothing else; delete ends the history: a file later created at (or moved
//! onto) the same path is a NEW entry, a handle obtained for the old entry is stale for it.
//! Readings accepted where neither statement nor docs decide (docs say only "optimistic version
//! checks (expected_version)" and "conflict semantics are deterministic"):
//!   * the number reported when an entry is first tracked is adopted (the code says 1);
//!   * rename may keep the version or count as a change (+1, what the code does; any larger jump is
//!     harmless as well): after a rename the admissible versions are "v or greater" until the next
//!     report, and a save whose expected version is >= v may succeed or conflict (one < v must not
//!     succeed);
//!   * a successful save must return a version > expected (the unit test's promise), not exactly +1;
//!   * error precedence (viewer renaming a missing path gets not-found, not forbidden): a viewer's
//!     mutation must be rejected with any error; `rename(missing, occupied)` may answer not-found or
//!     conflict;
//!   * deliberately wrong versions (stale/future) are judged by numbers only: a guess that equals
//!     the current number is, for the server, based on the latest version.
//!
//! Oracle, after the last step of every history (all earlier prefixes were checked as histories):
//!   result      API result class (ok / conflict / not-found / rejected) is one the model admits
//!               `C19/hist/result/<op>:<expected>-><observed>`; the two directions that matter get
//!               their own clause: `C19/hist/stale-save-accepted/<context>` (a save succeeded although
//!               its base is not the latest version of the entry; `path-reused:<how>` when the handle
//!               belongs to an earlier entry of that path) and `C19/hist/spurious-conflict/<context>`
//!               (expected == the version the API reported last, nothing touched the entry since);
//!   duplicate   two successful saves of one entry from the same base version
//!               `C19/hist/duplicate-base/<context>`;
//!   version     versions reported by open / save / conflict / the final probe are admissible for the
//!               entry `C19/hist/version/<where>:<context>`, save result > expected
//!               `C19/hist/version-chain/...`;
//!   content     every file on disk has the model's content (= last successful write or the initial
//!               content) `C19/hist/content/<op>:<relation>`; what open returns is that content;
//!   collateral  a full snapshot of the jail equals the model's tree: nothing except the operation's
//!               targets appeared, vanished or changed `C19/hist/collateral/<op>:<relation>`
//!               (`effect/<op>` if the target itself is not what the model says, `escape/<op>` for
//!               entries outside the project); the final read-only probe (health, open of every file
//!               by a viewer) changes nothing `C19/hist/collateral/probe`.
//! <context> = `plain` or `after-<last most-related structural op since the entry's version was
//! last confirmed>:<relation>`, relation of the op's path(s) to the entry's path at that time:
//! same-path | inside | ancestor | prefix-sibling | suffix-sibling | case-variant | unrelated.
//!
//! State merging: the canonical key is (model tree with admissible versions; per session: handles by
//! entry path with "sees latest content" flag, handles by path string; structural budget used; focus)
//! + what the implementation lets us observe without the explorer changing it: tracked-document and
//! open-handle counts from `health`, and the version each existing file reports to a probe session
//! (the probe runs at the END of a replay; extensions replay the history without it). Two histories
//! with equal keys have equal disk trees (checked against the model), equal tracked versions for
//! every existing file and equal session handles, i.e. the same `documents`/disk state up to
//! contents (never branched on: tags), entries tracked for non-existing paths (only their number is
//! visible) and `opened_by`/audit data (no influence on file operations) — hence the same futures.
//! Contents, identities' numbers, the structural log (only used to name signatures) and the set of
//! used base versions are not part of the key. A history whose last step violated a clause is not
//! extended (model and implementation have diverged; extensions would be derived symptoms), with one
//! exception: if only the final probe saw an inadmissible version (`version/probe:*` — the version
//! history of an entry was lost, nothing was overwritten yet), the history is extended by exactly one
//! more step with the `version/*` clauses muted, so that the harm itself (a stale save accepted, two
//! successes from one base) is reported under its own signature.

use super::c19_confine as confine;
use crate::fw::*;
use crate::iso::{self, PoolCfg, WorkerFn};
use serde::{Deserialize, Serialize};
use serde_json::{json, Value};
use std::collections::{BTreeMap, BTreeSet, HashSet};
use std::hash::{Hash, Hasher};
use std::path::Path;
use std::time::{Duration, Instant};
use trust_runtime::web::ide::{IdeErrorKind, IdeRole, WebIdeState};

/// Name of the crash-isolated, jailed worker (`tv --worker c19_hist`).
pub const WORKER: &str = "c19_hist";
const ENV_BASE: &str = "TV_C19_HIST_JAIL_BASE";
const NOBODY: u64 = 65534;
const PROJECT: &str = "/proj";

const INIT_DIRS: &[&str] = &["empty", "lib", "lib_v2", "main"];
const INIT_FILES: &[&str] = &["lib/a.st", "lib_v2/a.st", "main.st", "main/main.st", "main/x.st", "mainx.st"];
const OUTSIDE_DIRS: &[&str] = &["/proj2"];
const OUTSIDE_FILES: &[&str] = &["/proj2/main.st", "/sentinel.txt"];

fn init_content(p: &str) -> String {
    format!("(* initial content of {p} *)\n")
}

// -------------------------------------------------------------------------------------------------
// operations
// -------------------------------------------------------------------------------------------------

#[derive(Clone, Copy, PartialEq, Eq, PartialOrd, Ord, Debug, Hash)]
enum S {
    A,
    B,
    V,
}

impl S {
    fn idx(self) -> usize {
        match self {
            S::A => 0,
            S::B => 1,
            S::V => 2,
        }
    }
    fn name(self) -> &'static str {
        match self {
            S::A => "A",
            S::B => "B",
            S::V => "V",
        }
    }
    fn parse(s: &str) -> Option<S> {
        match s {
            "A" => Some(S::A),
            "B" => Some(S::B),
            "V" => Some(S::V),
            _ => None,
        }
    }
}

#[derive(Clone, Copy, PartialEq, Eq, Debug)]
enum Mode {
    Honest,
    Stale,
    Future,
}

impl Mode {
    fn name(self) -> &'static str {
        match self {
            Mode::Honest => "honest",
            Mode::Stale => "stale",
            Mode::Future => "future",
        }
    }
}

#[derive(Clone, PartialEq, Eq, Debug)]
enum Op {
    Open(S, String),
    Save(S, String, Mode),
    CreateFile(S, String),
    CreateDir(S, String),
    Rename(S, String, String),
    Delete(S, String),
    List(S),
    Tree(S),
}

impl Op {
    fn to_json(&self) -> Value {
        match self {
            Op::Open(s, p) => json!(["open", s.name(), p]),
            Op::Save(s, p, m) => json!(["save", s.name(), p, m.name()]),
            Op::CreateFile(s, p) => json!(["create-file", s.name(), p]),
            Op::CreateDir(s, p) => json!(["create-dir", s.name(), p]),
            Op::Rename(s, a, b) => json!(["rename", s.name(), a, b]),
            Op::Delete(s, p) => json!(["delete", s.name(), p]),
            Op::List(s) => json!(["list", s.name()]),
            Op::Tree(s) => json!(["tree", s.name()]),
        }
    }
    fn from_json(v: &Value) -> Option<Op> {
        let a = v.as_array()?;
        let k = a.first()?.as_str()?;
        let s = S::parse(a.get(1)?.as_str()?)?;
        let arg = |i: usize| a.get(i).and_then(Value::as_str).map(str::to_string);
        Some(match k {
            "open" => Op::Open(s, arg(2)?),
            "save" => {
                let m = match a.get(3).and_then(Value::as_str).unwrap_or("honest") {
                    "stale" => Mode::Stale,
                    "future" => Mode::Future,
                    _ => Mode::Honest,
                };
                Op::Save(s, arg(2)?, m)
            }
            "create-file" => Op::CreateFile(s, arg(2)?),
            "create-dir" => Op::CreateDir(s, arg(2)?),
            "rename" => Op::Rename(s, arg(2)?, arg(3)?),
            "delete" => Op::Delete(s, arg(2)?),
            "list" => Op::List(s),
            "tree" => Op::Tree(s),
            _ => return None,
        })
    }
    fn show(&self) -> String {
        match self {
            Op::Open(s, p) => format!("open({},{p})", s.name()),
            Op::Save(s, p, Mode::Honest) => format!("save({},{p})", s.name()),
            Op::Save(s, p, m) => format!("save({},{p},{})", s.name(), m.name()),
            Op::CreateFile(s, p) => format!("create-file({},{p})", s.name()),
            Op::CreateDir(s, p) => format!("create-dir({},{p})", s.name()),
            Op::Rename(s, a, b) => format!("rename({},{a}->{b})", s.name()),
            Op::Delete(s, p) => format!("delete({},{p})", s.name()),
            Op::List(s) => format!("list({})", s.name()),
            Op::Tree(s) => format!("tree({})", s.name()),
        }
    }
    fn actor(&self) -> S {
        match self {
            Op::Open(s, _) | Op::Save(s, _, _) | Op::CreateFile(s, _) | Op::CreateDir(s, _) | Op::Rename(s, _, _) | Op::Delete(s, _) | Op::List(s) | Op::Tree(s) => *s,
        }
    }
}

fn show_history(h: &[Op]) -> String {
    format!("[{}]", h.iter().map(Op::show).collect::<Vec<_>>().join(", "))
}

fn history_json(h: &[Op]) -> Value {
    Value::Array(h.iter().map(Op::to_json).collect())
}

fn history_from(v: &Value) -> Option<Vec<Op>> {
    v.as_array()?.iter().map(Op::from_json).collect()
}

// -------------------------------------------------------------------------------------------------
// observations of the implementation
// -------------------------------------------------------------------------------------------------

#[derive(Clone, Copy, PartialEq, Eq, Debug)]
enum Class {
    Ok,
    Conflict,
    NotFound,
    Forbidden,
    Unauthorized,
    Invalid,
    Other,
    Panic,
}

impl Class {
    fn name(self) -> &'static str {
        match self {
            Class::Ok => "ok",
            Class::Conflict => "conflict",
            Class::NotFound => "not-found",
            Class::Forbidden => "forbidden",
            Class::Unauthorized => "unauthorized",
            Class::Invalid => "invalid",
            Class::Other => "other-error",
            Class::Panic => "panic",
        }
    }
}

#[derive(Clone, Debug)]
struct Obs {
    class: Class,
    /// version in an Ok answer (open, save, create-file)
    version: Option<u64>,
    /// `current_version` of a conflict
    current: Option<u64>,
    /// content returned by open
    content: Option<String>,
    msg: String,
}

fn class_of(kind: IdeErrorKind) -> Class {
    match kind {
        IdeErrorKind::Conflict => Class::Conflict,
        IdeErrorKind::NotFound => Class::NotFound,
        IdeErrorKind::Forbidden => Class::Forbidden,
        IdeErrorKind::Unauthorized => Class::Unauthorized,
        IdeErrorKind::InvalidInput => Class::Invalid,
        _ => Class::Other,
    }
}

// -------------------------------------------------------------------------------------------------
// path helpers
// -------------------------------------------------------------------------------------------------

/// `p` lies inside directory `dir` (component boundary).
fn is_under(p: &str, dir: &str) -> bool {
    p.len() > dir.len() + 1 && p.starts_with(dir) && p.as_bytes()[dir.len()] == b'/'
}

fn ancestors(p: &str) -> Vec<String> {
    let mut out = Vec::new();
    for (i, c) in p.char_indices() {
        if c == '/' {
            out.push(p[..i].to_string());
        }
    }
    out
}

fn base_name(p: &str) -> &str {
    p.rsplit('/').next().unwrap_or(p)
}

/// Relation of an operation's path `a` to an entry's path `p` (strongest first).
fn related(a: &str, p: &str) -> &'static str {
    if a == p {
        "same-path"
    } else if is_under(p, a) {
        "inside"
    } else if is_under(a, p) {
        "ancestor"
    } else if p.starts_with(a) || a.starts_with(p) {
        "prefix-sibling"
    } else if base_name(a) == base_name(p) || p.ends_with(&format!("/{a}")) || a.ends_with(&format!("/{p}")) {
        "suffix-sibling"
    } else if a.eq_ignore_ascii_case(p) {
        "case-variant"
    } else {
        "unrelated"
    }
}

fn rank(rel: &str) -> u8 {
    match rel {
        "same-path" => 6,
        "inside" => 5,
        "ancestor" => 4,
        "prefix-sibling" => 3,
        "suffix-sibling" => 2,
        "case-variant" => 1,
        _ => 0,
    }
}

// -------------------------------------------------------------------------------------------------
// reference model
// -------------------------------------------------------------------------------------------------

/// Admissible version numbers of an entry.
#[derive(Clone, Debug, PartialEq, Eq)]
enum Ver {
    /// never reported by the API yet (not tracked as far as the model knows)
    Any,
    /// the API reported this number and nothing touched the entry since
    Exactly(u64),
    /// the entry was renamed/moved since the API reported this number: the version may have been
    /// kept or raised (by one — the code — or more), it can never be lower
    AtLeast(u64),
}

impl Ver {
    fn allows(&self, n: u64) -> bool {
        match self {
            Ver::Any => true,
            Ver::Exactly(v) => n == *v,
            Ver::AtLeast(v) => n >= *v,
        }
    }
    fn exactly(&self, n: u64) -> bool {
        matches!(self, Ver::Exactly(v) if *v == n)
    }
    fn after_rename(&self) -> Ver {
        match self {
            Ver::Any => Ver::Any,
            Ver::Exactly(v) | Ver::AtLeast(v) => Ver::AtLeast(*v),
        }
    }
    fn show(&self) -> String {
        match self {
            Ver::Any => "*".into(),
            Ver::Exactly(v) => v.to_string(),
            Ver::AtLeast(v) => format!("{v}+"),
        }
    }
}

#[derive(Clone, Debug)]
struct FileE {
    id: u32,
    content: String,
    ver: Ver,
    /// number of successful content writes to this entry
    gen: u32,
    /// step (1-based) at which `ver` was last confirmed by an observation
    ver_step: usize,
}

#[derive(Clone, Debug)]
enum Node {
    Dir,
    File(FileE),
}

#[derive(Clone, Debug, Default)]
struct SessM {
    /// entry identity -> (version, content generation) last seen
    by_id: BTreeMap<u32, (u64, u32)>,
    /// path string -> version last seen at that path
    by_path: BTreeMap<String, u64>,
}

#[derive(Clone, Debug)]
struct LogE {
    step: usize,
    kind: &'static str,
    from: String,
    to: Option<String>,
    /// identity -> path before the operation
    before: BTreeMap<u32, String>,
    moved: BTreeSet<u32>,
    created: Option<u32>,
}

#[derive(Clone, Copy, Debug, PartialEq, Eq)]
enum Handle {
    /// the session has seen THIS entry: (version, generation)
    Id(u64, u32),
    /// the session only has a version for the path string (an earlier entry of that path)
    Path(u64),
}

#[derive(Clone, Debug)]
enum Plan {
    Ok,
    NotFound,
    Exists,
    NotFoundOrExists,
    Unmodelled(String),
}

#[derive(Clone, Debug)]
struct Model {
    tree: BTreeMap<String, Node>,
    next_id: u32,
    sess: [SessM; 3],
    log: Vec<LogE>,
    bases: BTreeSet<(u32, u64)>,
    structural: usize,
    focus_id: Option<u32>,
    focus_paths: BTreeSet<String>,
    /// path strings that held a file at some time
    ever_files: BTreeSet<String>,
}

#[derive(Default, Debug)]
struct Judged {
    /// (signature tail after `C19/hist/`, description)
    viol: Vec<(String, String)>,
    /// result-class violation: model and implementation have diverged, skip the disk comparison
    diverged: bool,
    outcome: String,
    /// project-relative paths the operation may have changed
    targets: BTreeSet<String>,
    stats: Vec<&'static str>,
    unmodelled: Option<String>,
}

impl Model {
    fn initial() -> Model {
        let mut tree = BTreeMap::new();
        for d in INIT_DIRS {
            tree.insert(d.to_string(), Node::Dir);
        }
        let mut next_id = 1;
        let mut ever = BTreeSet::new();
        for f in INIT_FILES {
            tree.insert(f.to_string(), Node::File(FileE { id: next_id, content: init_content(f), ver: Ver::Any, gen: 0, ver_step: 0 }));
            ever.insert(f.to_string());
            next_id += 1;
        }
        Model {
            tree,
            next_id,
            sess: Default::default(),
            log: Vec::new(),
            bases: BTreeSet::new(),
            structural: 0,
            focus_id: None,
            focus_paths: BTreeSet::new(),
            ever_files: ever,
        }
    }

    fn file(&self, p: &str) -> Option<&FileE> {
        match self.tree.get(p) {
            Some(Node::File(f)) => Some(f),
            _ => None,
        }
    }
    fn file_mut(&mut self, p: &str) -> Option<&mut FileE> {
        match self.tree.get_mut(p) {
            Some(Node::File(f)) => Some(f),
            _ => None,
        }
    }
    fn is_dir(&self, p: &str) -> bool {
        matches!(self.tree.get(p), Some(Node::Dir))
    }
    fn files(&self) -> Vec<String> {
        self.tree.iter().filter(|(_, n)| matches!(n, Node::File(_))).map(|(p, _)| p.clone()).collect()
    }
    fn dirs(&self) -> Vec<String> {
        self.tree.iter().filter(|(_, n)| matches!(n, Node::Dir)).map(|(p, _)| p.clone()).collect()
    }
    fn id_paths(&self) -> BTreeMap<u32, String> {
        self.tree.iter().filter_map(|(p, n)| if let Node::File(f) = n { Some((f.id, p.clone())) } else { None }).collect()
    }
    fn subtree(&self, p: &str) -> Vec<String> {
        self.tree.keys().filter(|k| k.as_str() == p || is_under(k, p)).cloned().collect()
    }
    fn some_session_has(&self, id: u32) -> bool {
        self.sess.iter().any(|s| s.by_id.contains_key(&id))
    }

    /// Expected version a save of `s` on `p` sends, and the kind of handle it comes from.
    fn save_expected(&self, s: S, p: &str, mode: Mode) -> Option<(u64, Handle)> {
        let sm = &self.sess[s.idx()];
        let h = match self.file(p).and_then(|f| sm.by_id.get(&f.id)) {
            Some(&(v, g)) => Handle::Id(v, g),
            None => Handle::Path(*sm.by_path.get(p)?),
        };
        let base = match h {
            Handle::Id(v, _) | Handle::Path(v) => v,
        };
        let x = match mode {
            Mode::Honest => base,
            Mode::Stale => base.saturating_sub(1),
            Mode::Future => base + 1,
        };
        Some((x, h))
    }

    fn plan(&self, op: &Op) -> Plan {
        let parent_is_file = |p: &str| ancestors(p).iter().any(|a| self.file(a).is_some());
        match op {
            Op::CreateFile(_, p) | Op::CreateDir(_, p) => {
                if self.tree.contains_key(p) {
                    Plan::Exists
                } else if parent_is_file(p) {
                    Plan::Unmodelled(format!("create below a file: {p}"))
                } else {
                    Plan::Ok
                }
            }
            Op::Rename(_, from, to) => {
                if !self.tree.contains_key(from) {
                    if self.tree.contains_key(to) {
                        Plan::NotFoundOrExists
                    } else {
                        Plan::NotFound
                    }
                } else if self.tree.contains_key(to) {
                    Plan::Exists
                } else if is_under(to, from) {
                    Plan::Unmodelled(format!("move of {from} into itself"))
                } else if parent_is_file(to) {
                    Plan::Unmodelled(format!("rename below a file: {to}"))
                } else {
                    Plan::Ok
                }
            }
            Op::Delete(_, p) => {
                if self.tree.contains_key(p) {
                    Plan::Ok
                } else {
                    Plan::NotFound
                }
            }
            _ => Plan::Ok,
        }
    }

    fn kind_of(&self, op: &Op) -> &'static str {
        match op {
            Op::Open(..) => "open",
            Op::Save(..) => "save",
            Op::CreateFile(..) => "create-file",
            Op::CreateDir(..) => "create-dir",
            Op::Rename(_, from, _) => {
                if self.is_dir(from) {
                    "dir-rename"
                } else if self.file(from).is_some() {
                    "file-rename"
                } else {
                    "rename"
                }
            }
            Op::Delete(_, p) => {
                if self.is_dir(p) {
                    "delete-dir"
                } else if self.file(p).is_some() {
                    "delete-file"
                } else {
                    "delete"
                }
            }
            Op::List(_) => "list",
            Op::Tree(_) => "tree",
        }
    }

    /// `plain` or `after-<op>:<relation>`: the LAST structural operation after step `since` whose
    /// path(s) are related to the entry (`id` if it has one, else the path string `p`); if none is
    /// related, the last one.
    fn ctx_since(&self, id: Option<u32>, p: &str, since: usize) -> String {
        let mut best: Option<(bool, String)> = None;
        for le in self.log.iter().filter(|le| le.step > since) {
            let pp = id.and_then(|i| le.before.get(&i).cloned()).unwrap_or_else(|| p.to_string());
            let rel = if id.map(|i| le.moved.contains(&i)).unwrap_or(false) {
                if le.from == pp {
                    "same-path"
                } else {
                    "inside"
                }
            } else {
                let r1 = related(&le.from, &pp);
                match &le.to {
                    Some(t) => {
                        let r2 = related(t, &pp);
                        if rank(r2) > rank(r1) {
                            r2
                        } else {
                            r1
                        }
                    }
                    None => r1,
                }
            };
            let is_related = rank(rel) > 0;
            if is_related || !best.as_ref().map(|b| b.0).unwrap_or(false) {
                best = Some((is_related, format!("after-{}:{}", le.kind, rel)));
            }
        }
        best.map(|b| b.1).unwrap_or_else(|| "plain".into())
    }

    /// How the entry `id` came to live at its path: the kind of the last structural operation
    /// that created or moved it.
    fn how_placed(&self, id: u32) -> &'static str {
        for le in self.log.iter().rev() {
            if le.created == Some(id) || le.moved.contains(&id) {
                return le.kind;
            }
        }
        "initial"
    }

    fn note_seen(&mut self, s: S, p: &str, id: u32, ver: u64, gen: u32) {
        let sm = &mut self.sess[s.idx()];
        sm.by_id.insert(id, (ver, gen));
        sm.by_path.insert(p.to_string(), ver);
    }

    /// Checks an observed version against the entry's admissible set and adopts it.
    fn confirm_version(&mut self, p: &str, n: u64, step: usize, wher: &str, j: &mut Judged) {
        let Some(f) = self.file(p) else { return };
        if !f.ver.allows(n) {
            let ctx = self.ctx_since(Some(f.id), p, f.ver_step);
            j.viol.push((
                format!("version/{wher}:{ctx}"),
                format!("{wher} reports version {n} for {p} but the entry's version is {} (last confirmed at step {}): the version history did not stay with the entry", f.ver.show(), f.ver_step),
            ));
        }
        let f = self.file_mut(p).unwrap();
        f.ver = Ver::Exactly(n);
        f.ver_step = step;
    }

    fn make_parents(&mut self, p: &str, targets: &mut BTreeSet<String>) {
        for a in ancestors(p) {
            if !self.tree.contains_key(&a) {
                self.tree.insert(a.clone(), Node::Dir);
                targets.insert(a);
            }
        }
    }

    /// Advances the model by one step given what the implementation answered.
    /// `step` is 1-based; `tag` is the content a save/create writes.
    fn step(&mut self, step: usize, op: &Op, obs: &Obs, tag: &str) -> Judged {
        let mut j = Judged::default();
        let kind = self.kind_of(op);
        j.outcome = format!("{kind}:{}", obs.class.name());
        if obs.class == Class::Panic {
            j.viol.push((format!("panic/{kind}"), format!("the subject panicked: {}", obs.msg)));
            j.diverged = true;
            return j;
        }
        let mismatch = |j: &mut Judged, expected: &str| {
            j.viol.push((
                format!("result/{kind}:{expected}->{}", obs.class.name()),
                format!("{} answered {} ({}) where the reference model expects {expected}", op.show(), obs.class.name(), obs.msg),
            ));
            j.diverged = true;
        };
        let viewer = op.actor() == S::V;
        match op {
            Op::List(_) | Op::Tree(_) => {
                if obs.class != Class::Ok {
                    mismatch(&mut j, "ok");
                }
            }
            Op::Open(s, p) => {
                let Some(f) = self.file(p).cloned() else {
                    if obs.class != Class::NotFound {
                        mismatch(&mut j, "not-found");
                    }
                    return j;
                };
                if obs.class != Class::Ok {
                    mismatch(&mut j, "ok");
                    return j;
                }
                if obs.content.as_deref() != Some(f.content.as_str()) {
                    let ctx = self.ctx_since(Some(f.id), p, 0);
                    j.viol.push((
                        format!("content/open-returns:{ctx}"),
                        format!("open of {p} returned {:?} but the last successful write (or initial content) of that entry is {:?}", obs.content, f.content),
                    ));
                }
                let n = obs.version.unwrap_or(0);
                if self.some_session_has(f.id) && *s != S::V {
                    j.stats.push("reopen-tracked");
                }
                self.confirm_version(p, n, step, "open", &mut j);
                self.note_seen(*s, p, f.id, n, f.gen);
                if self.focus_id.is_none() {
                    self.focus_id = Some(f.id);
                    self.focus_paths.insert(p.clone());
                }
            }
            Op::Save(s, p, mode) => {
                let Some((x, h)) = self.save_expected(*s, p, *mode) else {
                    j.unmodelled = Some(format!("{} without a handle", op.show()));
                    return j;
                };
                j.targets.insert(p.clone());
                let Some(f) = self.file(p).cloned() else {
                    if viewer {
                        if obs.class == Class::Ok {
                            mismatch(&mut j, "rejected");
                        }
                    } else if obs.class != Class::NotFound {
                        mismatch(&mut j, "not-found");
                    }
                    j.outcome = format!("save:{}:missing", obs.class.name());
                    return j;
                };
                if viewer {
                    if obs.class == Class::Ok {
                        mismatch(&mut j, "rejected");
                    }
                    j.outcome = format!("save:{}:viewer", obs.class.name());
                    return j;
                }
                let ctx = match h {
                    Handle::Id(..) => self.ctx_since(Some(f.id), p, f.ver_step),
                    Handle::Path(_) => format!("path-reused:{}", self.how_placed(f.id)),
                };
                j.outcome = format!("save:{}:{}:{}", obs.class.name(), mode.name(), ctx);
                if matches!(h, Handle::Id(..)) && matches!(f.ver, Ver::AtLeast(_)) {
                    j.stats.push("save-on-renamed-open-doc");
                }
                match obs.class {
                    Class::Ok => {
                        let bad = match h {
                            Handle::Path(_) => {
                                j.stats.push("path-handle-save");
                                Some(format!(
                                    "the session's version {x} was obtained for an EARLIER entry of the path {p}; the file now there (placed by {}) was never seen by the session",
                                    self.how_placed(f.id)
                                ))
                            }
                            Handle::Id(_, g) => {
                                if !f.ver.allows(x) {
                                    Some(format!("expected version {x} is not the entry's current version {}", f.ver.show()))
                                } else if *mode == Mode::Honest && g != f.gen {
                                    Some(format!("the session last saw content generation {g} of the entry, the entry is at generation {}", f.gen))
                                } else {
                                    None
                                }
                            }
                        };
                        if let Some(why) = bad {
                            let clause = if *mode == Mode::Future && matches!(h, Handle::Id(..)) { "future-save-accepted" } else { "stale-save-accepted" };
                            j.viol.push((
                                format!("{clause}/{ctx}"),
                                format!("{} with expected version {x} SUCCEEDED although it was not based on the latest version: {why}; content {:?} was silently overwritten", op.show(), f.content),
                            ));
                        }
                        if !self.bases.insert((f.id, x)) {
                            j.viol.push((
                                format!("duplicate-base/{ctx}"),
                                format!("{} succeeded from base version {x}: a second successful write of the same entry from the same base version", op.show()),
                            ));
                        }
                        let n = obs.version.unwrap_or(0);
                        if n <= x {
                            j.viol.push((
                                "version-chain/save-result-not-greater".into(),
                                format!("{} with expected version {x} succeeded and returned version {n} (must be greater)", op.show()),
                            ));
                        }
                        j.stats.push("ok-save");
                        let fm = self.file_mut(p).unwrap();
                        fm.content = tag.to_string();
                        fm.gen += 1;
                        fm.ver = Ver::Exactly(n);
                        fm.ver_step = step;
                        let g = fm.gen;
                        self.note_seen(*s, p, f.id, n, g);
                    }
                    Class::Conflict => {
                        j.stats.push("conflict");
                        if matches!(h, Handle::Path(_)) {
                            j.stats.push("path-handle-save");
                        }
                        if matches!(h, Handle::Id(..)) && f.ver.exactly(x) {
                            j.viol.push((
                                format!("spurious-conflict/{ctx}"),
                                format!("{} with expected version {x} was refused ({}) although {x} is the version the API reported last for this entry and nothing touched it since", op.show(), obs.msg),
                            ));
                        }
                        match obs.current {
                            Some(c) => {
                                // the conflict tells the current version; it cannot be the refused one
                                let admissible = match &f.ver {
                                    Ver::Any => true,
                                    Ver::Exactly(v) => c == *v,
                                    Ver::AtLeast(v) => c >= *v && c != x,
                                };
                                if !admissible && !f.ver.exactly(x) {
                                    j.viol.push((
                                        format!("version/conflict:{ctx}"),
                                        format!("{} was refused with current version {c} but the entry's version is {}", op.show(), f.ver.show()),
                                    ));
                                }
                                let fm = self.file_mut(p).unwrap();
                                fm.ver = Ver::Exactly(c);
                                fm.ver_step = step;
                            }
                            None => {
                                j.viol.push(("version/conflict-without-current".into(), format!("{} was refused with a conflict that carries no current version", op.show())));
                            }
                        }
                    }
                    _ => mismatch(&mut j, "ok|conflict"),
                }
            }
            Op::CreateFile(s, p) | Op::CreateDir(s, p) => {
                let is_file = matches!(op, Op::CreateFile(..));
                if viewer {
                    if obs.class == Class::Ok {
                        mismatch(&mut j, "rejected");
                    }
                    return j;
                }
                match self.plan(op) {
                    Plan::Unmodelled(m) => j.unmodelled = Some(m),
                    Plan::Exists => {
                        if obs.class != Class::Conflict {
                            mismatch(&mut j, "conflict");
                        }
                    }
                    _ => {
                        if obs.class != Class::Ok {
                            mismatch(&mut j, "ok");
                            return j;
                        }
                        let before = self.id_paths();
                        j.targets.insert(p.clone());
                        self.make_parents(p, &mut j.targets);
                        let mut created = None;
                        if is_file {
                            let id = self.next_id;
                            self.next_id += 1;
                            created = Some(id);
                            if self.ever_files.contains(p) {
                                j.stats.push("recreate");
                            }
                            self.ever_files.insert(p.clone());
                            let ver = match obs.version {
                                Some(n) => Ver::Exactly(n),
                                None => Ver::Any,
                            };
                            self.tree.insert(p.clone(), Node::File(FileE { id, content: tag.to_string(), ver, gen: 0, ver_step: step }));
                            if let Some(n) = obs.version {
                                self.note_seen(*s, p, id, n, 0);
                            }
                        } else {
                            self.tree.insert(p.clone(), Node::Dir);
                        }
                        self.structural += 1;
                        self.log.push(LogE { step, kind, from: p.clone(), to: None, before, moved: BTreeSet::new(), created });
                    }
                }
            }
            Op::Rename(_, from, to) => {
                if viewer {
                    if obs.class == Class::Ok {
                        mismatch(&mut j, "rejected");
                    }
                    return j;
                }
                match self.plan(op) {
                    Plan::Unmodelled(m) => j.unmodelled = Some(m),
                    Plan::NotFound => {
                        if obs.class != Class::NotFound {
                            mismatch(&mut j, "not-found");
                        }
                    }
                    Plan::Exists => {
                        if obs.class != Class::Conflict {
                            mismatch(&mut j, "conflict");
                        }
                    }
                    Plan::NotFoundOrExists => {
                        if obs.class != Class::NotFound && obs.class != Class::Conflict {
                            mismatch(&mut j, "not-found|conflict");
                        }
                    }
                    Plan::Ok => {
                        if obs.class != Class::Ok {
                            mismatch(&mut j, "ok");
                            return j;
                        }
                        let before = self.id_paths();
                        self.make_parents(to, &mut j.targets);
                        let mut moved = BTreeSet::new();
                        for old in self.subtree(from) {
                            let new = format!("{to}{}", &old[from.len()..]);
                            let mut node = self.tree.remove(&old).unwrap();
                            if let Node::File(f) = &mut node {
                                moved.insert(f.id);
                                if f.ver != Ver::Any {
                                    j.stats.push("rename-tracked-doc");
                                }
                                if self.sess.iter().any(|s| s.by_id.contains_key(&f.id)) {
                                    j.stats.push("rename-open-doc");
                                }
                                f.ver = f.ver.after_rename();
                                if self.focus_id == Some(f.id) {
                                    self.focus_paths.insert(new.clone());
                                }
                                if self.ever_files.contains(&new) {
                                    j.stats.push("path-reuse-by-rename");
                                }
                                self.ever_files.insert(new.clone());
                            }
                            j.targets.insert(old);
                            j.targets.insert(new.clone());
                            self.tree.insert(new, node);
                        }
                        // tracked prefix siblings that must NOT follow a directory rename
                        if kind == "dir-rename" {
                            let sib = self.tree.iter().any(|(p, n)| matches!(n, Node::File(f) if f.ver != Ver::Any) && related(from, p) == "prefix-sibling");
                            if sib {
                                j.stats.push("dir-rename-with-tracked-prefix-sibling");
                            }
                        }
                        self.structural += 1;
                        self.log.push(LogE { step, kind, from: from.clone(), to: Some(to.clone()), before, moved, created: None });
                    }
                }
            }
            Op::Delete(_, p) => {
                if viewer {
                    if obs.class == Class::Ok {
                        mismatch(&mut j, "rejected");
                    }
                    return j;
                }
                match self.plan(op) {
                    Plan::NotFound => {
                        if obs.class != Class::NotFound {
                            mismatch(&mut j, "not-found");
                        }
                    }
                    _ => {
                        if obs.class != Class::Ok {
                            mismatch(&mut j, "ok");
                            return j;
                        }
                        let before = self.id_paths();
                        for old in self.subtree(p) {
                            if let Some(Node::File(f)) = self.tree.remove(&old) {
                                if self.sess.iter().any(|s| s.by_id.contains_key(&f.id)) {
                                    j.stats.push("delete-open-doc");
                                }
                                for sm in self.sess.iter_mut() {
                                    sm.by_id.remove(&f.id);
                                }
                            }
                            j.targets.insert(old);
                        }
                        self.structural += 1;
                        self.log.push(LogE { step, kind, from: p.clone(), to: None, before, moved: BTreeSet::new(), created: None });
                    }
                }
            }
        }
        j
    }

    /// Canonical description of the model state (see the module comment for what is left out).
    fn key(&self, struct_limit: usize) -> String {
        let mut out = String::new();
        for (p, n) in &self.tree {
            match n {
                Node::Dir => out.push_str(&format!("{p}/;")),
                Node::File(f) => out.push_str(&format!("{p}={};", f.ver.show())),
            }
        }
        let idp = self.id_paths();
        let sess_str = |sm: &SessM| {
            let mut v: Vec<String> = sm
                .by_id
                .iter()
                .filter_map(|(id, (ver, g))| {
                    let p = idp.get(id)?;
                    let cur = self.file(p).map(|f| f.gen == *g).unwrap_or(false);
                    Some(format!("{p}@{ver}{}", if cur { "c" } else { "s" }))
                })
                .collect();
            v.sort();
            let bp: Vec<String> = sm.by_path.iter().map(|(p, v)| format!("{p}~{v}")).collect();
            format!("{}#{}", v.join(","), bp.join(","))
        };
        let mut ed = [sess_str(&self.sess[0]), sess_str(&self.sess[1])];
        ed.sort();
        out.push_str(&format!("|E:{}|E:{}|V:{}", ed[0], ed[1], sess_str(&self.sess[2])));
        out.push_str(&format!("|s{}", self.structural.min(struct_limit)));
        let fp: Vec<&str> = self.focus_paths.iter().map(String::as_str).collect();
        out.push_str(&format!("|f{}:{}", self.focus_id.and_then(|i| idp.get(&i).cloned()).unwrap_or_default(), fp.join(",")));
        out
    }
}

// -------------------------------------------------------------------------------------------------
// exploration configuration (a "family")
// -------------------------------------------------------------------------------------------------

#[derive(Clone, Debug, Serialize, Deserialize)]
struct Cfg {
    name: String,
    depth: usize,
    /// one focus document per history, static menus
    focus: bool,
    focus_files: Vec<String>,
    /// maximal number of successful structural operations per history
    struct_limit: usize,
    /// stale / future saves
    modes: bool,
    viewer: bool,
    /// include operations the model predicts to fail (not-found / exists) and saves on missing paths
    fail_ops: bool,
    /// rename/delete by B as well (create is always offered to both editors)
    both_actors: bool,
    /// list / tree probes as operations
    probes: bool,
    /// sources = every current entry, targets from the menus below
    dynamic: bool,
    ren_pairs: Vec<(String, String)>,
    file_targets: Vec<String>,
    dir_targets: Vec<String>,
    deletes: Vec<String>,
    mk_files: Vec<String>,
    mk_dirs: Vec<String>,
}

fn strs(a: &[&str]) -> Vec<String> {
    a.iter().map(|s| s.to_string()).collect()
}

fn focus_cfg(depth: usize, thorough: bool) -> Cfg {
    let pairs: &[(&str, &str)] = &[
        // directories: fresh name, prefix-colliding name, occupied name, there-and-back
        ("main", "app"),
        ("main", "mainx"),
        ("lib", "app"),
        ("lib", "lib_v2"),
        ("lib_v2", "lib"),
        ("lib_v2", "app"),
        ("app", "main"),
        // files: fresh name, other directory, onto a freed path, name extending another entry
        ("main.st", "renamed.st"),
        ("main.st", "lib/main.st"),
        ("main.st", "main.st.bak"),
        ("mainx.st", "main.st"),
        ("renamed.st", "main.st"),
        ("main/main.st", "main.st"),
        ("main/x.st", "main/y.st"),
        ("main/x.st", "lib/x.st"),
        ("main/main.st", "main/x.st"),
        ("lib_v2/a.st", "lib/b.st"),
        ("lib/a.st", "lib_v2/a.st"),
    ];
    let focus_files = strs(INIT_FILES);
    let mut deletes = strs(INIT_FILES);
    deletes.extend(strs(&["main", "lib", "lib_v2"]));
    if thorough {
        deletes.push("empty".into());
    }
    Cfg {
        name: format!("focus{depth}"),
        depth,
        focus: true,
        focus_files,
        struct_limit: if thorough { 3 } else { 2 },
        modes: thorough,
        viewer: thorough,
        fail_ops: false,
        both_actors: thorough,
        probes: false,
        dynamic: false,
        ren_pairs: pairs.iter().map(|(a, b)| (a.to_string(), b.to_string())).collect(),
        file_targets: Vec::new(),
        dir_targets: Vec::new(),
        deletes,
        mk_files: strs(INIT_FILES),
        mk_dirs: if thorough { strs(&["main", "lib"]) } else { Vec::new() },
    }
}

fn full_cfg(depth: usize, thorough: bool) -> Cfg {
    Cfg {
        name: format!("full{depth}"),
        depth,
        focus: false,
        focus_files: Vec::new(),
        struct_limit: usize::MAX,
        modes: true,
        viewer: true,
        fail_ops: true,
        both_actors: thorough,
        probes: true,
        dynamic: true,
        ren_pairs: Vec::new(),
        file_targets: strs(&["renamed.st", "main.st", "mainx.st", "lib/moved.st", "main.st.bak", "Main.st", "app/deep/m.st", "main/main.st"]),
        dir_targets: strs(&["app", "mainx", "lib_v2", "lib", "main", "Main", "li", "empty/sub", "main_old"]),
        deletes: Vec::new(),
        mk_files: strs(&["new.st", "main.st", "main/x.st", "lib/a.st", "Main.st", "app/n.st", "main.st.bak", "mainx.st"]),
        mk_dirs: strs(&["app", "main", "Main", "lib_v", "main/sub", "empty"]),
    }
}

/// Operations offered in the state `m` (deterministic order, simplest first).
fn enabled(m: &Model, c: &Cfg) -> Vec<Op> {
    let mut out = Vec::new();
    let no_handles = |s: &SessM| s.by_id.is_empty() && s.by_path.is_empty();
    // symmetry: while no editor holds a handle, A and B are in identical states: only A acts
    let virgin = no_handles(&m.sess[0]) && no_handles(&m.sess[1]);
    let editors: Vec<S> = if virgin { vec![S::A] } else { vec![S::A, S::B] };
    let mut sessions = editors.clone();
    if c.viewer {
        sessions.push(S::V);
    }
    let files = m.files();
    let open_targets: Vec<String> = if c.focus {
        if m.focus_id.is_none() {
            c.focus_files.iter().filter(|f| files.contains(f)).cloned().collect()
        } else {
            m.focus_paths.iter().filter(|f| files.contains(f)).cloned().collect()
        }
    } else {
        files.clone()
    };
    for s in &sessions {
        for p in &open_targets {
            out.push(Op::Open(*s, p.clone()));
        }
    }
    let save_paths: Vec<String> = if c.focus {
        m.focus_paths.iter().cloned().collect()
    } else {
        let mut set: BTreeSet<String> = files.iter().cloned().collect();
        for sm in &m.sess {
            set.extend(sm.by_path.keys().cloned());
        }
        set.into_iter().collect()
    };
    for s in &sessions {
        for p in &save_paths {
            let Some((_, h)) = m.save_expected(*s, p, Mode::Honest) else { continue };
            let exists = m.file(p).is_some();
            if !exists && !c.fail_ops {
                continue;
            }
            out.push(Op::Save(*s, p.clone(), Mode::Honest));
            if c.modes && *s != S::V && exists && matches!(h, Handle::Id(..)) {
                out.push(Op::Save(*s, p.clone(), Mode::Stale));
                out.push(Op::Save(*s, p.clone(), Mode::Future));
            }
        }
    }
    if m.structural < c.struct_limit {
        // one actor suffices for rename/delete (their effect does not depend on who asks): the
        // session that holds no handle yet (B) once handles exist, so that histories read naturally
        let actors: Vec<S> = if c.both_actors { editors.clone() } else if virgin { vec![S::A] } else { vec![S::B] };
        let mut cand: Vec<Op> = Vec::new();
        if c.dynamic {
            for f in &files {
                for t in &c.file_targets {
                    for a in &actors {
                        cand.push(Op::Rename(*a, f.clone(), t.clone()));
                    }
                }
            }
            for d in m.dirs() {
                for t in &c.dir_targets {
                    for a in &actors {
                        cand.push(Op::Rename(*a, d.clone(), t.clone()));
                    }
                }
            }
            for p in m.tree.keys() {
                for a in &actors {
                    cand.push(Op::Delete(*a, p.clone()));
                }
            }
            // one operation on a path that never existed
            cand.push(Op::Rename(S::A, "ghost.st".into(), "renamed.st".into()));
            cand.push(Op::Delete(S::A, "ghost.st".into()));
        } else {
            for (a, b) in &c.ren_pairs {
                for s in &actors {
                    cand.push(Op::Rename(*s, a.clone(), b.clone()));
                }
            }
            for p in &c.deletes {
                for s in &actors {
                    cand.push(Op::Delete(*s, p.clone()));
                }
            }
        }
        for p in &c.mk_files {
            for s in &editors {
                cand.push(Op::CreateFile(*s, p.clone()));
            }
        }
        for p in &c.mk_dirs {
            for s in &actors {
                cand.push(Op::CreateDir(*s, p.clone()));
            }
        }
        let mut viewer_done: BTreeSet<&'static str> = BTreeSet::new();
        for op in cand {
            match m.plan(&op) {
                Plan::Unmodelled(_) => continue,
                Plan::Ok => {
                    // the viewer tries the first applicable operation of every kind
                    if c.viewer {
                        let k = m.kind_of(&op);
                        if viewer_done.insert(k) {
                            out.push(match &op {
                                Op::Rename(_, a, b) => Op::Rename(S::V, a.clone(), b.clone()),
                                Op::Delete(_, p) => Op::Delete(S::V, p.clone()),
                                Op::CreateFile(_, p) => Op::CreateFile(S::V, p.clone()),
                                Op::CreateDir(_, p) => Op::CreateDir(S::V, p.clone()),
                                other => other.clone(),
                            });
                        }
                    }
                    out.push(op);
                }
                _ => {
                    if c.fail_ops {
                        out.push(op);
                    }
                }
            }
        }
    }
    if c.probes {
        out.push(Op::List(S::A));
        out.push(Op::Tree(S::V));
    }
    out
}

// -------------------------------------------------------------------------------------------------
// the jailed side: tree, executor, replay
// -------------------------------------------------------------------------------------------------

#[derive(Clone, PartialEq, Eq, Debug)]
enum Snap {
    Dir,
    File(String),
    Other(String),
}

type Snapshot = BTreeMap<String, Snap>;

fn snap_key(abs: &str) -> String {
    if abs == PROJECT {
        ".".to_string()
    } else if let Some(rel) = abs.strip_prefix("/proj/") {
        rel.to_string()
    } else {
        format!("!{abs}")
    }
}

fn snapshot_into(dir: &Path, out: &mut Snapshot) {
    let Ok(rd) = std::fs::read_dir(dir) else {
        out.insert(snap_key(&dir.to_string_lossy()), Snap::Other("unreadable directory".into()));
        return;
    };
    for e in rd.flatten() {
        let p = e.path();
        let abs = p.to_string_lossy().to_string();
        let Ok(md) = std::fs::symlink_metadata(&p) else { continue };
        let ft = md.file_type();
        if ft.is_dir() {
            out.insert(snap_key(&abs), Snap::Dir);
            snapshot_into(&p, out);
        } else if ft.is_file() {
            let c = std::fs::read(&p).map(|b| String::from_utf8_lossy(&b).to_string()).unwrap_or_else(|e| format!("<unreadable: {e}>"));
            out.insert(snap_key(&abs), Snap::File(c));
        } else if ft.is_symlink() {
            let t = std::fs::read_link(&p).map(|t| t.to_string_lossy().to_string()).unwrap_or_default();
            out.insert(snap_key(&abs), Snap::Other(format!("symlink -> {t}")));
        } else {
            out.insert(snap_key(&abs), Snap::Other("special".into()));
        }
    }
}

/// Everything inside the jail (keys: project-relative paths, `.` = project root, `!<abs>` outside).
fn snapshot() -> Snapshot {
    let mut s = Snapshot::new();
    snapshot_into(Path::new("/"), &mut s);
    s
}

fn expected_snapshot(m: &Model) -> Snapshot {
    let mut s = Snapshot::new();
    s.insert(".".into(), Snap::Dir);
    for (p, n) in &m.tree {
        s.insert(
            p.clone(),
            match n {
                Node::Dir => Snap::Dir,
                Node::File(f) => Snap::File(f.content.clone()),
            },
        );
    }
    for d in OUTSIDE_DIRS {
        s.insert(format!("!{d}"), Snap::Dir);
    }
    for f in OUTSIDE_FILES {
        s.insert(format!("!{f}"), Snap::File(init_content(f)));
    }
    s
}

/// Empties the jail root and builds the pristine tree. Only ever called after `still_jailed()`.
fn reset_tree() -> Result<(), String> {
    confine::still_jailed()?;
    let rd = std::fs::read_dir("/").map_err(|e| format!("hist: cannot list the jail root: {e}"))?;
    for e in rd.flatten() {
        let p = e.path();
        let md = std::fs::symlink_metadata(&p).map_err(|e| format!("hist: lstat {}: {e}", p.display()))?;
        let r = if md.file_type().is_dir() { std::fs::remove_dir_all(&p) } else { std::fs::remove_file(&p) };
        r.map_err(|e| format!("hist: cannot remove {}: {e}", p.display()))?;
    }
    let mk = |d: &str| std::fs::create_dir_all(d).map_err(|e| format!("hist: mkdir {d}: {e}"));
    let wr = |f: &str, c: &str| std::fs::write(f, c).map_err(|e| format!("hist: write {f}: {e}"));
    mk(PROJECT)?;
    for d in INIT_DIRS {
        mk(&format!("{PROJECT}/{d}"))?;
    }
    for f in INIT_FILES {
        wr(&format!("{PROJECT}/{f}"), &init_content(f))?;
    }
    for d in OUTSIDE_DIRS {
        mk(d)?;
    }
    for f in OUTSIDE_FILES {
        wr(f, &init_content(f))?;
    }
    Ok(())
}

struct Impl {
    st: WebIdeState,
    /// tokens of A, B, V and the probe session P
    tok: [String; 4],
}

fn new_impl() -> Result<Impl, String> {
    confine::still_jailed()?;
    let st = WebIdeState::new(Some(PROJECT.into()));
    let mut tok: [String; 4] = Default::default();
    for (i, role) in [IdeRole::Editor, IdeRole::Editor, IdeRole::Viewer, IdeRole::Viewer].into_iter().enumerate() {
        tok[i] = catch(|| st.create_session(role)).map_err(|m| format!("hist: create_session panicked: {m}"))?.map_err(|e| format!("hist: create_session: {e}"))?.token;
    }
    Ok(Impl { st, tok })
}

fn exec(im: &Impl, op: &Op, expected: u64, tag: &str) -> Obs {
    let t = &im.tok[op.actor().idx()];
    let st = &im.st;
    let ok = |version: Option<u64>, content: Option<String>| Obs { class: Class::Ok, version, current: None, content, msg: String::new() };
    let r = catch(|| match op {
        Op::Open(_, p) => st.open_source(t, p).map(|s| ok(Some(s.version), Some(s.content))),
        Op::Save(_, p, _) => st.apply_source(t, p, expected, tag.to_string(), true).map(|w| ok(Some(w.version), None)),
        Op::CreateFile(_, p) => st.create_entry(t, p, false, Some(tag.to_string()), true).map(|r| ok(r.version, None)),
        Op::CreateDir(_, p) => st.create_entry(t, p, true, None, true).map(|r| ok(r.version, None)),
        Op::Rename(_, a, b) => st.rename_entry(t, a, b, true).map(|r| ok(r.version, None)),
        Op::Delete(_, p) => st.delete_entry(t, p, true).map(|r| ok(r.version, None)),
        Op::List(_) => st.list_sources(t).map(|_| ok(None, None)),
        Op::Tree(_) => st.list_tree(t).map(|_| ok(None, None)),
    });
    match r {
        Ok(Ok(o)) => o,
        Ok(Err(e)) => Obs { class: class_of(e.kind()), version: None, current: e.current_version(), content: None, msg: e.to_string() },
        Err(m) => Obs { class: Class::Panic, version: None, current: None, content: None, msg: m },
    }
}

struct ReplayOut {
    /// hex hash of the canonical key; None = do not extend
    key: Option<String>,
    /// the final probe saw an inadmissible version (and nothing else is wrong): the history is
    /// extended by ONE more step so that the harm (a stale save accepted) gets its own signature;
    /// `version/*` clauses are not reported again for those extensions
    tainted: bool,
    viol: Vec<Violation>,
    outcome: String,
    stats: Vec<&'static str>,
    model: Model,
}

fn hash_key(s: &str) -> String {
    let mut a = std::collections::hash_map::DefaultHasher::new();
    0xA5u8.hash(&mut a);
    s.hash(&mut a);
    let mut b = std::collections::hash_map::DefaultHasher::new();
    s.hash(&mut b);
    0x5Au8.hash(&mut b);
    format!("{:016x}{:016x}", a.finish(), b.finish())
}

fn tag_for(step: usize, op: &Op) -> String {
    format!("(* written at step {step} by {} *)\n", op.actor().name())
}

/// Replays one history on a fresh tree + fresh `WebIdeState`; judges the LAST step (and the final
/// read-only probe). `Err` = machinery.
fn replay(h: &[Op], struct_limit: usize, judge: bool) -> Result<ReplayOut, String> {
    reset_tree()?;
    let im = new_impl()?;
    let mut m = Model::initial();
    let mut viol: Vec<Violation> = Vec::new();
    let case = json!({"part": "hist", "history": history_json(h)});
    let mut push = |tail: &str, what: String| {
        viol.push(Violation { signature: format!("C19/hist/{tail}"), what: format!("{what}. History: {}", show_history(h)), case: case.clone() });
    };
    let mut last = Judged::default();
    let mut last_kind = "none";
    let mut last_class = "none";
    for (i, op) in h.iter().enumerate() {
        let step = i + 1;
        let is_last = step == h.len();
        let expected = match op {
            Op::Save(s, p, mode) => match m.save_expected(*s, p, *mode) {
                Some((x, _)) => x,
                None => return Err(format!("hist: {} without a handle in {}", op.show(), show_history(h))),
            },
            _ => 0,
        };
        let tag = tag_for(step, op);
        if is_last {
            last_kind = m.kind_of(op);
        }
        let obs = exec(&im, op, expected, &tag);
        if is_last {
            last_class = obs.class.name();
        }
        let j = m.step(step, op, &obs, &tag);
        if let Some(u) = &j.unmodelled {
            return Err(format!("hist: operation outside the model was enumerated: {u} in {}", show_history(h)));
        }
        if !is_last {
            if !j.viol.is_empty() && judge {
                // every expanded history was judged clean when it was the last step
                return Err(format!("hist: replay is not deterministic — step {step} of {} now violates {}", show_history(h), j.viol[0].0));
            }
        } else {
            last = j;
        }
    }
    for (tail, what) in &last.viol {
        push(tail, what.clone());
    }
    let mut extend = last.viol.is_empty();
    let mut tainted = false;
    let mut impl_part = String::new();
    if !last.diverged {
        // whole-jail snapshot against the model's tree
        let disk = snapshot();
        let want = expected_snapshot(&m);
        if disk != want {
            extend = false;
            let opp: Vec<String> = match h.last() {
                Some(Op::Rename(_, a, b)) => vec![a.clone(), b.clone()],
                Some(Op::Open(_, p)) | Some(Op::Save(_, p, _)) | Some(Op::CreateFile(_, p)) | Some(Op::CreateDir(_, p)) | Some(Op::Delete(_, p)) => vec![p.clone()],
                _ => Vec::new(),
            };
            let mut keys: BTreeSet<&String> = disk.keys().collect();
            keys.extend(want.keys());
            let mut seen_sig: BTreeSet<String> = BTreeSet::new();
            for k in keys {
                let (d, w) = (disk.get(k), want.get(k));
                if d == w {
                    continue;
                }
                let rel = opp.iter().map(|o| related(o, k)).max_by_key(|r| rank(r)).unwrap_or("unrelated");
                let (clause, detail) = if k.starts_with('!') {
                    ("escape", String::new())
                } else if last.targets.contains(k) {
                    ("effect", format!(":answered-{last_class}"))
                } else if matches!((d, w), (Some(Snap::File(_)), Some(Snap::File(_)))) {
                    ("content", format!(":{rel}"))
                } else {
                    ("collateral", format!(":{rel}"))
                };
                let tail = format!("{clause}/{last_kind}{detail}");
                if seen_sig.insert(tail.clone()) {
                    push(&tail, format!("after the last operation the entry {k} is {} but the reference model (last successful write / untouched entries) says {}", show_snap(d), show_snap(w)));
                }
            }
        }
        // read-only probe: health, then every file opened by a viewer session
        let pt = &im.tok[3];
        match catch(|| im.st.health(pt)) {
            Ok(Ok(hl)) => impl_part.push_str(&format!("|t{}o{}", hl.tracked_documents, hl.open_document_handles)),
            Ok(Err(e)) => return Err(format!("hist: health probe failed: {e}")),
            Err(p) => push("panic/health", format!("health panicked: {p}")),
        }
        for p in m.files() {
            let r = catch(|| im.st.open_source(pt, &p));
            match r {
                Ok(Ok(s)) => {
                    impl_part.push_str(&format!("|{p}:{}", s.version));
                    let f = m.file(&p).unwrap().clone();
                    if !f.ver.allows(s.version) {
                        tainted = true;
                        let ctx = m.ctx_since(Some(f.id), &p, f.ver_step);
                        push(
                            &format!("version/probe:{ctx}"),
                            format!("after the history a fresh open of {p} reports version {} but the entry's version is {} (last confirmed at step {}): the version history did not stay with the entry, a stale handle can now match", s.version, f.ver.show(), f.ver_step),
                        );
                    }
                }
                Ok(Err(e)) => {
                    extend = false;
                    push(&format!("result/probe-open:ok->{}", class_of(e.kind()).name()), format!("a viewer cannot open the existing file {p}: {e}"));
                }
                Err(pm) => {
                    extend = false;
                    push("panic/probe-open", format!("open_source({p}) panicked: {pm}"));
                }
            }
        }
        let after = snapshot();
        if after != disk {
            extend = false;
            push("collateral/probe", "the read-only probe (health + open of every file by a viewer session) changed the tree".to_string());
        }
    }
    let key = if extend { Some(hash_key(&format!("{}{}", m.key(struct_limit), impl_part))) } else { None };
    drop(push);
    Ok(ReplayOut { key, tainted, viol, outcome: last.outcome, stats: last.stats, model: m })
}

fn show_snap(s: Option<&Snap>) -> String {
    match s {
        None => "absent".into(),
        Some(Snap::Dir) => "a directory".into(),
        Some(Snap::File(c)) => format!("a file with content {c:?}"),
        Some(Snap::Other(o)) => o.clone(),
    }
}

fn viol_json(v: &Violation) -> Value {
    json!({"signature": v.signature, "what": v.what, "case": v.case})
}

fn viol_from(v: &Value) -> Violation {
    Violation { signature: v["signature"].as_str().unwrap_or("C19/hist/?").to_string(), what: v["what"].as_str().unwrap_or("").to_string(), case: v["case"].clone() }
}

/// Worker entry (`tv --worker c19_hist`). Requests: {"kind":"probe"} | {"kind":"replay","history":[..]}
/// | {"kind":"expand","cfg":{..},"nodes":[history,..]} (every enabled one-step extension of every
/// node is replayed from scratch). Reply: {"error": "..."} (machinery) or the result. The jail is
/// entered before the request is looked at; nothing runs outside it.
pub fn worker_hist(req: &Value) -> Value {
    let base = std::env::var(ENV_BASE).unwrap_or_default();
    if let Err(e) = confine::enter_jail(&base) {
        return json!({ "error": e });
    }
    if let Err(e) = confine::still_jailed() {
        return json!({ "error": e });
    }
    // SAFETY: getter without arguments.
    let uid = unsafe { libc::geteuid() };
    match worker_inner(req) {
        Ok(mut v) => {
            v["uid"] = json!(uid);
            v
        }
        Err(e) => json!({ "error": e }),
    }
}

fn worker_inner(req: &Value) -> Result<Value, String> {
    match req["kind"].as_str().unwrap_or("") {
        "probe" => {
            reset_tree()?;
            let mut root: Vec<String> = std::fs::read_dir("/").map(|rd| rd.flatten().map(|e| e.file_name().to_string_lossy().to_string()).collect()).unwrap_or_default();
            root.sort();
            let climb = std::fs::canonicalize("/../../..").map(|p| p.display().to_string()).unwrap_or_default();
            Ok(json!({"root_entries": root, "slash_dotdot_resolves_to": climb, "cwd": std::env::current_dir().map(|p| p.display().to_string()).unwrap_or_default()}))
        }
        "replay" => {
            let h = history_from(&req["history"]).ok_or("hist: replay: malformed history")?;
            let r = replay(&h, usize::MAX, false)?;
            Ok(json!({"viol": r.viol.iter().map(viol_json).collect::<Vec<_>>(), "outcome": r.outcome}))
        }
        "expand" => {
            let cfg: Cfg = serde_json::from_value(req["cfg"].clone()).map_err(|e| format!("hist: bad cfg: {e}"))?;
            let mut children = Vec::new();
            let mut viol: Vec<(Violation, u64)> = Vec::new();
            let mut stats: BTreeMap<String, u64> = BTreeMap::new();
            let mut outcomes: BTreeSet<String> = BTreeSet::new();
            let mut replays = 0u64;
            let mut sample = Value::Null;
            let note = |r: &ReplayOut, viol: &mut Vec<(Violation, u64)>| {
                for v in &r.viol {
                    match viol.iter_mut().find(|(w, _)| w.signature == v.signature) {
                        Some((_, n)) => *n += 1,
                        None => viol.push((v.clone(), 1)),
                    }
                }
            };
            for node in req["nodes"].as_array().cloned().unwrap_or_default() {
                let h = history_from(&node["h"]).ok_or("hist: expand: malformed history")?;
                let parent_tainted = node["t"] == true;
                let mut kids = Vec::new();
                if req["root"] == true {
                    // the empty history: pristine tree + probe
                    let r = replay(&h, cfg.struct_limit, true)?;
                    replays += 1;
                    note(&r, &mut viol);
                    kids.push(json!({"op": Value::Null, "key": r.key}));
                    children.push(Value::Array(kids));
                    continue;
                }
                let at = replay(&h, cfg.struct_limit, false)?;
                replays += 1;
                for op in enabled(&at.model, &cfg) {
                    let mut h2 = h.clone();
                    h2.push(op.clone());
                    let mut r = replay(&h2, cfg.struct_limit, !parent_tainted)?;
                    replays += 1;
                    if parent_tainted {
                        r.viol.retain(|v| !v.signature.starts_with("C19/hist/version/"));
                        r.key = None;
                    }
                    note(&r, &mut viol);
                    for s in &r.stats {
                        *stats.entry(s.to_string()).or_insert(0) += 1;
                    }
                    outcomes.insert(r.outcome.clone());
                    if sample.is_null() && h2.len() >= 3 && r.stats.contains(&"conflict") {
                        sample = json!({"part": "hist", "history": show_history(&h2), "last_step": r.outcome, "model_state": r.model.key(cfg.struct_limit)});
                    }
                    kids.push(json!({"op": op.to_json(), "key": r.key, "t": r.tainted}));
                }
                children.push(Value::Array(kids));
            }
            Ok(json!({
                "children": children,
                "viol": viol.iter().map(|(v, n)| json!({"v": viol_json(v), "n": n})).collect::<Vec<_>>(),
                "stats": stats, "outcomes": outcomes, "replays": replays, "sample": sample,
            }))
        }
        other => Err(format!("hist: unknown request kind {other:?}")),
    }
}

pub fn workers() -> Vec<(&'static str, WorkerFn)> {
    vec![(WORKER, worker_hist as WorkerFn)]
}

// -------------------------------------------------------------------------------------------------
// parent side: breadth-first search over histories
// -------------------------------------------------------------------------------------------------

fn pool_cfg(base: &Path, procs: usize, deadline: Option<Instant>) -> PoolCfg {
    PoolCfg {
        worker: WORKER,
        procs,
        rlimit_as: 0,
        per_case: Duration::from_secs(300),
        deadline,
        env: vec![(ENV_BASE.to_string(), base.to_string_lossy().to_string())],
        stack: 8 << 20,
    }
}

#[derive(Default)]
struct FamStats {
    states: u64,
    transitions: u64,
    replays: u64,
    depth_completed: usize,
    capped: bool,
    frontier_sizes: Vec<usize>,
    viol: Vec<(Violation, u64)>,
    stats: BTreeMap<String, u64>,
    outcomes: BTreeSet<String>,
    samples: Vec<Value>,
    probe: Value,
}

fn checked(u: &Value, r: Option<iso::Outcome>) -> Result<Option<Value>, String> {
    let v = match r {
        Some(iso::Outcome::Ok(v)) => v,
        Some(other) => return Err(format!("hist: the jailed worker did not answer a {} unit: {other:?}", u["kind"].as_str().unwrap_or("?"))),
        None => return Ok(None),
    };
    if let Some(e) = v["error"].as_str() {
        return Err(e.to_string());
    }
    if v["uid"].as_u64() != Some(NOBODY) {
        return Err("hist: a worker answered without having dropped privileges".into());
    }
    Ok(Some(v))
}

fn explore(cfg: &Cfg, base: &Path, threads: usize, deadline: Instant) -> Result<FamStats, String> {
    let mut fs = FamStats::default();
    let cfg_json = serde_json::to_value(cfg).map_err(|e| e.to_string())?;
    let mut seen: HashSet<u128> = HashSet::new();
    let parse_key = |k: &Value| k.as_str().and_then(|s| u128::from_str_radix(s, 16).ok());
    let absorb = |fs: &mut FamStats, v: &Value| {
        fs.replays += v["replays"].as_u64().unwrap_or(0);
        for e in v["viol"].as_array().cloned().unwrap_or_default() {
            let viol = viol_from(&e["v"]);
            let n = e["n"].as_u64().unwrap_or(1);
            match fs.viol.iter_mut().find(|(w, _)| w.signature == viol.signature) {
                Some((_, c)) => *c += n,
                None => fs.viol.push((viol, n)),
            }
        }
        if let Some(o) = v["stats"].as_object() {
            for (k, n) in o {
                *fs.stats.entry(k.clone()).or_insert(0) += n.as_u64().unwrap_or(0);
            }
        }
        for o in v["outcomes"].as_array().cloned().unwrap_or_default() {
            if let Some(s) = o.as_str() {
                fs.outcomes.insert(s.to_string());
            }
        }
        if !v["sample"].is_null() && fs.samples.len() < 2 {
            fs.samples.push(v["sample"].clone());
        }
    };
    // jail probe + the empty history
    {
        let units = vec![json!({"kind": "probe"}), json!({"kind": "expand", "root": true, "cfg": cfg_json, "nodes": [{"h": []}]})];
        let pc = pool_cfg(base, 1, None);
        let res = iso::run_pool(&pc, &units)?;
        let mut it = units.iter().zip(res);
        let (u, r) = it.next().unwrap();
        let p = checked(u, r)?.ok_or("hist: probe not executed")?;
        let entries: Vec<String> = p["root_entries"].as_array().map(|a| a.iter().filter_map(|x| x.as_str().map(str::to_string)).collect()).unwrap_or_default();
        if entries != ["proj", "proj2", "sentinel.txt"] || p["slash_dotdot_resolves_to"] != "/" || p["cwd"] != "/" {
            return Err(format!("hist: the jail does not look like a jail: {p}"));
        }
        fs.probe = p;
        let (u, r) = it.next().unwrap();
        let v = checked(u, r)?.ok_or("hist: root not executed")?;
        absorb(&mut fs, &v);
        fs.states = 1;
        match parse_key(&v["children"][0][0]["key"]) {
            Some(k) => {
                seen.insert(k);
            }
            None => return Ok(fs), // the pristine state already violates a clause: nothing to extend
        }
    }
    let mut frontier: Vec<Value> = vec![json!({"h": []})];
    for depth in 1..=cfg.depth {
        if frontier.is_empty() {
            fs.depth_completed = cfg.depth;
            break;
        }
        let procs = threads.max(1).min(frontier.len());
        let chunk = (frontier.len() / (procs * 8)).clamp(1, if cfg.dynamic { 2 } else { 12 });
        let units: Vec<Value> = frontier.chunks(chunk).map(|c| json!({"kind": "expand", "cfg": cfg_json, "nodes": c})).collect();
        let pc = pool_cfg(base, procs, Some(deadline));
        let res = iso::run_pool(&pc, &units)?;
        let mut next = Vec::new();
        let mut complete = true;
        for ((u, r), nodes) in units.iter().zip(res).zip(frontier.chunks(chunk)) {
            let Some(v) = checked(u, r)? else {
                complete = false;
                continue;
            };
            absorb(&mut fs, &v);
            for (node, kids) in nodes.iter().zip(v["children"].as_array().cloned().unwrap_or_default()) {
                for kid in kids.as_array().cloned().unwrap_or_default() {
                    fs.transitions += 1;
                    if let Some(k) = parse_key(&kid["key"]) {
                        if seen.insert(k) {
                            fs.states += 1;
                            if depth < cfg.depth {
                                let mut h = node["h"].as_array().cloned().unwrap_or_default();
                                h.push(kid["op"].clone());
                                next.push(json!({"h": h, "t": kid["t"] == true}));
                            }
                        }
                    }
                }
            }
        }
        fs.frontier_sizes.push(next.len());
        if !complete {
            fs.capped = true;
            break;
        }
        fs.depth_completed = depth;
        frontier = next;
    }
    Ok(fs)
}

fn machinery_violation(case: &Value, m: String) -> Vec<Violation> {
    vec![Violation { signature: "C19/machinery/hist-replay".into(), what: format!("replay could not be executed: {m}"), case: case.clone() }]
}

/// Re-executes one recorded history (`"part":"hist"`) in a jailed worker.
pub fn check_case(case: &Value) -> Vec<Violation> {
    if case["part"].as_str() != Some("hist") {
        return Vec::new();
    }
    let base = confine::jail_base(None);
    if let Err(e) = std::fs::create_dir_all(&base) {
        return machinery_violation(case, format!("cannot create {}: {e}", base.display()));
    }
    let cfg = pool_cfg(&base, 1, None);
    let unit = json!({"kind": "replay", "history": case["history"]});
    let r = {
        let mut w = iso::Worker::new(&cfg);
        w.call(&unit)
    };
    confine::remove_base(&base);
    match r {
        Ok(o) => match checked(&unit, Some(o)) {
            Ok(Some(v)) => v["viol"].as_array().map(|a| a.iter().map(viol_from).collect()).unwrap_or_default(),
            Ok(None) => machinery_violation(case, "not executed".into()),
            Err(e) => machinery_violation(case, e),
        },
        Err(e) => machinery_violation(case, e),
    }
}

pub fn run_part(ctx: &Ctx, rep: &mut Report) -> Result<(), Machinery> {
    let t0 = Instant::now();
    let thorough = ctx.tier == Tier::Thorough;
    // (family, share of the wall budget in seconds)
    let fams: Vec<(Cfg, f64)> = if thorough {
        vec![(full_cfg(3, true), 200.0), (focus_cfg(7, true), 340.0)]
    } else {
        vec![(full_cfg(2, false), 4.0), (focus_cfg(6, false), 9.0)]
    };
    let base = confine::jail_base(Some(ctx));
    std::fs::create_dir_all(&base).map_err(|e| Machinery(format!("hist: cannot create {base:?}: {e}")))?;
    let mut reports = Vec::new();
    let mut totals = FamStats::default();
    let mut exhaustive = true;
    let mut result = Ok(());
    let mut spare = 0.0f64;
    for (cfg, budget) in &fams {
        let f0 = Instant::now();
        let deadline = f0 + Duration::from_secs_f64(budget + spare);
        let fs = match explore(cfg, &base, ctx.threads, deadline) {
            Ok(fs) => fs,
            Err(e) => {
                result = Err(Machinery(format!("hist[{}]: {e}", cfg.name)));
                break;
            }
        };
        spare = (budget + spare - f0.elapsed().as_secs_f64()).max(0.0);
        if fs.capped {
            exhaustive = false;
            rep.cap(format!("hist {}: wall cap; depth {} of {} completed, {} transitions", cfg.name, fs.depth_completed, cfg.depth, fs.transitions));
        }
        eprintln!(
            "[C19] hist {}: depth {}/{} states {} transitions {} replays {} frontier {:?} outcomes {} violations {} {:.1}s",
            cfg.name, fs.depth_completed, cfg.depth, fs.states, fs.transitions, fs.replays, fs.frontier_sizes, fs.outcomes.len(), fs.viol.len(), f0.elapsed().as_secs_f64()
        );
        reports.push(json!({
            "family": cfg.name, "max_depth": cfg.depth, "depth_completed": fs.depth_completed, "states": fs.states, "transitions": fs.transitions,
            "histories_replayed": fs.replays, "new_states_per_depth": fs.frontier_sizes, "distinct_outcomes": fs.outcomes.len(), "capped": fs.capped,
            "struct_limit": if cfg.struct_limit == usize::MAX { Value::Null } else { json!(cfg.struct_limit) },
            "counters": fs.stats, "wall_s": f0.elapsed().as_secs_f64(),
        }));
        totals.states += fs.states;
        totals.transitions += fs.transitions;
        totals.replays += fs.replays;
        for (k, n) in &fs.stats {
            *totals.stats.entry(k.clone()).or_insert(0) += n;
        }
        totals.outcomes.extend(fs.outcomes.iter().cloned());
        if totals.probe.is_null() {
            totals.probe = fs.probe.clone();
        }
        for s in fs.samples {
            rep.sample(s);
        }
        for (v, n) in fs.viol {
            let sig = v.signature.clone();
            let first = !rep.violation_counts.contains_key(&sig);
            rep.violation(v);
            if n > 1 || !first {
                *rep.violation_counts.entry(sig).or_insert(0) += n - 1;
            }
        }
    }
    confine::remove_base(&base);
    result?;

    // ---- vacuity: the interesting branches must have been executed
    let need = [
        ("conflict", "no save was ever refused with a version conflict"),
        ("ok-save", "no save ever succeeded"),
        ("rename-open-doc", "no rename ever moved a document that a session holds open"),
        ("dir-rename-with-tracked-prefix-sibling", "no directory rename happened next to a tracked prefix sibling"),
        ("delete-open-doc", "no open document was ever deleted"),
        ("recreate", "no deleted/renamed-away path was ever re-created"),
        ("path-handle-save", "no save through a handle of an earlier entry of the path was ever tried"),
        ("save-on-renamed-open-doc", "no session ever saved a document that was renamed while it held it open"),
    ];
    // a violation of a clause that changes which branches are reachable explains a missing branch
    // (it is reported instead of a machinery error); the others do not
    let explained = rep.violations.iter().any(|v| ["result/", "spurious-conflict/", "panic/", "effect/", "escape/"].iter().any(|c| v.signature.starts_with(&format!("C19/hist/{c}"))));
    for (k, why) in need {
        if totals.stats.get(k).copied().unwrap_or(0) == 0 && !explained {
            return machinery(format!("hist: vacuous exploration — {why}"));
        }
    }
    if totals.transitions < 100 || totals.outcomes.len() < 8 {
        return machinery(format!("hist: vacuous exploration — {} transitions, {} distinct outcomes", totals.transitions, totals.outcomes.len()));
    }

    rep.set("hist_states", totals.states);
    rep.set("hist_transitions", totals.transitions);
    rep.set("traces_validated_against_impl", totals.replays);
    rep.set("hist_distinct_outcomes", totals.outcomes.len() as u64);
    rep.set("hist_outcomes", json!(totals.outcomes));
    rep.set("hist_counters", json!(totals.stats));
    rep.set("hist_families", reports);
    rep.set("hist_jail_probe", totals.probe);
    rep.set("hist_exhaustive", exhaustive);
    rep.set("hist_wall_s", t0.elapsed().as_secs_f64());
    rep.set("hist_jail", "every history was replayed in a child process chroot-ed into a private directory as uid/gid 65534 (verified before every replay)");
    if !exhaustive {
        rep.set("exhaustive", false);
    }
    let ev = rep.get("evaluations") + totals.transitions;
    let dn = rep.get("distinct_nontrivial") + totals.outcomes.len() as u64;
    rep.set("evaluations", ev);
    rep.set("distinct_nontrivial", dn);
    let rule = rep.coverage.get("rule").and_then(Value::as_str).unwrap_or("").to_string();
    rep.set(
        "rule",
        format!("{rule} | part 3 (histories): breadth-first search over histories of open/save(expected = last seen version | stale | future)/create/rename/move/delete/list operations of two editor sessions and a viewer on a tree of prefix-colliding names, every history replayed on a fresh tree + fresh WebIdeState inside the chroot jail and compared step by step with a reference model (result class, versions, whole-tree snapshot), histories merged by canonical (model, probed implementation versions) state; families: full menus to a small depth, pruned one-focus-document alphabet to depth 5 (quick) / 7 (thorough); non-trivial = distinct (operation, result class, handle/context) outcomes"),
    );
    rep.assume("hist: sequential histories only (interleavings are part 2); contents are unique tags; external (non-API) modifications of the tree are not part of the alphabet; moving a directory into itself, names used as file and directory, and rename_symbol are left out");
    rep.assume("hist: readings accepted — rename may keep or bump the version; first-tracked version number adopted; save result > expected; any error rejects a viewer; stale/future guesses judged by numbers only");
    Ok(())
}
